"""C05 (and the shared machinery of C06 / C09 / C14): host programs written with
the SDK's constructs are executed on the real SDK -> real messages -> real
controller, and TLC decides (HostTrace) whether what happened is what executing
the program directly does (Host.tla)."""
from __future__ import annotations

import copy
import itertools
import json
import random
import shutil
from concurrent.futures import ProcessPoolExecutor
from typing import Any, Dict, List, Optional

from . import common as C

ASSUME = [
    "the oracle is Host.tla's direct evaluation of the abstract program; the rig annotates the program with what the SDK chose (array addresses, virtual qubit ids) so that the comparison does not depend on allocation policy (that is C09's subject)",
    "counted loops require start <= stop and step | (stop - start) (the emitted beq would not terminate otherwise): a named precondition",
    "host reads: a handle reads the value of the location it denotes as of the last flush; a RegFuture denotes its own logical value, not the physical register it happened to get",
    "in-process return path: returned arrays alias the controller's arrays (the repository's own shared-memory path)",
    "measurement outcomes come from a script consumed in execution order; generic hardware; programs are generated to be mostly fault-free, faults must agree on both sides",
]

c = lambda v: {"k": "c", "v": v}
lv = lambda n: {"k": "lv", "n": n}
fut = lambda a, i: {"k": "fut", "a": a, "i": i}


class Gen:
    """random structured host programs over a few arrays and qubits"""

    def __init__(self, rng: random.Random, depth_max=3, allow_qubits=True, bounded=False, neg=False):
        self.rng = rng
        self.consts = [0, 1, 2, 3, -1, -2, -3] if neg else [0, 1, 2, 3]     # neg: classical values below zero
        self.persist: List[str] = []        # qubits that stay alive across statements and flushes: gates on them at any depth
        self.bounded = bounded          # long histories: keep values small (TLC integers are 32-bit)
        self.depth_max = depth_max
        self.allow_qubits = allow_qubits
        self.na = self.nq = self.nf = 0
        self.arrays: Dict[str, int] = {}        # handle -> length (all entries defined)
        self.partial: Dict[str, int] = {}       # arrays with undefined entries (measure targets)
        self.live_q: List[str] = []
        self.regfs: List[str] = []          # register futures created in the CURRENT flush (usable as operands until the flush)
        self.fresh_regfs: List[str] = []
        self.in_if = 0
        self.meas_used = 0

    def new_array(self, length=None, defined=True):
        r = self.rng
        self.na += 1
        h = f"A{self.na}"
        length = length or r.choice([1, 2, 3])
        if defined:
            vals = [r.choice(self.consts) for _ in range(length)]
            if r.random() < 0.25:
                vals = [vals[0]] * length        # all-equal initial values trigger the loop optimisation
            self.arrays[h] = length
            return {"s": "array", "h": h, "len": length, "init": vals}
        self.partial[h] = length
        if length >= 2 and r.random() < 0.5:
            # some entries defined (mostly one value), the others left undefined
            vals = [r.choice(self.consts)] * length
            vals[r.randrange(length)] = None
            if length >= 3 and r.random() < 0.5:
                vals[r.randrange(length)] = r.choice(self.consts)
            return {"s": "array", "h": h, "len": length, "init": vals}
        return {"s": "array", "h": h, "len": length, "init": None}

    def idx(self, length, loops):
        """an index expression valid for an array of this length; loops = list of (level, bound)"""
        ok = [l for l, b in loops if b <= length]
        if ok and self.rng.random() < 0.6:
            return lv(self.rng.choice(ok))
        return c(self.rng.randrange(length))

    def loc(self, loops, defined_only=True):
        r = self.rng
        if self.regfs and r.random() < 0.2:
            return {"k": "reg", "h": r.choice(self.regfs)}
        a = r.choice(sorted(self.arrays))
        return fut(a, self.idx(self.arrays[a], loops))

    def val(self, loops):
        r = self.rng
        p = r.random()
        if p < 0.4:
            return c(r.choice(self.consts))
        if p < 0.55 and loops:
            return lv(r.choice(loops)[0])
        return self.loc(loops)

    def stmts(self, n, depth, loops, top=False):
        out = []
        for _ in range(n):
            out += self.stmt(depth, loops, top)
        return out

    def stmt(self, depth, loops, top):
        r = self.rng
        p = r.random()
        if top and p < 0.12 or not self.arrays:
            return [self.new_array()]
        if self.persist and r.random() < 0.22:
            # a gate on a long-lived qubit, wherever the program is (inside conditionals and loops, right after them)
            if r.random() < 0.7:
                return [{"s": "gate", "g": r.choice(["x", "h", "z", "s", "t", "y", "k"]), "qs": [r.choice(self.persist)]}]
            a_, b_ = r.sample(self.persist, 2)
            return [{"s": "gate", "g": r.choice(["cnot", "cphase"]), "qs": [a_, b_]}]
        if p < 0.3:
            mod = r.choice([-1, -1, 2, 3, 5])
            o = self.val(loops)
            if self.bounded and (o["k"] != "c" or loops):
                mod = r.choice([5, 7, 11])
            return [{"s": "add", "t": self.loc(loops), "o": o, "mod": mod}]
        if p < 0.5 and depth < self.depth_max:
            cmp = r.choice(["eq", "ne", "lt", "ge", "ez", "nz"])
            a = self.loc(loops) if r.random() < 0.8 or not loops else lv(r.choice(loops)[0])
            form = r.choice(["ctx", "cb"])
            self.in_if += 1
            body = self.stmts(r.choice([1, 1, 2]), depth + 1, loops) if r.random() > 0.05 else []
            self.in_if -= 1
            return [{"s": "if", "cmp": cmp, "a": a, "b": self.val(loops), "form": form, "body": body}]
        if p < 0.64 and depth < self.depth_max:
            start = r.choice([0, 0, 1, 2])
            step = r.choice([1, 1, 2])
            cnt = r.choice([1, 2, 3])
            if self.persist and r.random() < 0.3:       # (rich stream) counting down
                start, step = start + 3, -step
            level = len(loops) + 1
            body = self.stmts(r.choice([1, 2]), depth + 1, loops + [(level, start + cnt * step if step == 1 else 99)])
            return [{"s": "loop", "start": start, "stop": start + cnt * step, "step": step, "form": r.choice(["ctx", "body"]), "body": body}]
        if p < 0.74 and depth < self.depth_max:
            a = r.choice(sorted(self.arrays))
            level = len(loops) + 1
            body = self.stmts(r.choice([1, 2]), depth + 1, loops + [(level, self.arrays[a])])
            return [{"s": "foreach", "a": a, "enum": r.random() < 0.5, "body": body}]
        if p < 0.84 and self.allow_qubits:
            return self.qubit_block(loops, depth)
        if p < 0.9 and depth < self.depth_max and self.allow_qubits:
            return self.until_block(loops, depth)
        return [{"s": "add", "t": self.loc(loops), "o": c(1), "mod": 13 if self.bounded else -1}]

    def qubit_block(self, loops, depth):
        """allocate, a few gates, measure into some location (everything inside the current body)"""
        r = self.rng
        self.nq += 1
        q = f"Q{self.nq}"
        out: List[Dict[str, Any]] = [{"s": "qubit", "h": q}]
        for _ in range(r.choice([0, 1, 2])):
            if r.random() < 0.7:
                out.append({"s": "gate", "g": r.choice(["x", "h", "z", "s", "t", "y", "k"]), "qs": [q]})
            else:
                out.append({"s": "rot", "g": r.choice(["rot_x", "rot_y", "rot_z"]), "q": q, "n": r.randrange(8), "d": r.randrange(4)})
        kind = r.random()
        if kind < 0.4:
            a = r.choice(sorted(self.arrays))
            into = fut(a, self.idx(self.arrays[a], loops))
        elif kind < 0.75:
            self.na += 1
            h = f"A{self.na}"
            into = {"k": "new", "h": h}
        elif self.in_if == 0 and depth == 0 and not self.regfs:
            # a register future: only unconditionally, at most one per flush (M registers are recycled per flush)
            self.nf += 1
            h = f"F{self.nf}"
            into = {"k": "newreg", "h": h}
        else:
            self.na += 1
            h = f"A{self.na}"
            into = {"k": "new", "h": h}
        out.append({"s": "meas", "q": q, "inplace": False, "into": into})
        self.meas_used += 4
        self._after = (into, depth)
        if into["k"] == "new" and depth == 0:
            self.arrays[into["h"]] = 1
        if into["k"] == "newreg" and depth == 0:
            self.regfs.append(into["h"])
        return out

    def until_block(self, loops, depth):
        r = self.rng
        self.nq += 1
        q = f"Q{self.nq}"
        self.na += 1
        h = f"A{self.na}"
        level = len(loops) + 1
        body = [{"s": "qubit", "h": q}, {"s": "gate", "g": "h", "qs": [q]}, {"s": "meas", "q": q, "inplace": False, "into": {"k": "new", "h": h}}]
        if r.random() < 0.5 and self.arrays:
            a = r.choice(sorted(self.arrays))
            body.append({"s": "add", "t": fut(a, c(0)), "o": c(1), "mod": -1})
        self.meas_used += 6
        cleanup = [{"s": "add", "t": self.loc([]), "o": c(1), "mod": -1}] if r.random() < 0.4 and self.arrays else []
        return [{"s": "until", "max": r.choice([1, 2, 3, 4]), "body": body, "t": fut(h, c(0)), "v": r.choice([0, 0, 1]), "cleanup": cleanup}]


def random_history(rng: random.Random, nflush: int, per_flush: int, reads=True, depth_max=3, neg=False) -> Dict[str, Any]:
    g = Gen(rng, depth_max=depth_max, neg=neg)
    hist: List[Dict[str, Any]] = [g.new_array(), g.new_array()]
    if neg:
        hist += [{"s": "qubit", "h": "P1"}, {"s": "qubit", "h": "P2"}]
        g.persist = ["P1", "P2"]
    for f in range(nflush):
        hist += g.stmts(rng.randrange(1, per_flush + 1), 0, [], top=True)
        hist.append({"s": "flush"})
        for h in g.regfs:                     # a register future is read right after the flush that produced it ...
            hist.append({"s": "read", "loc": {"k": "reg", "h": h}})
        g.regfs = []                          # ... and not used afterwards (its physical register is recycled)
        if reads:
            for a in sorted(g.arrays):
                if rng.random() < 0.5:
                    hist.append({"s": "read", "loc": {"k": "arr", "a": a}})
                if rng.random() < 0.4:
                    hist.append({"s": "read", "loc": fut(a, c(rng.randrange(g.arrays[a])))})
    meas = [rng.randrange(2) for _ in range(max(8, g.meas_used + 4))]
    return {"history": hist, "meas": meas}


def directed() -> List[Dict[str, Any]]:
    """shapes named in the property text"""
    A = lambda h, vals: {"s": "array", "h": h, "len": len(vals), "init": vals}
    F = {"s": "flush"}
    RA = lambda h: {"s": "read", "loc": {"k": "arr", "a": h}}
    D = []
    # every comparison, context and callback form, true and false
    for cmp in ("eq", "ne", "lt", "ge", "ez", "nz"):
        for x in (0, 1, 2):
            for form in ("ctx", "cb"):
                D.append({"history": [A("A1", [x, 5]), {"s": "if", "cmp": cmp, "a": fut("A1", c(0)), "b": c(1), "form": form,
                                                        "body": [{"s": "add", "t": fut("A1", c(1)), "o": c(10), "mod": -1}]}, F, RA("A1")], "meas": [0]})
    # nested loops keep the outer index live; index used after an inner operation
    D.append({"history": [A("A1", [0, 0, 0]), A("A2", [0, 0, 0]),
                          {"s": "loop", "start": 0, "stop": 3, "step": 1, "form": "ctx", "body": [
                              {"s": "loop", "start": 0, "stop": 3, "step": 1, "form": "body", "body": [
                                  {"s": "add", "t": fut("A1", lv(1)), "o": c(1), "mod": -1},
                                  {"s": "add", "t": fut("A2", lv(2)), "o": lv(1), "mod": -1}]},
                              {"s": "add", "t": fut("A1", lv(1)), "o": lv(1), "mod": -1}]}, F, RA("A1"), RA("A2")], "meas": [0]})
    # loop with start/step
    D.append({"history": [A("A1", [0, 0, 0, 0, 0, 0, 0]), {"s": "loop", "start": 2, "stop": 6, "step": 2, "form": "body",
                                                           "body": [{"s": "add", "t": fut("A1", lv(1)), "o": c(1), "mod": -1}]}, F, RA("A1")], "meas": [0]})
    # foreach / enumerate with add of a future operand and modulus
    D.append({"history": [A("A1", [3, 0, 5]), A("A2", [1, 1, 1]),
                          {"s": "foreach", "a": "A1", "enum": True, "body": [{"s": "add", "t": fut("A2", lv(1)), "o": fut("A1", lv(1)), "mod": -1}]},
                          {"s": "foreach", "a": "A2", "enum": False, "body": [{"s": "add", "t": fut("A2", lv(1)), "o": c(3), "mod": 4}]}, F, RA("A2")], "meas": [0]})
    # loop_until with an at-most exit condition: exits after the first iteration whose outcome is <= v
    for outcomes in ([1, 1, 0, 0, 0], [0, 1, 1, 1, 1], [1, 1, 1, 1, 1]):
        for v in (0, 1):
            D.append({"history": [A("A1", [0]), {"s": "until", "max": 5, "t": fut("A9", c(0)), "v": v, "cleanup": [],
                                                "body": [{"s": "qubit", "h": "Q1"}, {"s": "gate", "g": "h", "qs": ["Q1"]},
                                                         {"s": "meas", "q": "Q1", "inplace": False, "into": {"k": "new", "h": "A9"}},
                                                         {"s": "add", "t": fut("A1", c(0)), "o": c(1), "mod": -1}]}, F, RA("A1"), RA("A9")],
                      "meas": outcomes + [0, 0]})
    # measurement into futures / registers; reads early and late; several flushes
    D.append({"history": [A("A1", [5]), F, {"s": "read", "loc": fut("A1", c(0))}, {"s": "add", "t": fut("A1", c(0)), "o": c(1), "mod": -1}, F,
                          {"s": "read", "loc": fut("A1", c(0))}, RA("A1")], "meas": [0]})
    D.append({"history": [{"s": "qubit", "h": "Q1"}, {"s": "meas", "q": "Q1", "inplace": False, "into": {"k": "newreg", "h": "F1"}}, F,
                          {"s": "qubit", "h": "Q2"}, {"s": "meas", "q": "Q2", "inplace": False, "into": {"k": "newreg", "h": "F2"}}, F,
                          {"s": "read", "loc": {"k": "reg", "h": "F1"}}, {"s": "read", "loc": {"k": "reg", "h": "F2"}}], "meas": [1, 0]})
    D.append({"history": [{"s": "qubit", "h": "Q1"}, {"s": "meas", "q": "Q1", "inplace": False, "into": {"k": "newreg", "h": "F1"}}, F,
                          {"s": "add", "t": {"k": "reg", "h": "F1"}, "o": c(2), "mod": -1}, F, {"s": "read", "loc": {"k": "reg", "h": "F1"}}], "meas": [1]})
    # a register measurement inside a conditional that is not taken
    D.append({"history": [A("A1", [0]), {"s": "if", "cmp": "eq", "a": fut("A1", c(0)), "b": c(1), "form": "ctx",
                                        "body": [{"s": "qubit", "h": "Q1"}, {"s": "meas", "q": "Q1", "inplace": False, "into": {"k": "newreg", "h": "F1"}}]}, F], "meas": [1]})
    # gates on long-lived qubits around control flow: a conditional that is not taken / taken, a loop, whose body ends in a
    # gate on the qubit that the next gate is on, while the last gate before was on the OTHER qubit
    P = [{"s": "qubit", "h": "P1"}, {"s": "qubit", "h": "P2"}]
    G1 = lambda g, q: {"s": "gate", "g": g, "qs": [q]}
    for v0 in (0, 1):
        for form in ("ctx", "cb"):
            D.append({"history": [A("A1", [v0])] + P + [G1("x", "P2"), {"s": "if", "cmp": "eq", "a": fut("A1", c(0)), "b": c(1), "form": form, "body": [G1("x", "P1")]},
                                                     G1("h", "P1"), G1("t", "P1"), G1("z", "P2"), F], "meas": [0]})
            D.append({"history": [A("A1", [v0])] + P + [G1("y", "P1"), {"s": "if", "cmp": "ne", "a": fut("A1", c(0)), "b": c(1), "form": form,
                                                                      "body": [G1("x", "P1"), G1("h", "P2")]}, G1("s", "P2"), G1("k", "P1"), F], "meas": [0]})
    # repeat-until whose value passes the bound without ever being equal to it (3 -> 1 -> -1 against "at most 0", ...)
    for start, step, bound in ((3, -2, 0), (4, -3, 1), (5, -2, 0), (2, -5, -1)):
        D.append({"history": [A("A1", [start]), {"s": "until", "max": 6, "t": fut("A1", c(0)), "v": bound, "cleanup": [],
                                                 "body": [{"s": "add", "t": fut("A1", c(0)), "o": c(step), "mod": -1}]}, F, RA("A1")], "meas": [0]})
    # counting down, both forms of the loop
    for form in ("ctx", "body"):
        D.append({"history": [A("A1", [10, 0, 0, 0])] + [{"s": "loop", "start": 3, "stop": 0, "step": -1, "form": form,
                                                         "body": [{"s": "add", "t": fut("A1", lv(1)), "o": c(1), "mod": -1}, {"s": "add", "t": fut("A1", c(0)), "o": lv(1), "mod": -1}]},
                              {"s": "loop", "start": 4, "stop": -2, "step": -2, "form": form, "body": [{"s": "add", "t": fut("A1", c(0)), "o": lv(1), "mod": -1}]}, F, RA("A1")], "meas": [0]})
    D.append({"history": [A("A1", [0])] + P + [G1("x", "P2"), {"s": "loop", "start": 0, "stop": 2, "step": 1, "form": "ctx", "body": [G1("h", "P1"), G1("z", "P2")]},
                                              G1("t", "P2"), G1("x", "P1"), F], "meas": [0]})
    # arrays with undefined initial entries and all-equal values
    D.append({"history": [A("A1", [None, 4, None]), A("A2", [7, 7, 7, 7]), F, RA("A1"), RA("A2")], "meas": [0]})
    # ... with one value in most places, an undefined entry among them, a different value somewhere
    D.append({"history": [A("A1", [1, 1, None, 1, 0]), A("A2", [None, 5, 5]), A("A3", [2, None, 2, 2]), F, RA("A1"), RA("A2"), RA("A3")], "meas": [0]})
    # a register the application asked for and keeps: used as an array index in later subroutines that need scratch registers
    D.append({"history": [A("A1", [10, 20, 30, 40]), {"s": "hold", "h": "G1", "v": 2}, F,
                          {"s": "add", "t": {"k": "fut", "a": "A1", "i": {"k": "reg", "h": "G1"}}, "o": c(5), "mod": -1}, F,
                          {"s": "loop", "start": 0, "stop": 2, "step": 1, "form": "ctx", "body": [{"s": "add", "t": {"k": "fut", "a": "A1", "i": {"k": "reg", "h": "G1"}}, "o": lv(1), "mod": -1}]}, F,
                          RA("A1")], "meas": [0]})
    # an array entry indexed by a register outcome; the same register future is measured into again (other outcome) between two
    # uses of the entry
    for m1, m2 in ((1, 0), (0, 1), (1, 1)):
        e_ = {"k": "fut", "a": "A1", "i": {"k": "reg", "h": "F1"}}
        D.append({"history": [A("A1", [10, 20, 30]), {"s": "qubit", "h": "Q1"}, {"s": "meas", "q": "Q1", "inplace": False, "into": {"k": "newreg", "h": "F1"}},
                              {"s": "add", "t": e_, "o": c(5), "mod": -1}, {"s": "qubit", "h": "Q2"},
                              {"s": "meas", "q": "Q2", "inplace": False, "into": {"k": "reg", "h": "F1"}}, {"s": "add", "t": e_, "o": c(7), "mod": -1}, F, RA("A1")],
                  "meas": [m1, m2]})
    # in-place measurement keeps the qubit
    D.append({"history": [A("A1", [0, 0]), {"s": "qubit", "h": "Q1"}, {"s": "gate", "g": "x", "qs": ["Q1"]},
                          {"s": "meas", "q": "Q1", "inplace": True, "into": fut("A1", c(0))}, {"s": "gate", "g": "h", "qs": ["Q1"]},
                          {"s": "meas", "q": "Q1", "inplace": False, "into": fut("A1", c(1))}, F, RA("A1")], "meas": [1, 0]})
    # two-qubit gates, conditional gate on an outcome, split over flushes
    D.append({"history": [{"s": "qubit", "h": "Q1"}, {"s": "qubit", "h": "Q2"}, {"s": "gate", "g": "h", "qs": ["Q1"]}, {"s": "gate", "g": "cnot", "qs": ["Q1", "Q2"]},
                          {"s": "meas", "q": "Q1", "inplace": False, "into": {"k": "new", "h": "A1"}}, F,
                          {"s": "if", "cmp": "eq", "a": fut("A1", c(0)), "b": c(1), "form": "ctx", "body": [{"s": "gate", "g": "x", "qs": ["Q2"]}]},
                          {"s": "meas", "q": "Q2", "inplace": False, "into": {"k": "new", "h": "A2"}}, F, RA("A1"), RA("A2")], "meas": [1, 1]})
    return D


def _run_case(item):
    from . import sdkrun
    i, case, prop = item
    run = sdkrun.SdkRun(case["meas"])
    stack_ = None
    if case.get("other_open"):
        # another application's connection in the same process (as in a simulation, where every node's host program is a thread)
        # is in the middle of building nested loops of its own while this one builds and runs its history
        import contextlib
        from netqasm.sdk.connection import DebugConnection
        other = DebugConnection("bob")
        stack_ = contextlib.ExitStack()
        for _k in range(case["other_open"]):
            stack_.enter_context(other.loop(2))
    try:
        out = run.run(case["history"])
    finally:
        if stack_ is not None:
            try:
                stack_.close()
            except Exception:
                pass
    out.update(id=i, prop=prop)
    return out


def flush_placements(case: Dict[str, Any]) -> List[Dict[str, Any]]:
    """every placement of ONE extra flush between top-level statements of a single-flush program"""
    hist = case["history"]
    first = next(i for i, s in enumerate(hist) if s["s"] == "flush")
    out = []
    def regs_made(ss):
        out_ = set()
        for s_ in ss:
            if s_.get("into", {}).get("k") == "newreg":
                out_.add(s_["into"]["h"])
            for f in ("body", "cleanup"):
                if isinstance(s_.get(f), list):
                    out_ |= regs_made(s_[f])
        return out_

    def regs_used(x):
        if isinstance(x, dict):
            return ({x["h"]} if x.get("k") == "reg" else set()) | set().union(*[regs_used(v) for v in x.values()]) if x else set()
        if isinstance(x, list):
            return set().union(*[regs_used(v) for v in x]) if x else set()
        return set()

    for pos in range(1, first):
        if hist[pos - 1]["s"] == "array" and hist[pos]["s"] == "array":
            continue
        # a register future lives in the subroutine that made it (its M register is recycled at the flush: the
        # recorded finding of this property, exercised by directed cases): the extra flush must not cut it off
        if regs_made(hist[:pos]) & regs_used(hist[pos:first]):
            continue
        h2 = hist[:pos] + [{"s": "flush"}] + hist[pos:]
        out.append({"history": h2, "meas": case["meas"]})
    return out


def build_cases(tier: str, rng: random.Random) -> List[Dict[str, Any]]:
    cases = directed()
    extra = []
    for d in cases[-6:]:
        extra += flush_placements(d)
    cases += extra
    n = 500 if tier == "quick" else 6000
    for k in range(n):
        cases.append(random_history(rng, nflush=rng.choice([1, 2, 3]), per_flush=rng.choice([2, 3, 5]), depth_max=rng.choice([2, 3])))
    # classical values below zero (counting down, negative initial values and constants); own random stream
    rng2 = random.Random(C.seed() * 977 + 5)
    for k in range(150 if tier == "quick" else 2000):
        cases.append(random_history(rng2, nflush=rng2.choice([1, 2]), per_flush=rng2.choice([2, 3, 5]), depth_max=rng2.choice([2, 3]), neg=True))
    # flush-placement sweep of random single-flush programs
    for k in range(60 if tier == "quick" else 600):
        base = random_history(rng, nflush=1, per_flush=5, depth_max=2)
        cases += flush_placements(base)[:4]
    return cases


def validate(prop: str, rows: List[Dict[str, Any]], tmp: str):
    return C.run_tlc_sharded("HostTrace", rows, tmp, shards=C.ncpu())


def shape(history, k_item) -> Dict[str, Any]:
    """coarse description of a failing history for the witness"""
    kinds = set()

    def walk(ss):
        for s in ss:
            kinds.add(s["s"])
            for key in ("body", "cleanup"):
                if key in s:
                    walk(s[key])
    walk(history)
    return sorted(kinds - {"flush", "read", "array"})


# --------------------------------------------------------------------------
# shrinking: delta debugging on the history, re-running the real SDK and TLC
# --------------------------------------------------------------------------
def _variants(hist):
    """all histories obtained by one simplification step"""
    out = []

    def rec(path_get, path_set, seq):
        for i, s in enumerate(seq):
            # delete statement i
            out.append(path_set(seq[:i] + seq[i + 1:]))
            for key in ("body", "cleanup"):
                if key in s and s[key]:
                    # unwrap: replace the compound statement by its body (only if the body needs no loop variable)
                    if key == "body" and "lv" not in json.dumps(s[key]) and s["s"] in ("if", "loop", "foreach"):
                        out.append(path_set(seq[:i] + s[key] + seq[i + 1:]))
                    rec(None, lambda new, i=i, key=key, s=s, seq=seq, ps=path_set: ps(seq[:i] + [{**s, key: new}] + seq[i + 1:]), s[key])
            if s["s"] == "loop" and s["stop"] - s["start"] > s["step"]:
                out.append(path_set(seq[:i] + [{**s, "stop": s["start"] + s["step"]}] + seq[i + 1:]))
            if s["s"] == "array" and s.get("init") and len(s["init"]) > 1 and False:
                pass
    rec(None, lambda new: new, hist)
    return out


def _canon(hist, meas):
    """rename handles in order of first appearance"""
    txt = json.dumps(hist)
    import re
    names = []
    for m in re.finditer(r'"([AQF]\d+)"', txt):
        if m.group(1) not in names:
            names.append(m.group(1))
    cnt = {"A": 0, "Q": 0, "F": 0}
    ren = {}
    for n in names:
        cnt[n[0]] += 1
        ren[n] = f"{n[0]}{cnt[n[0]]}"
    txt = re.sub(r'"([AQF]\d+)"', lambda m: '"#' + ren[m.group(1)] + '"', txt).replace('"#', '"')
    return json.loads(txt)


def skeleton(hist):
    """structure of a history without its constants: the witness of a finding"""
    def sk(x):
        if isinstance(x, list):
            return [sk(y) for y in x]
        if isinstance(x, dict):
            keep = {}
            for k, v in x.items():
                if k in ("s", "k", "cmp", "inplace", "enum"):
                    keep[k] = v
                elif k in ("body", "cleanup", "into", "t", "o", "a", "b", "i", "loc") and isinstance(v, (dict, list)):
                    keep[k] = sk(v)
                elif k == "mod":
                    keep[k] = "m" if v > 0 else "-"
                elif k in ("h", "q", "qs") or (k == "a" and isinstance(v, str)):
                    keep[k] = v
            return keep
        return x
    return sk(hist)


def _test_batch(prop, cands, clause, tmp, validate_fn):
    """indices (0-based) of the candidates that still fail with the same clause"""
    if not cands:
        return []
    if len(cands) > 8:
        with ProcessPoolExecutor(max_workers=C.ncpu()) as pool:
            rows = list(pool.map(_run_case, [(i + 1, cnd, prop) for i, cnd in enumerate(cands)], chunksize=4))
    else:
        rows = [_run_case((i + 1, cnd, prop)) for i, cnd in enumerate(cands)]
    good = [r for r in rows if not r["err"]]
    if not good:
        return []
    res = validate_fn(prop, good, tmp)
    return sorted({v[2] - 1 for v in res.verdicts if v[1] == clause})


def shrink(prop, case, clause, tmp, validate_fn, budget=10):
    """delta debugging: first remove chunks of top-level items (ddmin), then single
    simplification steps at any depth; returns a small history with the same failing clause"""
    cur = case
    # phase 1: chunks of the top level
    n = 2
    while len(cur["history"]) > 6 and n <= len(cur["history"]):
        h = cur["history"]
        size = max(1, len(h) // n)
        cands = []
        for k in range(0, len(h), size):
            h2 = h[:k] + h[k + size:]
            if any(s["s"] == "flush" for s in h2):
                cands.append({"history": h2, "meas": cur["meas"]})
        failing = _test_batch(prop, cands, clause, tmp, validate_fn)
        if failing:
            cur = min((cands[i] for i in failing), key=lambda c_: len(json.dumps(c_["history"])))
            n = max(2, n - 1)
        else:
            if size == 1:
                break
            n = min(len(h), n * 2)
    # phase 2: single simplification steps at any depth
    for _ in range(budget):
        cands = [{"history": h, "meas": cur["meas"]} for h in _variants(cur["history"])]
        cands = [cnd for cnd in cands if any(s["s"] == "flush" for s in cnd["history"])]
        failing = _test_batch(prop, cands, clause, tmp, validate_fn)
        if not failing:
            break
        cur = min((cands[i] for i in failing), key=lambda c_: len(json.dumps(c_["history"])))
    return {"history": _canon(cur["history"], cur["meas"]), "meas": cur["meas"]}


def run(prop: str, tier: str) -> int:
    V = C.Verdicts(prop, tier)
    tmp = C.tmpdir()
    try:
        rng = random.Random(C.seed() * 389 + 2)
        cases = build_cases(tier, rng)
        with ProcessPoolExecutor(max_workers=C.ncpu()) as pool:
            rows = list(pool.map(_run_case, [(i + 1, cse, prop) for i, cse in enumerate(cases)], chunksize=16))
        sdk_err = [r for r in rows if r["err"]]
        for r in sdk_err:
            V.add("sdk-raises-while-building", {"error": r["err"].split(":")[0], "constructs": shape(cases[r["id"] - 1]["history"], 0)},
                  f"{r['err']} on history {json.dumps(cases[r['id'] - 1]['history'])[:600]}", cases[r["id"] - 1])
        good = [r for r in rows if not r["err"]]
        res = validate(prop, good, tmp)
        bad = {}
        for v in res.verdicts:
            bad.setdefault(v[2], v)
        by = {r["id"]: r for r in good}
        if set(by) - set(res.ok_ids) - set(bad):
            raise C.MachineryError(f"HostTrace gave no verdict for {len(set(by) - set(res.ok_ids) - set(bad))} histories")
        shrunk_cache: Dict[str, Any] = {}
        nshrunk = 0
        for i, v in sorted(bad.items(), key=lambda kv: len(json.dumps(cases[kv[0] - 1]["history"]))):
            r = by[i]
            item = r["items"][v[3] - 1] if 0 < v[3] <= len(r["items"]) else {}
            # shrink a bounded number of failing histories per clause; the others are reported by their construct set
            if nshrunk < 6:
                small = shrink(prop, cases[i - 1], v[1], tmp, validate)
                nshrunk += 1
                witness = {"skeleton": skeleton(small["history"])}
                detail_small = f"minimal failing history: {json.dumps(small['history'])} meas {small['meas'][:6]}; "
            else:
                witness = {"constructs": shape(cases[i - 1]["history"], v[3]), "unshrunk": True}
                detail_small = ""
            V.add(v[1], witness,
                  detail_small + f"history {json.dumps(cases[i - 1]['history'])[:900]} meas {cases[i - 1]['meas'][:8]}: at item {v[3]} ({item.get('s')}): {v[1]}; "
                  f"observations {json.dumps(r['obs'])[:600]}", cases[i - 1])
        nontriv = {json.dumps(cases[r["id"] - 1]["history"], sort_keys=True) for r in good if r["id"] in set(res.ok_ids)
                   and any(s["s"] in ("if", "loop", "foreach", "until") for s in cases[r["id"] - 1]["history"])}
        # binding self-test: corrupt one observed array value / one read
        probe = None
        for r in good:
            if r["id"] in set(res.ok_ids) and any(o["kind"] == "read" and o["v"] and isinstance(o["v"][0], list) for o in r["obs"]):
                probe = copy.deepcopy(r)
                break
        if probe is None:
            raise C.MachineryError("no accepted history with an array read for the self-test")
        probe["id"] = 1
        for o in probe["obs"]:
            if o["kind"] == "read" and o["v"] and isinstance(o["v"][0], list):
                o["v"][0] = [1, 987]
                break
        r3 = validate(prop, [probe], tmp)
        if not r3.verdicts:
            raise C.MachineryError("binding self-test: corrupted host read accepted by HostTrace")
        cov = {
            "states": res.distinct, "transitions": res.generated,
            "traces_validated_against_impl": len(good), "evaluations": len(rows), "distinct_nontrivial": len(nontriv),
            "rule": "trace = history of SDK calls (constructs nested to depth 3, 1-3 flushes, host reads early and late, every placement of an extra flush for a subset) executed on the real SDK/controller and validated by TLC against Host.tla; non-trivial = accepted and contains a control-flow construct; distinct by program",
            "samples": [cases[0]["history"], cases[len(cases) // 2]["history"]],
            "accepted": len(res.ok_ids), "selftest": "corrupted host read rejected", "exhaustive": False, "checker_cmd": res.cmd,
        }
        return V.finish("model_checking", cov, ASSUME)
    finally:
        shutil.rmtree(tmp, ignore_errors=True)


def replay_case(prop, case, tmp):
    from . import eng_host as H
    if "history" not in case:
        return None
    row = H._run_case((1, {"history": case["history"], "meas": case["meas"]}, prop))
    res = H.validate(prop, [row], tmp)
    return res.verdicts[0][1] if res.verdicts else None
