"""C17: printed assembly parses back to the same instruction."""
from __future__ import annotations

import json
import shutil

from . import common as C
from . import isa

from netqasm.lang.parsing.binary import deserialize
from netqasm.lang.parsing.text import parse_text_subroutine

ASSUME = [
    "field-wise operand vectors (as C01) with signed integers, entries and slices",
    "the canonical text of spec/Text.tla is only used as parser INPUT; the real printer is judged by the real parser",
    "the binary leg of text->binary->text skips classes whose opcode clashes inside their flavour (that defect belongs to C01)",
]


REJECTED = ["# NETQASM 0.0\n# APPID 0\nfoo Q0\n", "set R0\n", "set R0 1\njmp NOWHERE\n", "set R0 1\nset R0 1 2 3\n", "# DEFINE q Q0\nx q!\nset @0[R1:R2 1\n",
            "array 3 @\n", "beq R0 R1\n"]


def run(prop: str, tier: str) -> int:
    V = C.Verdicts(prop, tier)
    tmp = C.tmpdir()
    try:
        table = isa.extract_table()
        tp, out = f"{tmp}/table.json", f"{tmp}/vecs.ndjson"
        json.dump(table, open(tp, "w"))
        r = C.run_tlc("TextMC", env={"VERIF_TABLE": tp, "VERIF_OUT": out}, coverage=True, workers=1)
        if r.violated:
            raise C.MachineryError(f"TextMC: canonical text does not round trip in the specification: {r.violated}")
        if min(r.coverage.get(a, 0) for a in ("DoPrint", "DoParse")) == 0:
            raise C.MachineryError(f"vacuous TLC run {r.coverage}")
        vecs = C.read_ndjson(out)
        clss = {fl: isa.classes(fl) for fl in isa.FLAVOURS}
        keep = {fl: isa.FLAVOURS[fl]() for fl in ("nv", "vanilla", "reids")}
        others = {"nv": "vanilla", "vanilla": "nv", "reids": "vanilla"}
        clash = {fl: {e["op"] for e in table[fl] if sum(1 for x in table[fl] if x["op"] == e["op"]) > 1} for fl in table}
        nontriv, evals, same_text = set(), 0, 0
        after_rejected = 0
        step = 1 if tier == "thorough" else 1
        group, group_fl = [], None

        def flush_group():
            nonlocal group, group_fl
            if len(group) >= 2:
                text = "# NETQASM 1.0\n# APPID 7\n" + "\n".join(str(i) for i in group)
                try:
                    sub = parse_text_subroutine(text, flavour=keep[group_fl])
                    if [isa.flatten(i) for i in sub.instructions] != [isa.flatten(i) for i in group] or sub.app_id != 7:
                        V.add("subroutine-text-roundtrip", {"fl": group_fl}, f"text {text[:300]!r} parsed to {[str(i) for i in sub.instructions][:8]}")
                    elif not any(i.id in clash[group_fl] for i in group):
                        d = deserialize(bytes(sub), flavour=keep[group_fl])
                        t2 = [str(i) for i in d.instructions]
                        if t2 != [str(i) for i in group]:
                            V.add("text-binary-text", {"fl": group_fl}, f"{[str(i) for i in group][:6]} -> {t2[:6]}")
                except Exception as ex:
                    V.add("subroutine-text-raises", {"fl": group_fl}, f"{type(ex).__name__}: {ex} on {text[:300]!r}")
            group, group_fl = [], None

        prev_obj, prev_key, mutated = None, None, 0
        for k, v in enumerate(vecs):
            fl, n, ops = v["fl"], v["n"] - 1, v["ops"]
            cls, shape = clss[fl][n], table[fl][n]["shape"]
            if prev_key == (fl, n) and prev_obj is not None and k % 2 == 0:
                # the object that was just printed is rewritten in place (as the transpilers do with branch targets
                # and registers) and printed again: the text must be that of the instruction as it is NOW
                instr = isa.mutate(prev_obj, shape, ops)
                mutated += 1
            else:
                instr = isa.build(cls, shape, ops)
            prev_obj, prev_key = instr, (fl, n)
            printed = str(instr)
            evals += 1
            nontriv.add((fl, v["mn"], tuple(ops)))
            if printed == v["text"]:
                same_text += 1
            # a flavour object that was created before another flavour came to life must keep working
            isa.FLAVOURS[others[fl]]()
            for flav, tag in ((keep[fl], "kept"), (isa.FLAVOURS[fl](), "fresh")):
                bad = False
                if k % 5 == 0:
                    # the parser is handed a text it has to reject first: what it makes of the next text may not depend on that
                    try:
                        parse_text_subroutine(REJECTED[(k // 5) % len(REJECTED)], flavour=flav)
                    except Exception:
                        pass
                    after_rejected += 1
                for src, what in ((printed, "printed-text"), (v["text"], "canonical-text")):
                    try:
                        got = parse_text_subroutine(src, flavour=flav).instructions
                    except Exception as ex:
                        V.add(what + "-does-not-parse", {"fl": fl, "mn": v["mn"], "neg": any(o < 0 for o in ops)},
                              f"({tag} flavour) {src!r}: {type(ex).__name__}: {ex}", v)
                        bad = True
                        break
                    if len(got) != 1 or type(got[0]) is not cls or isa.flatten(got[0]) != (v["mn"], ops) or got[0] != instr:
                        V.add(what + "-parses-to-other", {"fl": fl, "mn": v["mn"]},
                              f"({tag} flavour) {src!r} -> {[f'{type(g).__module__}.{type(g).__name__} {g}' for g in got]}", v)
                        bad = True
                        break
                if bad:
                    break
            # whole subroutines: consecutive vectors of one flavour, 16 at a time
            if group_fl not in (None, fl) or len(group) >= 16:
                flush_group()
            if k % 7 == 0:
                group.append(instr)
                group_fl = fl
        flush_group()
        # printed assembly that names every one of R0..R15 (and a negative constant, an array entry, a slice): the
        # assembler has no free register left and needs none, since printed text has no literal to materialise
        for fl in ("vanilla", "nv"):
            byname = {c.mnemonic: (c, table[fl][k]["shape"]) for k, c in enumerate(clss[fl])}
            def mk(mn, ops):
                c_, sh = byname[mn]
                return isa.build(c_, sh, ops)
            try:
                group = [mk("add", [0, 1, 2]), mk("add", [3, 4, 5]), mk("sub", [6, 7, 8]), mk("add", [9, 10, 11]), mk("sub", [12, 13, 14]),
                         mk("set", [15, -3]), mk("add", [15, 0, 1])]
                group_fl = fl
                flush_group()
            except KeyError:
                pass
        cov = {
            "states": r.distinct, "transitions": r.generated,
            "traces_validated_against_impl": evals, "evaluations": evals, "distinct_nontrivial": len(nontriv),
            "rule": "vector = (flavour, class, operand valuation), field-wise domains incl. negative integers, entries, slices; each printed by the real printer and parsed by the real parser with a long-lived and a fresh flavour object; groups of 16 as whole subroutines through text->binary->text",
            "samples": [vecs[0], vecs[len(vecs) // 2], vecs[-1]],
            "real_text_equals_canonical_text": same_text, "printed_again_after_in_place_rewrite": mutated, "parsed_right_after_a_rejected_text": after_rejected,
            "tlc_action_coverage": r.coverage, "exhaustive": False, "checker_cmd": r.cmd,
        }
        return V.finish("model_checking", cov, ASSUME)
    finally:
        shutil.rmtree(tmp, ignore_errors=True)
