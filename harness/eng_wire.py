"""C01 / C02: binary codec.  TLC (WireMC) enumerates vectors and streams and
states the bytes the published format demands; the rig replays them on the
real encoder/decoder (spec -> code).  Random real subroutines are encoded and
decoded by the real code and TLC (WireTrace) decides whether what the code did
is what the specification allows (code -> spec)."""
from __future__ import annotations

import contextlib
import json
import os
import random
import shutil
from typing import Any, Dict, List

from . import common as C
from . import isa

from netqasm.lang.parsing.binary import Deserializer, deserialize
from netqasm.lang.subroutine import Subroutine

ASSUME = [
    "published instruction table = the table pinned in spec/Isa.tla at the base commit (no opcode list exists in the repository's documentation)",
    "TLC 1.8 / CommunityModules Json are trusted; operand values cross the TLC boundary as JSON numbers within -2^31..2^31-1",
    "field-wise vectors: one operand ranges over its whole domain while the others hold pairwise distinct base values",
]


def _real_bytes(instr, app=0, ver=(0, 0)) -> bytes:
    return bytes(Subroutine(instructions=[instr], app_id=app, netqasm_version=ver))


def _mk_flavours(order):
    return {fl: isa.FLAVOURS[fl]() for fl in order}


def pinned_mnemonics() -> Dict[str, set]:
    """mnemonics of the pinned table of spec/Isa.tla per flavour (the specification can only encode those)"""
    import re
    src = open(C.SPEC / "Isa.tla").read()
    def names(block):
        m = re.search(block + r" == <<(.*?)>>", src, re.S)
        return set(re.findall(r'E\("(\w+)"', m.group(1))) if m else set()
    core = names("CoreTable")
    return {"vanilla": core | names("VanillaTable"), "nv": core | names("NVTable"), "reids": core | names("ReidsTable")}


def gen_random_subs(rng: random.Random, n: int, table) -> List[Dict[str, Any]]:
    """Random real subroutines built from the extracted table, encoded and
    decoded by the real code; records for WireTrace."""
    rows = []
    doms = {
        "reg": lambda: rng.randrange(64),
        "imm": lambda: rng.randrange(256),
        "int": lambda: rng.choice([rng.randrange(-2**31, 2**31), rng.randrange(-300, 300), 2**31 - 1, -2**31]),
    }
    shapes = json.loads(os.environ["_VERIF_SHAPES"])
    # flavour objects created once, in a fixed order, and kept alive: a decoder
    # must not depend on which other flavours exist in the process
    keep = _mk_flavours(["vanilla", "nv", "reids"])
    pinned = pinned_mnemonics()
    for i in range(n):
        fl = rng.choice(["vanilla", "nv", "reids"])
        T = table[fl]
        cl = isa.classes(fl)
        # instruction classes added after the pinned table have no specified encoding: they are judged by the
        # uniqueness check of the extracted table only
        known = [k for k in range(len(T)) if T[k]["mn"] in pinned[fl]]
        ln = rng.choice([0, 1, 2, 3, 5, 8, 13, 21, 40])
        instrs, real = [], []
        for _ in range(ln):
            k = rng.choice(known)
            if fl == "vanilla" and T[k]["mn"] in ("meas_basis",):
                # decided by the exhaustive vectors; keep random streams on classes
                # whose opcode is unique so that one known clash does not mask others
                k = 3
            ops = [doms[kd]() for kd in shapes[T[k]["shape"]]]
            instrs.append({"mn": T[k]["mn"], "ops": ops})
            real.append(isa.build(cl[k], T[k]["shape"], ops))
        app = rng.choice([0, 1, 255, 256, 32767, 32768, 65535, rng.randrange(65536)])
        ver = (rng.randrange(256), rng.randrange(256))
        row = {"id": i + 1, "fl": fl, "ver": list(ver), "app": app, "instrs": instrs}
        try:
            # every fifth subroutine is encoded and decoded with the package's logger at DEBUG
            with (C.package_debug_logging() if i % 5 == 4 else contextlib.nullcontext()):
                b = bytes(Subroutine(instructions=real, app_id=app, netqasm_version=ver))
                row["bytes"] = list(b)
                flav = keep[fl] if i % 2 == 0 else isa.FLAVOURS[fl]()
                d = deserialize(b, flavour=flav)
            row["dec"] = {"ver": [int(x) for x in d.netqasm_version], "app": d.app_id if isinstance(d.app_id, int) else -1,      # (-1: no app id came back)
                          "instrs": [dict(zip(("mn", "ops"), isa.flatten(x))) for x in d.instructions]}
            row["err"] = ""
        except Exception as ex:  # noqa
            row.setdefault("bytes", [])
            row["dec"] = {"ver": [0, 0], "app": 0, "instrs": []}
            row["err"] = f"{type(ex).__name__}: {ex}"[:200]
        rows.append(row)
    return rows


def run(prop: str, tier: str) -> int:
    V = C.Verdicts(prop, tier)
    tmp = C.tmpdir()
    try:
        table = isa.extract_table()
        tpath, vpath, spath = f"{tmp}/table.json", f"{tmp}/vecs.ndjson", f"{tmp}/streams.ndjson"
        json.dump(table, open(tpath, "w"))
        r = C.run_tlc("WireMC", env={"VERIF_TABLE": tpath, "VERIF_OUT": vpath, "VERIF_OUT2": spath,
                                     "VERIF_MODE": tier}, coverage=True, workers=1)
        if r.violated:
            raise C.MachineryError(f"format invariants of the specification itself failed: {r.violated}\n{r.out[-2000:]}")
        if min(r.coverage.get(a, 0) for a in ("Encode", "Decode", "Mutate")) == 0:
            raise C.MachineryError(f"vacuous TLC run: an action was never taken {r.coverage}")
        vecs, streams = C.read_ndjson(vpath), C.read_ndjson(spath)
        states, trans = r.distinct, r.generated

        # --- verdicts from TLC: table level + spec-level round trip ---------
        for v in r.verdicts:
            if v[0] != prop:
                continue
            if v[1] == "table":
                V.add("published-entry-missing-or-changed", {"fl": v[2], "mn": v[3], "op": v[4], "shape": v[5]},
                      f"published entry {v[3]} (opcode {v[4]}, shape {v[5]}) is not in the working tree's {v[2]} table")
            elif v[1] in ("opcode-clash", "mnemonic-clash"):
                V.add(v[1], {"fl": v[2], "key": v[3], "a": v[4], "b": v[5]},
                      f"{v[2]}: {v[1]} on {v[3]} between {v[4]} and {v[5]}")
            elif v[1] == "spec-roundtrip":
                V.add("decodes-as-other-instruction", {"fl": v[2], "mn": v[3], "as": v[5]},
                      f"{v[2]}: encoded {v[3]} decodes as {v[5]} through the flavour's id map (vector {v[4]})")

        # --- spec -> code: replay every vector on the real codec ------------
        clss = {fl: isa.classes(fl) for fl in isa.FLAVOURS}
        keep = _mk_flavours(["vanilla", "nv", "reids"])
        nontrivial = set()
        replayed = 0
        prev_obj, prev_key, mutated, prev_sub = None, None, 0, None
        failed_vecs = set()      # vectors whose single decode is already wrong (reported there; not used in histories)
        for v in vecs:
            fl, n, ops = v["fl"], v["n"] - 1, v["ops"]
            cls = clss[fl][n]
            shape = table[fl][n]["shape"]
            want = bytes(v["bytes"])
            try:
                if prev_key == (fl, n) and prev_obj is not None and v["id"] % 2 == 0:
                    # Mutate action: the object that was just encoded is modified in place
                    # (as the transpilers do) and the SAME subroutine object is encoded again
                    instr = isa.mutate(prev_obj, shape, ops)
                    mutated += 1
                    got = bytes(prev_sub)[4:]
                else:
                    instr = isa.build(cls, shape, ops)
                    prev_sub = Subroutine(instructions=[instr], app_id=0, netqasm_version=(0, 0))
                    got = bytes(prev_sub)[4:]
                prev_obj, prev_key = instr, (fl, n)
            except Exception as ex:
                prev_obj = None
                V.add("encoder-raises-in-range", {"fl": fl, "mn": v["mn"]}, f"{type(ex).__name__}: {ex} on ops {ops}", v)
                continue
            replayed += 1
            if ops:
                nontrivial.add((fl, v["mn"], tuple(ops)))
            if prop == "C02":
                if got != want:
                    pos = next((i for i in range(min(len(got), len(want))) if got[i] != want[i]), min(len(got), len(want)))
                    V.add("bytes-differ-from-format",
                          {"fl": fl, "mn": v["mn"], "byte": pos, "len": len(got)},
                          f"ops {ops}: real {got.hex()} spec {want.hex()}", v)
                continue
            # C01: decode with a long-lived flavour object and with a fresh one
            for flav, tag in ((keep[fl], "kept"), (isa.FLAVOURS[fl](), "fresh")):
                failed_vecs.add(v["id"])          # (removed again below if this decode is right)
                try:
                    d = Deserializer(flav).deserialize_command(got)
                    mn, dops = isa.flatten(d)
                except Exception as ex:
                    V.add("decoder-raises", {"fl": fl, "mn": v["mn"]}, f"{type(ex).__name__}: {ex} on {got.hex()}", v)
                    break
                if mn != v["mn"] or type(d) is not cls:
                    V.add("decodes-as-other-instruction", {"fl": fl, "mn": v["mn"], "as": mn},
                          f"{fl} ({tag} flavour object): {v['mn']} {ops} -> {got.hex()} -> {mn} {dops}", v)
                    break
                if dops != ops:
                    pos = next((i for i in range(min(len(ops), len(dops))) if ops[i] != dops[i]), min(len(ops), len(dops)))
                    V.add("operand-changed", {"fl": fl, "mn": v["mn"], "operand": pos},
                          f"{v['mn']} {ops} -> {got.hex()} -> {dops}", v)
                    break
                failed_vecs.discard(v["id"])
        # streams (NV flavour): framing, app id, version
        nvcl = {c.mnemonic: c for c in clss["nv"]}
        nvshape = {e["mn"]: e["shape"] for e in table["nv"]}
        for s in streams:
            sub = s["sub"]
            try:
                real = [isa.build(nvcl[i["mn"]], nvshape[i["mn"]], i["ops"]) for i in sub["instrs"]]
                if prop == "C02" and s["id"] % 3 == 0:
                    # host-side debug markers (as a transpiler with debug=True leaves them) take no room in the format
                    from netqasm.lang.instr.base import DebugInstruction
                    real.insert(min(1, len(real)), DebugInstruction(text="marker"))
                    real.append(DebugInstruction(text="end"))
                b = bytes(Subroutine(instructions=real, app_id=sub["app"], netqasm_version=tuple(sub["ver"])))
            except Exception as ex:
                V.add("encoder-raises-in-range", {"stream": "nv"}, f"{type(ex).__name__}: {ex}", s)
                continue
            replayed += 1
            if len(sub["instrs"]) >= 2:
                nontrivial.add(("stream", json.dumps(sub, sort_keys=True)))
            if prop == "C02":
                if b != bytes(s["bytes"]):
                    w = bytes(s["bytes"])
                    pos = next((i for i in range(min(len(b), len(w))) if b[i] != w[i]), min(len(b), len(w)))
                    V.add("stream-bytes-differ", {"where": "metadata" if pos < 4 else "body", "byte": pos if pos < 4 else (pos - 4) % 7},
                          f"real {b.hex()} spec {w.hex()}", s)
                continue
            for flav in (keep["nv"], isa.FLAVOURS["nv"]()):
                try:
                    d = deserialize(b, flavour=flav)
                    got = {"ver": list(d.netqasm_version), "app": d.app_id,
                           "instrs": [dict(zip(("mn", "ops"), isa.flatten(x))) for x in d.instructions]}
                except Exception as ex:
                    V.add("decoder-raises", {"stream": "nv"}, f"{type(ex).__name__}: {ex}", s)
                    break
                if got != sub:
                    what = "version" if got["ver"] != sub["ver"] else "app_id" if got["app"] != sub["app"] else "instructions"
                    V.add("stream-roundtrip", {"field": what}, f"sent {sub} got {got}", s)
                    break

        # --- decoder histories: Decode is a function of the bytes alone ------
        # The specification's Decode action has no decoder state, so the answer to a decode may not depend
        # on what the same decoder (object, flavour object or module-level default path) decoded or rejected
        # before.  One long-lived decoder per path is fed valid subroutines (expected answer: TLC's vectors)
        # interleaved with inputs it has to reject at different positions.
        histories = 0
        if prop == "C01":
            from netqasm.lang.parsing import binary as _bin
            per_fl = {fl: [v for v in vecs if v["fl"] == fl and v["id"] not in failed_vecs] for fl in ("vanilla", "nv", "reids")}
            step = 1 if tier == "thorough" else 7
            for fl in ("vanilla", "nv", "reids"):
                vs = per_fl[fl][::step]
                if not vs:
                    continue
                other = per_fl["nv" if fl != "nv" else "vanilla"]
                own_ops = {e["op"] for e in table[fl]}
                foreign = [bytes(o["bytes"]) for o in other if o["bytes"][0] not in own_ops][:3] or [bytes([255, 0, 0, 0, 0, 0, 0])]
                subs3 = [vs[i:i + 3] for i in range(0, len(vs) - 2, 3)]
                paths = {"object": Deserializer(keep[fl]).deserialize_subroutine,
                         "module+flavour": (lambda b, _f=keep[fl]: deserialize(b, flavour=_f))}
                if fl == "vanilla":
                    paths["module-default"] = lambda b: deserialize(b)
                for pname, dec in paths.items():
                    for k, grp in enumerate(subs3):
                        hdr = bytes([0, 0, k % 200, 0])
                        good = hdr + b"".join(bytes(v["bytes"]) for v in grp)
                        want = [{"mn": v["mn"], "ops": v["ops"]} for v in grp]
                        bads = [good[:4 + 7 * (k % 3)] + foreign[k % len(foreign)] + good[4 + 7 * (k % 3 + 1):],   # rejected at command 0..2
                                good[:-(1 + k % 6)],                                                              # truncated
                                good[:4 + 7 * (k % 3)] + bytes([254, 1, 2, 3, 4, 5, 6])][k % 3: k % 3 + 1]
                        for b_in, expect in ([(good, want)] + [(x, None) for x in bads] + [(good, want)]):
                            try:
                                d = dec(b_in)
                            except Exception as ex:
                                if expect is not None:
                                    V.add("decode-depends-on-history", {"fl": fl, "path": pname, "what": "raises"},
                                          f"{pname}: valid subroutine {want} rejected after an earlier decode: {type(ex).__name__}: {ex}",
                                          {"fl": fl, "path": pname, "good": list(good), "bads": [list(x) for x in bads]})
                                    break
                                continue
                            if expect is None:
                                continue
                            got = [dict(zip(("mn", "ops"), isa.flatten(x))) for x in d.instructions]
                            if got == expect and k % 2 == 0:
                                # what a decode returns belongs to the caller: the decoded instructions are rewritten in place
                                # (as a transpiler does) before the same bytes are decoded again
                                try:
                                    for x_, v_ in zip(d.instructions, grp):
                                        sh_ = table[fl][v_["n"] - 1]["shape"]
                                        isa.mutate(x_, sh_, [((o + 1) % 16 if isinstance(o, int) and 0 <= o < 16 else o) for o in v_["ops"]])
                                except Exception:
                                    pass
                            if got != expect or d.app_id != k % 200:
                                V.add("decode-depends-on-history", {"fl": fl, "path": pname, "what": "differs"},
                                      f"{pname}: sent {want} (app {k % 200}) got {got} (app {d.app_id}) after a rejected input",
                                      {"fl": fl, "path": pname, "good": list(good), "bads": [list(x) for x in bads]})
                                break
                        histories += 1

        # --- code -> spec: random real subroutines validated by TLC ---------
        nrand = 400 if tier == "quick" else 6000
        rng = random.Random(C.seed() * 7919 + 17)
        shapes_json = {
            "NoOp": [], "Reg": ["reg"], "RegReg": ["reg", "reg"], "RegImmImm": ["reg", "imm", "imm"],
            "RegRegImmImm": ["reg", "reg", "imm", "imm"], "RegRegImm4": ["reg", "reg", "imm", "imm", "imm", "imm"],
            "RegRegReg": ["reg"] * 3, "RegRegRegReg": ["reg"] * 4, "Imm": ["int"], "ImmImm": ["imm", "imm"],
            "RegRegImm": ["reg", "reg", "int"], "RegImm": ["reg", "int"], "RegEntry": ["reg", "int", "reg"],
            "RegAddr": ["reg", "int"], "ArrayEntry": ["int", "reg"], "ArraySlice": ["int", "reg", "reg"],
            "Addr": ["int"], "Reg5": ["reg"] * 5}
        os.environ["_VERIF_SHAPES"] = json.dumps(shapes_json)
        rows = gen_random_subs(rng, nrand, table)
        rpath = f"{tmp}/rand.ndjson"
        C.write_ndjson(rpath, rows)
        r2 = C.run_tlc("WireTrace", env={"VERIF_TRACES": rpath}, coverage=True, workers=1)
        if r2.violated:
            raise C.MachineryError(f"WireTrace invariants failed: {r2.violated}\n{r2.out[-1500:]}")
        if r2.distinct < len(rows):
            raise C.MachineryError("WireTrace did not visit every recorded subroutine")
        by_id = {row["id"]: row for row in rows}
        for v in r2.verdicts:
            row = by_id[v[2]]
            if v[0] != prop:
                continue
            V.add("trace-" + v[1], {"fl": row["fl"], "what": v[1], "mn": v[3] if len(v) > 3 else ""},
                  f"recorded subroutine {v[2]}: {json.dumps(row)[:500]}", row)
        for row in rows:
            if len(row["instrs"]) >= 2:
                nontrivial.add(("rand", row["id"]))
        states += r2.distinct
        trans += r2.generated

        # --- binding self-test: a corrupted record must be rejected ---------
        bad = json.loads(json.dumps(rows[1 if len(rows[0]["bytes"]) <= 4 else 0]))
        for row in rows:
            if len(row["bytes"]) > 4 and not row["err"]:
                bad = json.loads(json.dumps(row))
                break
        bad["id"] = 1
        bad["bytes"][5] = (bad["bytes"][5] + 4) % 256
        bad["dec"]["app"] = (bad["dec"]["app"] + 1) % 65536
        bpath = f"{tmp}/bad.ndjson"
        C.write_ndjson(bpath, [bad])
        r3 = C.run_tlc("WireTrace", env={"VERIF_TRACES": bpath}, workers=1)
        kinds = {(v[0], v[1]) for v in r3.verdicts}
        if not ({("C02", "bytes"), ("C01", "decoded")} <= kinds):
            raise C.MachineryError(f"binding self-test: corrupted record accepted by WireTrace ({kinds})")

        cov = {
            "states": states, "transitions": trans,
            "traces_validated_against_impl": replayed + len(rows),
            "evaluations": replayed + len(rows),
            "distinct_nontrivial": len(nontrivial),
            "rule": "vector = (flavour, class, operand valuation) enumerated by TLC field-wise, stream = subroutine of <=3 instructions x app id x version, "
                    "random = real subroutine of <=40 instructions; non-trivial = at least one operand (vectors) or >=2 instructions (streams/random); distinct by value",
            "samples": [vecs[0], vecs[len(vecs) // 2], streams[len(streams) // 3], rows[min(3, len(rows) - 1)]],
            "mutate_then_reencode_steps": mutated, "decoder_histories": histories,
            "vectors": len(vecs), "streams": len(streams), "random_subroutines": len(rows),
            "tlc_action_coverage": {**r.coverage, **{"Trace" + k: v for k, v in r2.coverage.items()}},
            "exhaustive": False,
            "selftest": "corrupted byte and corrupted app id rejected by WireTrace",
            "checker_cmd": r.cmd,
        }
        return V.finish("model_checking", cov, ASSUME)
    finally:
        shutil.rmtree(tmp, ignore_errors=True)
