"""C12: the controller matches entanglement responses to requests under any interleaving."""
from __future__ import annotations

import os
import copy
import json
import shutil
from concurrent.futures import ProcessPoolExecutor, ThreadPoolExecutor
from typing import Any, Dict, List

from . import common as C
from . import epr_scn, rig

HANDLER_VARIANT = "no-overtake"      # which handler the specification mirrors (see spec/Epr.tla, Blocked)

ASSUME = [
    "environment: responses of one (role, remote node, purpose) arrive in generation order; across keys and roles any order; a receive-role response may precede recv_epr",
    "a keep response's physical qubit is reserved from the executor when the response is created (as SquidASM does)",
    "the system under test is the base Executor with the rig's minimal simulator binding (retry of pending responses is a schedulable action; the base class's recursive wait is overridden as every simulator does)",
    "subroutines wait for their results before ending; responses for a cleared subroutine are outside the explored scenarios",
    "scenarios: <= 3 outstanding requests of <= 3 pairs, both roles, keep and measure, same/different sockets, deferred keep responses",
]


def _explore(scn):
    paths, states, edges = rig.explore_schedules(scn)
    return scn["name"], paths, states, edges


def _mc(args):
    scn, tmp = args
    path = f"{tmp}/scn_{scn['name']}.json"
    json.dump(scn, open(path, "w"))
    r = C.run_tlc("Epr", env={"VERIF_SCN": path}, workers=2, coverage=True, check_rc=False, heap="2g")
    return scn["name"], r


def run(prop: str, tier: str) -> int:
    V = C.Verdicts(prop, tier)
    tmp = C.tmpdir()
    os.environ["VERIF_INSTRLOG_DIR"] = os.path.join(tmp, "instrlog")       # scenarios that switch the package's instruction logger on
    try:
        scns = epr_scn.scenarios(tier, HANDLER_VARIANT)
        # (1) design level: TLC explores every interleaving of every scenario; invariants + liveness
        with ThreadPoolExecutor(max_workers=8) as pool:
            mc = dict(pool.map(_mc, [(s, tmp) for s in scns]))
        states = trans = 0
        cover: Dict[str, int] = {}
        for name, r in mc.items():
            if r.rc != 0 and not r.violated:
                raise C.MachineryError(f"TLC failed on scenario {name}:\n{r.out[-1200:]}")
            states += r.distinct
            trans += r.generated
            for k, v in r.coverage.items():
                cover[k] = cover.get(k, 0) + v
            for inv in r.violated:
                V.add("model-violates-" + inv, {"scenario": name},
                      f"the specification that mirrors the handler violates {inv} in scenario {name} (TLC counterexample in the log)")
        if min(cover.get(a, 0) for a in ("Step", "Retry", "Finish")) == 0 or not any(k.startswith("Deliver") or k == "Next" for k in cover):
            raise C.MachineryError(f"vacuous: an Epr action was never taken {cover}")
        # (2) code -> spec: EVERY schedule of the real executor (stateless DFS), validated by EprTrace
        with ProcessPoolExecutor(max_workers=C.ncpu()) as pool:
            explored = list(pool.map(_explore, scns))
        total_paths = total_states = total_edges = 0
        samples = []
        nontriv = set()

        def validate(item):
            name, paths, st, ed = item
            scn = next(s for s in scns if s["name"] == name)
            sp = f"{tmp}/scn_{name}.json"
            rows = [{"id": i + 1, "events": p} for i, p in enumerate(paths)]
            tp = f"{tmp}/tr_{name}.ndjson"
            C.write_ndjson(tp, rows)
            r = C.run_tlc("EprTrace", env={"VERIF_SCN": sp, "VERIF_TRACES": tp}, workers=1, heap="2g", check_rc=False)
            return name, rows, r

        with ThreadPoolExecutor(max_workers=8) as pool:
            results = list(pool.map(validate, explored))
        for (name, paths, st, ed), (_, rows, r) in zip(explored, results):
            if r.rc != 0 and not r.verdicts:
                raise C.MachineryError(f"EprTrace failed on {name}:\n{r.out[-1500:]}")
            total_paths += len(paths)
            total_states += st
            total_edges += ed
            states += r.distinct
            trans += r.generated
            ok = {int(C.parse_tla(p)[1]) for p in r.prints if p.startswith('<<"OK"')}
            bad = {}
            for v in r.verdicts:
                bad.setdefault(v[2], v)
            if len(ok | set(bad)) != len(rows):
                raise C.MachineryError(f"EprTrace gave no verdict for some schedule of {name}")
            for i, v in sorted(bad.items()):
                ev = rows[i - 1]["events"][v[3] - 1] if 0 < v[3] <= len(rows[i - 1]["events"]) else {}
                V.add("schedule-leaves-specification" if v[4] != "invariant" else "property-violated-on-real-schedule",
                      {"scenario": name, "what": v[1], "action": ev.get("a", "")},
                      f"scenario {name}, schedule {[e['a'] + (str(e.get('s', ''))) for e in rows[i - 1]['events']]}, event {v[3]}: {v[1]}; real post-state {json.dumps(ev.get('post'))[:500]}",
                      {"scenario": name, "schedule": [[e["a"], e.get("s")] for e in rows[i - 1]["events"]]})
            for p in paths:
                if len(p) >= 4:
                    nontriv.add(name + json.dumps([[e["a"], e.get("s")] for e in p]))
            if paths:
                samples.append({"scenario": name, "schedule": [[e["a"], e.get("s")] for e in max(paths, key=len)]})
        # binding self-test: drop one event / corrupt one queue field of an accepted schedule
        name, paths, _, _ = max(explored, key=lambda x: max(len(p) for p in x[1]))
        p0 = copy.deepcopy(max(paths, key=len))
        bad1 = copy.deepcopy(p0); del bad1[1]
        bad2 = copy.deepcopy(p0)
        for e in bad2:
            if e["post"]["pending"]:
                e["post"]["pending"] = []
                break
        else:
            bad2[-1]["post"]["used"] = [7]
        tp = f"{tmp}/self.ndjson"
        C.write_ndjson(tp, [{"id": 1, "events": bad1}, {"id": 2, "events": bad2}])
        r = C.run_tlc("EprTrace", env={"VERIF_SCN": f"{tmp}/scn_{name}.json", "VERIF_TRACES": tp}, workers=1, check_rc=False)
        if {v[2] for v in r.verdicts} != {1, 2}:
            raise C.MachineryError(f"binding self-test: corrupted schedules accepted {r.verdicts}")
        cov = {
            "states": states, "transitions": trans,
            "traces_validated_against_impl": total_paths, "evaluations": total_paths, "distinct_nontrivial": len(nontriv),
            "rule": "trace = one complete schedule (instruction steps, response deliveries, retries) forced on the real Executor for one scenario, found by exhaustive stateless DFS over all schedules pruned by projected state; non-trivial = >= 4 actions; distinct by (scenario, schedule)",
            "samples": samples[:4],
            "scenarios": [s["name"] for s in scns], "handler_variant": HANDLER_VARIANT,
            "real_states_reached": total_states, "real_transitions_taken": total_edges,
            "tlc_action_coverage": cover, "liveness_checked": ["Terminates", "Drained"],
            "selftest": "dropped event and corrupted pending list both rejected by EprTrace",
            "exhaustive": True, "checker_cmd": next(iter(mc.values())).cmd,
        }
        return V.finish("model_checking", cov, ASSUME)
    finally:
        shutil.rmtree(tmp, ignore_errors=True)
