"""C03: assembling text or IR preserves program meaning (artefact validation:
the real assembler's output is run by TLC against the source semantics)."""
from __future__ import annotations

import copy
import itertools
import json
import random
import shutil
from typing import Any, Dict, List, Optional, Tuple

from . import common as C
from . import isa
from .eng_machine import kinds as mkinds

from netqasm.lang.ir import BranchLabel, GenericInstr, ICmd, ProtoSubroutine
from netqasm.lang.operand import Address, ArrayEntry, ArraySlice, Label
from netqasm.lang.parsing.text import assemble_subroutine, parse_text_protosubroutine, parse_text_subroutine

ASSUME = [
    "source semantics: a label is the index of the next command; a literal in a register position is a register nobody can name (ghost registers in spec/AsmRefine.tla)",
    "precondition (not a finding): the program leaves at least as many R registers unnamed as the largest number of literals in one command",
    "every register the source names starts with a value in {0,1,2} (all 3^r valuations for r<=4 named registers, 6 patterns otherwise); unnamed registers start undefined",
    "only the vanilla flavour's classical, array and allocation instructions (the property's scope)",
]

# operand helpers for source programs
def Rg(code): return {"k": "reg", "v": code}
def Li(v): return {"k": "lit", "v": v}
def Lb(n): return {"k": "lab", "v": n}
def Cmd(mn, *ops): return {"t": "cmd", "mn": mn, "ops": list(ops)}
def Lab(n): return {"t": "label", "n": n}

SHAPE = {e["mn"]: e["shape"] for e in isa.extract_table()["vanilla"]}
KINDS = {"Reg": ["reg"], "RegReg": ["reg", "reg"], "RegRegReg": ["reg"] * 3, "RegRegRegReg": ["reg"] * 4, "Imm": ["int"],
         "RegRegImm": ["reg", "reg", "int"], "RegImm": ["reg", "int"], "RegEntry": ["reg", "int", "reg"],
         "RegAddr": ["reg", "int"], "ArrayEntry": ["int", "reg"], "ArraySlice": ["int", "reg", "reg"], "Addr": ["int"]}
GROUPS = {"Reg": ["reg"], "RegReg": ["reg", "reg"], "RegRegReg": ["reg"] * 3, "RegRegRegReg": ["reg"] * 4, "Imm": ["num"],
          "RegRegImm": ["reg", "reg", "num"], "RegImm": ["reg", "num"], "RegEntry": ["reg", "entry"],
          "RegAddr": ["reg", "addr"], "ArrayEntry": ["entry"], "ArraySlice": ["slice"], "Addr": ["addr"]}


def regname(code):
    return "RCQM"[code // 16] + str(code % 16)


LABEL_STYLES = ["L{n}", "R{n}_LOOP", "M{n}_IS_ONE", "Q{n}x", "C{n}_", "EXIT{n}", "Q", "M_{n}"]


def lname(n, style=0):
    """label names; styles > 0 begin like a register name without being one"""
    t = LABEL_STYLES[style % len(LABEL_STYLES)]
    return t.format(n=n) if "{n}" in t else t + "_" * n


def to_proto(src, macros=None, incremental=False, shared=None) -> ProtoSubroutine:
    cmds = []
    pool = shared        # a dict: commands with equal operands are given the SAME Python list (also across calls)
    for it in src:
        if it["t"] == "label":
            cmds.append(BranchLabel(f"L{it['n']}"))
            continue
        ops, flat = [], list(it["ops"])
        def val(o):
            if o["k"] == "reg":
                return isa.reg(o["v"])
            if o["k"] == "lab":
                return Label(f"L{o['v']}")
            return o["v"]
        for g in GROUPS[SHAPE[it["mn"]]]:
            if g in ("reg", "num"):
                ops.append(val(flat.pop(0)))
            elif g == "addr":
                ops.append(Address(flat.pop(0)["v"]))
            elif g == "entry":
                a, i = flat.pop(0), flat.pop(0)
                ops.append(ArrayEntry(Address(a["v"]), val(i)))
            elif g == "slice":
                a, s, e = flat.pop(0), flat.pop(0), flat.pop(0)
                ops.append(ArraySlice(Address(a["v"]), val(s), val(e)))
        if pool is not None and not any(isinstance(o, (ArrayEntry, ArraySlice)) for o in ops):
            ops = pool.setdefault(SHAPE[it["mn"]] + json.dumps(it["ops"], sort_keys=True), ops)      # (same operand kinds, same values)
        cmds.append(ICmd(instruction=GenericInstr[it["mn"].upper()], operands=ops))
    if incremental and len(cmds) >= 2:
        # the IR is built in steps: the object exists first, commands are added to its list afterwards (front and back)
        cut = len(cmds) // 2
        proto = ProtoSubroutine(commands=cmds[cut:cut + 1], app_id=0, netqasm_version=(0, 0))
        proto.commands.extend(cmds[cut + 1:])
        for c_ in reversed(cmds[:cut]):
            proto.commands.insert(0, c_)
        return proto
    return ProtoSubroutine(commands=cmds, app_id=0, netqasm_version=(0, 0))


def to_text(src, macros: Dict[str, str], bracket_array: bool, lstyle: int = 0, bracket_args: bool = False, pair_macro: bool = False, zero_pad: bool = False) -> str:
    """Render as NetQASM text.  `macros` maps a rendered token (e.g. 'R0' or '7')
    to a macro key; such tokens are written as $key."""
    lines = ["# NETQASM 0.0", "# APPID 0"]
    for tok, key in macros.items():
        lines.append(f"# DEFINE {key} {tok}")
    def tk(o):
        t = regname(o["v"]) if o["k"] == "reg" else lname(o["v"], lstyle) if o["k"] == "lab" else str(o["v"])
        if zero_pad and o["k"] == "lit" and isinstance(o["v"], int) and o["v"] >= 0:
            t = f"{o['v']:03d}"            # column-aligned sources: decimal constants written with leading zeros
        return f"${macros[t]}" if t in macros else t
    for it in src:
        if it["t"] == "label":
            lines.append(f"{lname(it['n'], lstyle)}:")
            continue
        flat = list(it["ops"])
        words = []
        for g in GROUPS[SHAPE[it["mn"]]]:
            if g in ("reg", "num"):
                words.append(tk(flat.pop(0)))
            elif g == "addr":
                words.append("@" + str(flat.pop(0)["v"]))
            elif g == "entry":
                a, i = flat.pop(0), flat.pop(0)
                words.append(f"@{a['v']}[{tk(i)}]")
            elif g == "slice":
                a, s, e = flat.pop(0), flat.pop(0), flat.pop(0)
                words.append(f"@{a['v']}[{tk(s)}:{tk(e)}]")
        lead = 0
        while bracket_args and lead < min(2, len(it["ops"]) - 1) and it["ops"][lead]["k"] == "lit" and GROUPS[SHAPE[it["mn"]]][lead] in ("reg", "num"):
            lead += 1
        two_regs = len(words) >= 2 and all(o["k"] == "reg" for o in it["ops"][:2]) and all(g_ in ("reg", "num") for g_ in list(GROUPS[SHAPE[it["mn"]]][:2]))
        if pair_macro and two_regs:
            # a macro whose value is two words (written between braces)
            key = f"pair{len([x for x in lines if x.startswith('# DEFINE pair')])}"
            lines.insert(2, f"# DEFINE {key} {{{words[0]} {words[1]}}}")
            lines.append(it["mn"] + " $" + key + (" " + " ".join(words[2:]) if len(words) > 2 else ""))
        elif lead:
            # the leading constants between argument brackets (any sign; a blank after the delimiter on every other line)
            sep = ", " if len(lines) % 2 else ","
            lines.append(f"{it['mn']}({sep.join(words[:lead])}) " + " ".join(words[lead:]))
        elif bracket_array and it["mn"] == "array" and it["ops"][0]["k"] == "lit":
            lines.append(f"array({it['ops'][0]['v']}) {words[1]}  // bracketed argument")
        else:
            lines.append(it["mn"] + " " + " ".join(words) + ("  // c" if len(lines) % 3 == 0 else ""))
    return "\n".join(lines) + "\n"


def named_regs(src) -> List[int]:
    return sorted({o["v"] for it in src if it["t"] == "cmd" for o in it["ops"] if o["k"] == "reg"})


def gen_source(rng: random.Random, nitems: int, pool: List[int], pressure: List[int]) -> List[Dict[str, Any]]:
    nlab = rng.choice([0, 1, 1, 2, 3])
    labels = list(range(1, nlab + 1))
    def rv():
        return Rg(rng.choice(pool)) if rng.random() < 0.6 else Li(rng.choice([0, 1, 2, -1, 3]))
    def rr():
        return Rg(rng.choice(pool))
    def tgt():
        return Lb(rng.choice(labels)) if labels else Li(rng.randrange(0, 3))
    items = []
    for _ in range(nitems):
        p = rng.random()
        if p < 0.14:
            items.append(Cmd("set", rr(), Li(rng.choice([0, 1, 2, -1, 5]))))
        elif p < 0.28:
            items.append(Cmd(rng.choice(["add", "sub"]), rr(), rv(), rv()))
        elif p < 0.34:
            items.append(Cmd(rng.choice(["addm", "subm"]), rr(), rv(), rv(), rng.choice([Li(2), Li(3), rr()])))
        elif p < 0.46:
            items.append(Cmd("store", rv(), Li(rng.choice([0, 1])), rv()))
        elif p < 0.54:
            items.append(Cmd("load", rr(), Li(rng.choice([0, 1])), rv()))
        elif p < 0.58:
            items.append(Cmd("undef", Li(rng.choice([0, 1])), rv()))
        elif p < 0.66:
            items.append(Cmd("array", rng.choice([Li(2), Li(3), rr()]), Li(rng.choice([0, 1]))))
        elif p < 0.70:
            items.append(Cmd("lea", rr(), Li(rng.choice([0, 1]))))
        elif p < 0.86 and labels:
            q = rng.random()
            if q < 0.25:
                items.append(Cmd("jmp", tgt()))
            elif q < 0.5:
                items.append(Cmd(rng.choice(["bez", "bnz"]), rv(), tgt()))
            else:
                items.append(Cmd(rng.choice(["beq", "bne", "blt", "bge"]), rv(), rv(), tgt()))
        elif p < 0.90:
            items.append(Cmd(rng.choice(["ret_reg"]), rr()))
        elif p < 0.92:
            items.append(Cmd("ret_arr", Li(rng.choice([0, 1]))))
        elif p < 0.96:
            items.append(Cmd(rng.choice(["qalloc", "qfree"]), rng.choice([Li(0), Li(1), Rg(32)])))
        else:
            items.append(Cmd("wait_all", Li(0), rv(), rv()))
    # labels anywhere: consecutive, at the very end, before the first command
    for l in labels:
        items.insert(rng.choice([rng.randrange(0, len(items) + 1), len(items), len(items)]), Lab(l))
    # register pressure: name extra registers so that scratch selection has little room
    for r in pressure:
        items.insert(0, Cmd("set", Rg(r), Li(1)))
    return items


def max_lits(src) -> int:
    m = 0
    for it in src:
        if it["t"] == "cmd":
            ks = KINDS[SHAPE[it["mn"]]]
            m = max(m, sum(1 for k, o in zip(ks, it["ops"]) if k == "reg" and o["k"] == "lit"))
    return m


def directed() -> List[Tuple[str, List[Dict[str, Any]]]]:
    """Hand-picked shapes named in the property text."""
    R0, R1, R2 = 0, 1, 2
    D = []
    D.append(("beq-two-literals", [Lab(1), Cmd("add", Rg(R0), Rg(R0), Li(1)), Cmd("beq", Li(0), Li(0), Lb(2)), Cmd("set", Rg(R1), Li(2)), Lab(2)]))
    D.append(("consecutive-labels", [Cmd("set", Rg(R0), Li(0)), Lab(1), Lab(2), Cmd("add", Rg(R0), Rg(R0), Li(1)), Cmd("blt", Rg(R0), Li(2), Lb(1)), Cmd("jmp", Lb(3)), Cmd("set", Rg(R0), Li(5)), Lab(3)]))
    D.append(("label-at-end", [Cmd("bez", Rg(R0), Lb(1)), Cmd("set", Rg(R1), Li(2)), Lab(1)]))
    D.append(("literal-index", [Cmd("array", Li(3), Li(0)), Cmd("store", Li(7), Li(0), Li(2)), Cmd("load", Rg(R1), Li(0), Li(2))]))
    D.append(("slice-literals", [Cmd("array", Li(2), Li(0)), Cmd("store", Rg(R0), Li(0), Li(0)), Cmd("store", Rg(R0), Li(0), Li(1)), Cmd("wait_all", Li(0), Li(0), Li(2))]))
    D.append(("index-register-only-in-entry", [Cmd("array", Li(3), Li(0)), Cmd("store", Li(7), Li(0), Rg(R0)), Cmd("load", Rg(R1), Li(0), Rg(R0))]))
    D.append(("backward-loop", [Cmd("set", Rg(R2), Li(0)), Lab(1), Cmd("beq", Rg(R2), Li(2), Lb(2)), Cmd("add", Rg(R2), Rg(R2), Li(1)), Cmd("jmp", Lb(1)), Lab(2)]))
    D.append(("qalloc-literal", [Cmd("qalloc", Li(0)), Cmd("qalloc", Li(1)), Cmd("qfree", Li(0))]))
    # constants the program itself keeps in the C bank, next to equal literals: before the set, and on a path that skips it
    C1, C10 = 16 + 1, 16 + 10
    D.append(("literal-before-the-constant-register-is-set", [Cmd("add", Rg(R0), Rg(R0), Li(3)), Cmd("set", Rg(C10), Li(3)), Cmd("add", Rg(R0), Rg(R0), Rg(C10)), Cmd("ret_reg", Rg(R0))]))
    D.append(("literal-on-a-path-that-skips-the-constant-register", [Cmd("bez", Rg(R0), Lb(1)), Cmd("set", Rg(C1), Li(2)), Lab(1), Cmd("add", Rg(R1), Rg(R1), Li(2)), Cmd("array", Li(3), Li(0)), Cmd("store", Rg(R1), Li(0), Li(2)), Cmd("ret_reg", Rg(R1))]))
    D.append(("three-literals", [Cmd("addm", Rg(R0), Li(5), Li(4), Li(3))]))
    return D


def assemble_all(src, rng, mode) -> List[Tuple[str, Any, str]]:
    """Returns [(path, target instruction list or None, error)] for the IR path and the text paths."""
    out = []
    proto = None
    try:
        proto = to_proto(src)
        sub = assemble_subroutine(proto)
        out.append(("ir", [dict(zip(("mn", "ops"), isa.flatten(i))) for i in sub.instructions], ""))
    except Exception as ex:
        out.append(("ir", None, f"{type(ex).__name__}: {ex}"[:160]))
    if out[-1][1] is not None:
        # the same IR object assembled a second time (once per flavour is the documented use): the second
        # subroutine has to behave like the source just as the first
        try:
            sub = assemble_subroutine(proto)
            out.append(("ir-again", [dict(zip(("mn", "ops"), isa.flatten(i))) for i in sub.instructions], ""))
        except Exception as ex:
            out.append(("ir-again", None, f"{type(ex).__name__}: {ex}"[:160]))
    try:
        sub = assemble_subroutine(to_proto(src, incremental=True))
        out.append(("ir-built-in-steps", [dict(zip(("mn", "ops"), isa.flatten(i))) for i in sub.instructions], ""))
    except Exception as ex:
        out.append(("ir-built-in-steps", None, f"{type(ex).__name__}: {ex}"[:160]))
    try:
        # two commands written from one operand list (and the same program assembled from those lists a second time)
        pool_: Dict[str, list] = {}
        assemble_subroutine(to_proto(src, shared=pool_))
        sub = assemble_subroutine(to_proto(src, shared=pool_))
        out.append(("ir-shared-operand-lists", [dict(zip(("mn", "ops"), isa.flatten(i))) for i in sub.instructions], ""))
    except Exception as ex:
        out.append(("ir-shared-operand-lists", None, f"{type(ex).__name__}: {ex}"[:160]))
    if any(it["t"] == "label" for it in src):
        ls = 1 + rng.randrange(len(LABEL_STYLES) - 1)
        try:
            sub = parse_text_subroutine(to_text(src, {}, False, lstyle=ls))
            out.append(("text-register-like-labels", [dict(zip(("mn", "ops"), isa.flatten(i))) for i in sub.instructions], ""))
        except Exception as ex:
            out.append(("text-register-like-labels", None, f"{type(ex).__name__}: {ex}"[:160]))
    try:
        # the IR object is created empty (no command list given) and filled afterwards, as a program that builds IR does
        p0 = to_proto(src)
        proto2 = ProtoSubroutine(app_id=0, netqasm_version=(0, 0))
        proto2.commands.extend(p0.commands[: len(p0.commands) // 2])
        proto2.commands += p0.commands[len(p0.commands) // 2:]
        sub = assemble_subroutine(proto2)
        out.append(("ir-created-empty-then-filled", [dict(zip(("mn", "ops"), isa.flatten(i))) for i in sub.instructions], ""))
    except Exception as ex:
        out.append(("ir-created-empty-then-filled", None, f"{type(ex).__name__}: {ex}"[:160]))
    for path_, kw_ in (("text-bracket-args", dict(bracket_args=True)), ("text-two-word-macro", dict(pair_macro=True)), ("text-zero-padded-constants", dict(zero_pad=True))):
        try:
            sub = parse_text_subroutine(to_text(src, {}, False, **kw_))
            out.append((path_, [dict(zip(("mn", "ops"), isa.flatten(i))) for i in sub.instructions], ""))
        except Exception as ex:
            out.append((path_, None, f"{type(ex).__name__}: {ex}"[:160]))
    toks = sorted({regname(o["v"]) for it in src if it["t"] == "cmd" for o in it["ops"] if o["k"] == "reg"})
    variants = [("text", {}, False)]
    if toks:
        keys = ["q", "idx", "i", "m", "ms", "val"]        # includes keys that are prefixes of one another
        rng.shuffle(keys)
        macros = {t: k for t, k in zip(toks[:3], keys)}
        variants.append(("text+macros", macros, True))
    for path, macros, br in variants:
        try:
            sub = parse_text_subroutine(to_text(src, macros, br))
            out.append((path, [dict(zip(("mn", "ops"), isa.flatten(i))) for i in sub.instructions], ""))
            if path == "text":
                pp = parse_text_protosubroutine(to_text(src, macros, br))
                assemble_subroutine(pp)
                sub = assemble_subroutine(pp)
                out.append(("text-again", [dict(zip(("mn", "ops"), isa.flatten(i))) for i in sub.instructions], ""))
        except Exception as ex:
            out.append((path, None, f"{type(ex).__name__}: {ex}"[:160]))
    return out


def build_rows(tier: str):
    rng = random.Random(C.seed() * 613 + 11)
    rows, meta = [], {}
    nid = itertools.count(1)
    sources = [(name, s) for name, s in directed()]
    n_rand = 2500 if tier == "thorough" else 450
    pool_small = [0, 1, 2, 3, 15]
    for k in range(n_rand):
        pressure = []
        pool = pool_small
        if k % 5 == 1:
            pool = [0, 1, 16 + 1, 16 + 10, 16 + 15, 48 + 2]            # registers of the other banks (constants in C, outcomes in M) next to R
        if k % 7 == 3:
            pressure = list(range(4, rng.choice([13, 14, 15])))     # 13..15 R registers named
        n = rng.choice([2, 3, 4, 5, 6, 8, 10])
        sources.append((f"rand{k}", gen_source(rng, n, pool, pressure)))
    for name, src in sources:
        named = named_regs(src)
        nR = sum(1 for r in named if r < 16)
        if 16 - nR < max_lits(src):
            # precondition: assembly may legitimately refuse.  It is still attempted (result ignored), so that the
            # next program is assembled right after an assembly that failed part-way
            try:
                assemble_all(src, random.Random(0), tier)
            except Exception:
                pass
            continue
        for path, tgt, err in assemble_all(src, rng, tier):
            i = next(nid)
            rows.append({"id": i, "src": src, "tgt": tgt or [], "named": named, "err": err})
            meta[i] = (name, path)
    return rows, meta


def run(prop: str, tier: str) -> int:
    V = C.Verdicts(prop, tier)
    tmp = C.tmpdir()
    try:
        rows, meta = build_rows(tier)
        res = C.run_tlc_sharded("AsmRefine", rows, tmp, shards=C.ncpu())
        by_id = {r["id"]: r for r in rows}
        bad = {}
        for v in res.verdicts:
            bad.setdefault(v[2], v)
        for i, v in sorted(bad.items()):
            row, (name, path) = by_id[i], meta[i]
            clause = v[1]
            src_text = to_text(row["src"], {}, False)
            # witness: failing clause + the source command at which the two machines part
            cmds = [it for it in row["src"] if it["t"] == "cmd"]
            at = int(v[4]) if clause not in ("assembler-raised", "target-length") and str(v[4]).lstrip("-").isdigit() else -1
            V.add(clause, {"path": "text" if path.startswith("text+") and clause != "assembler-raised" else path,
                           "what": (row["err"].split(":")[0] if clause == "assembler-raised" else
                                    describe(row, clause))},
                  f"{name} via {path}: {clause} after block {v[3]}; source:\n{src_text}\nassembled: {[i['mn'] + ' ' + ' '.join(map(str, i['ops'])) for i in row['tgt']]} {row['err']}",
                  {"src": row["src"], "path": path})
        lost = [i for i, r_ in by_id.items() if r_["err"] and i not in bad]
        if lost:
            raise C.MachineryError(f"AsmRefine gave no verdict for {len(lost)} programs the assembler refused, e.g. {by_id[lost[0]]['err']}")
        okset = set(res.ok_ids) - set(bad)
        missing = set(by_id) - set(res.ok_ids) - set(bad)
        # cases that ended 'unspecified' on every valuation print nothing; they are simply not counted
        nontriv = {json.dumps(by_id[i]["src"], sort_keys=True) + meta[i][1] for i in okset
                   if any(it["t"] == "label" for it in by_id[i]["src"]) or max_lits(by_id[i]["src"]) > 0}
        # binding self-test: corrupt one assembled artefact (drop an instruction, retarget a branch)
        good = [by_id[i] for i in sorted(okset) if len(by_id[i]["tgt"]) >= 3 and any(t["mn"] in ("jmp", "beq", "bne", "blt", "bge", "bez", "bnz") for t in by_id[i]["tgt"])]
        if good:
            p1 = copy.deepcopy(good[0]); p1["id"] = 1; del p1["tgt"][0]
            p2 = copy.deepcopy(good[0]); p2["id"] = 2
            for t in p2["tgt"]:
                if t["mn"] in ("jmp", "beq", "bne", "blt", "bge", "bez", "bnz"):
                    t["ops"][-1] = t["ops"][-1] + 1
                    break
            r3 = C.run_tlc_sharded("AsmRefine", [p1, p2], tmp, shards=1, tag="self")
            if {v[2] for v in r3.verdicts} != {1, 2}:
                raise C.MachineryError(f"binding self-test: corrupted artefacts accepted: {r3.verdicts}")
        cov = {
            "programs": len(rows), "disagreements_checked": len(bad),
            "states": res.distinct, "transitions": res.generated,
            "evaluations": len(rows), "distinct_nontrivial": len(nontriv),
            "rule": "artefact = (source program, real assembler output) per entry path (IR, text, text with macros/bracket arguments/comments); TLC runs source semantics and assembled program in lock-step for every valuation; non-trivial = contains a label or a literal in a register position and was accepted",
            "samples": [{"src_text": to_text(rows[0]["src"], {}, False), "tgt": rows[0]["tgt"]},
                        {"src_text": to_text(rows[len(rows) // 2]["src"], {}, False), "tgt": rows[len(rows) // 2]["tgt"]}],
            "accepted": len(okset), "not_counted_unspecified_only": len(missing),
            "selftest": "dropped instruction and retargeted branch both rejected" if good else "skipped",
            "exhaustive": False, "checker_cmd": res.cmd,
        }
        return V.finish("translation_validation", cov, ASSUME)
    finally:
        shutil.rmtree(tmp, ignore_errors=True)


def describe(row, clause) -> str:
    """Coarse root-cause class of a refinement failure, for the witness."""
    src, tgt = row["src"], row["tgt"]
    named = set(row["named"])
    direct = {o["v"] for it in src if it["t"] == "cmd" for k, o in zip(KINDS[SHAPE[it["mn"]]], it["ops"])
              if o["k"] == "reg" and not (k == "reg" and False)}
    # registers that occur ONLY as entry index / slice bound
    only_idx = set()
    for it in src:
        if it["t"] != "cmd":
            continue
        g = GROUPS[SHAPE[it["mn"]]]
        flat = list(it["ops"])
        pos = 0
        for gg in g:
            w = {"entry": 2, "slice": 3}.get(gg, 1)
            part = flat[pos:pos + w]
            if gg in ("entry", "slice"):
                only_idx |= {o["v"] for o in part[1:] if o["k"] == "reg"}
            pos += w
    plain = set()
    for it in src:
        if it["t"] != "cmd":
            continue
        g = GROUPS[SHAPE[it["mn"]]]
        flat = list(it["ops"])
        pos = 0
        for gg in g:
            w = {"entry": 2, "slice": 3}.get(gg, 1)
            if gg == "reg" and flat[pos]["k"] == "reg":
                plain.add(flat[pos]["v"])
            pos += w
    hidden = only_idx - plain
    scratch_targets = {t["ops"][0] for t in tgt if t["mn"] == "set"}
    if clause == "named-register" and hidden & scratch_targets:
        return "scratch register is a register the source names only inside an array entry/slice"
    return clause
