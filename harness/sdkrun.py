"""Interpreter of abstract host programs on the REAL SDK (through rig.VConnection)
and the translation of the same program, annotated with what the SDK chose
(array addresses, virtual qubit ids), into the form Host.tla evaluates."""
from __future__ import annotations

import copy
from typing import Any, Dict, List, Optional

from . import rig

from netqasm.sdk.constraint import ValueAtMostConstraint
from netqasm.sdk.futures import Future, RegFuture
from netqasm.sdk.qubit import Qubit


def opt(v):
    return [0, 0] if v is None else ([1, v] if isinstance(v, int) and not isinstance(v, bool) else [1, repr(v)])


# the names the application gives its template operands: arbitrary identifiers, among them words the SDK
# itself uses for the labels it generates (a template is not a label)
TEMPLATE_NAMES = {"t1": "theta", "t2": "LOOP", "t3": "IF_EXIT", "t4": "LOOP_EXIT", "t5": "angle_5", "t6": "WHILE_EXIT"}


def template_name(t: str) -> str:
    return TEMPLATE_NAMES.get(t, t)


class SdkRun:
    """Executes one history (list of items) and records items (TLA form) + observations."""

    def __init__(self, meas_script: List[int], max_qubits=5, conn_kwargs=None, nv=False):
        self.conn = rig.VConnection("alice", max_qubits=max_qubits, nv=nv, **(conn_kwargs or {}))
        self.conn.ex.meas_script = list(meas_script)
        self.meas = list(meas_script)
        self.nv = nv
        self.arrays: Dict[str, Any] = {}
        self.qubits: Dict[str, Qubit] = {}
        self.regfs: Dict[str, RegFuture] = {}
        self.handle_ids: Dict[str, int] = {}
        self.futcache: Dict[str, Any] = {}       # one real Future object per (array, constant index): handles are reused across flushes
        self.addrs: List[int] = []
        self.items: List[Dict[str, Any]] = []
        self.obs: List[Dict[str, Any]] = []
        self.loopvars: List[Any] = []            # real objects for the enclosing loops' variables
        self.glog_mark = 0
        self.error: Optional[str] = None
        self.faulted = False

    # ---- helpers -----------------------------------------------------
    def hid(self, h: str) -> int:
        if h not in self.handle_ids:
            self.handle_ids[h] = len(self.handle_ids) + 1
        return self.handle_ids[h]

    def lv_as_index(self, n):
        v = self.loopvars[n - 1]
        return v            # operand.Register or RegFuture: both accepted by get_future_index

    def lv_as_value(self, n):
        v = self.loopvars[n - 1]
        return v if isinstance(v, RegFuture) else RegFuture(self.conn, v)

    def real_loc(self, loc):
        """real SDK object for a location"""
        if loc["k"] == "reg":
            return self.regfs[loc["h"]]
        arr = self.arrays[loc["a"]]
        i = loc["i"]
        if i["k"] == "c":
            key = f"{loc['a']}[{i['v']}]"
            if key not in self.futcache:
                self.futcache[key] = arr.get_future_index(i["v"])
            return self.futcache[key]
        if i["k"] == "lv":
            return arr.get_future_index(self.lv_as_index(i["n"]))
        if i["k"] == "reg":
            # indexed by a register future: ONE real entry handle per (array, register future), taken at the first use and kept,
            # also when the register future is measured into again later (it then lives in another register)
            key = f"{loc['a']}[reg:{i['h']}]"
            rf_ = self.regfs[i["h"]]
            if key not in self.futcache or self.futcache[key][0] is not rf_:
                self.futcache[key] = (rf_, arr.get_future_index(rf_))
            return self.futcache[key][1]
        if i["k"] == "fut":
            # indexed by the value of another array entry: ONE real Future object per (array, index entry), used again and again
            key = f"{loc['a']}[{i['a']}[{i['j']}]]"
            if key not in self.futcache:
                self.futcache[key] = arr.get_future_index(self.real_loc({"k": "fut", "a": i["a"], "i": {"k": "c", "v": i["j"]}}))
            return self.futcache[key]
        raise KeyError(i)

    def real_val(self, v):
        if v["k"] == "c":
            return v["v"]
        if v["k"] == "lv":
            return self.lv_as_value(v["n"])
        return self.real_loc(v)

    def tla_idx(self, i):
        if i["k"] == "reg":
            return {"k": "reg", "h": self.hid(i["h"]), "v": 0, "n": 0, "a": 0, "j": 0}
        if i["k"] == "fut":
            return {"k": "fut", "a": self.arrays[i["a"]].address, "j": i["j"], "v": 0, "n": 0, "h": 0}
        return {"k": i["k"], "v": i.get("v", 0), "n": i.get("n", 0), "h": 0, "a": 0, "j": 0}

    def tla_loc(self, loc):
        if loc["k"] == "reg":
            return {"k": "reg", "h": self.hid(loc["h"]), "a": 0, "i": {"k": "c", "v": 0, "n": 0, "h": 0}, "v": 0, "n": 0}
        if loc["k"] == "arr":
            return {"k": "arr", "a": self.arrays[loc["a"]].address, "h": 0, "i": {"k": "c", "v": 0, "n": 0, "h": 0}, "v": 0, "n": 0}
        return {"k": "fut", "a": self.arrays[loc["a"]].address, "i": self.tla_idx(loc["i"]), "h": 0, "v": 0, "n": 0}

    def tla_val(self, v):
        if v["k"] in ("c", "lv"):
            return {"k": v["k"], "v": v.get("v", 0), "n": v.get("n", 0), "h": 0, "a": 0, "i": {"k": "c", "v": 0, "n": 0, "h": 0}}
        return self.tla_loc(v)

    # ---- statements ----------------------------------------------------
    def run_body(self, body) -> List[Dict[str, Any]]:
        out = []
        for s in body:
            out += self.stmt(s)
        return out

    def new_array(self, h, length, init):
        arr = self.conn.new_array(length, init_values=init)
        self.arrays[h] = arr
        self.addrs.append(arr.address)
        return {"s": "array", "a": arr.address, "len": len(arr), "init": [opt(x) for x in (init if init is not None else [None] * length)]}

    def stmt(self, s) -> List[Dict[str, Any]]:
        k = s["s"]
        if k == "array":
            return [self.new_array(s["h"], s["len"], s.get("init"))]
        if k == "hold":
            self.regfs[s["h"]] = self.conn.builder.new_register(s["v"])
            return [{"s": "hold", "h": self.hid(s["h"]), "v": s["v"]}]
        if k == "qubit":
            q = Qubit(self.conn)
            self.qubits[s["h"]] = q
            return [{"s": "qubit", "vid": q.qubit_id}]
        if k == "gate":
            qs = [self.qubits[h] for h in s["qs"]]
            g = s["g"]
            if len(qs) == 1:
                getattr(qs[0], {"x": "X", "y": "Y", "z": "Z", "h": "H", "k": "K", "s": "S", "t": "T"}[g])()
            else:
                getattr(qs[0], g)(qs[1])
            return [{"s": "gate", "g": g, "vids": [q.qubit_id for q in qs], "imm": []}]
        if k == "rot":
            q = self.qubits[s["q"]]
            n = s["n"]
            if isinstance(n, str):          # a template operand: "t<j>"
                from netqasm.lang.operand import Template
                getattr(q, {"rot_x": "rot_X", "rot_y": "rot_Y", "rot_z": "rot_Z"}[s["g"]])(n=Template(template_name(n)), d=s["d"])
                return [{"s": "gate", "g": s["g"], "vids": [q.qubit_id], "imm": [-int(n[1:]), s["d"]]}]
            getattr(q, {"rot_x": "rot_X", "rot_y": "rot_Y", "rot_z": "rot_Z"}[s["g"]])(n=n, d=s["d"])
            return [{"s": "gate", "g": s["g"], "vids": [q.qubit_id], "imm": [s["n"], s["d"]]}]
        if k == "free":
            q = self.qubits[s["q"]]
            vid = q.qubit_id
            q.free()
            return [{"s": "free", "vid": vid}]
        if k == "meas":
            q = self.qubits[s["q"]]
            vid = q.qubit_id
            into = s["into"]
            pre = []
            if into["k"] == "new":
                fut = q.measure(inplace=s["inplace"])
                addr = fut._address
                from netqasm.sdk.futures import Array as _Array
                self.arrays[into["h"]] = _Array(self.conn, length=1, address=addr)
                self.addrs.append(addr)
                self.futcache[f"{into['h']}[0]"] = fut
                pre = [{"s": "array", "a": addr, "len": 1, "init": [[0, 0]]}]
                loc = {"k": "fut", "a": addr, "i": {"k": "c", "v": 0, "n": 0, "h": 0}, "h": 0, "v": 0, "n": 0}
            elif into["k"] == "newreg":
                rf = q.measure(inplace=s["inplace"], store_array=False)
                self.regfs[into["h"]] = rf
                loc = {"k": "reg", "h": self.hid(into["h"]), "a": 0, "i": {"k": "c", "v": 0, "n": 0, "h": 0}, "v": 0, "n": 0}
            else:
                q.measure(future=self.real_loc(into), inplace=s["inplace"])
                loc = self.tla_loc(into)
            return pre + [{"s": "meas", "vid": vid, "inplace": s["inplace"], "into": loc}]
        if k == "add":
            t = self.real_loc(s["t"])
            o = self.real_val(s["o"])
            if isinstance(o, RegFuture):
                o = o.reg            # the documented way to add a register value (operand.Register)
            if s["mod"] > 0:
                t.add(o, mod=s["mod"])
            else:
                t.add(o)
            return [{"s": "add", "t": self.tla_loc(s["t"]), "o": self.tla_val(s["o"]), "mod": s["mod"]}]
        if k == "if":
            a, b = self.real_val(s["a"]), (self.real_val(s["b"]) if s["cmp"] not in ("ez", "nz") else None)
            ta = self.tla_val(s["a"])
            tb = self.tla_val(s["b"]) if b is not None else self.tla_val({"k": "c", "v": 0})
            holder: Dict[str, Any] = {}
            if s["form"] == "ctx":
                ctx = getattr(a, "if_" + s["cmp"])(b) if b is not None else getattr(a, "if_" + s["cmp"])()
                with ctx:
                    holder["body"] = self.run_body(s["body"])
            else:
                def cb(conn):
                    holder["body"] = self.run_body(s["body"])
                if b is not None:
                    getattr(self.conn, "if_" + s["cmp"])(a, b, cb)
                else:
                    getattr(self.conn, "if_" + s["cmp"])(a, cb)
            return [{"s": "if", "cmp": s["cmp"], "a": ta, "b": tb, "body": holder["body"]}]
        if k == "loop":
            holder = {}
            if s["form"] == "ctx":
                with self.conn.loop(s["stop"], start=s["start"], step=s["step"]) as reg:
                    self.loopvars.append(reg)
                    try:
                        holder["body"] = self.run_body(s["body"])
                    finally:
                        self.loopvars.pop()
            else:
                def lb(conn, idx):
                    self.loopvars.append(idx)
                    try:
                        holder["body"] = self.run_body(s["body"])
                    finally:
                        self.loopvars.pop()
                if s.get("reg"):
                    # the application names the counter register itself (documented parameter of loop_body)
                    self.conn.loop_body(lb, stop=s["stop"], start=s["start"], step=s["step"], loop_register=s["reg"])
                else:
                    self.conn.loop_body(lb, stop=s["stop"], start=s["start"], step=s["step"])
            return [{"s": "loop", "start": s["start"], "stop": s["stop"], "step": s["step"], "body": holder["body"]}]
        if k == "foreach":
            arr = self.arrays[s["a"]]
            if s.get("reuse"):
                # the application keeps the context object and enters it again later
                if not hasattr(self, "_kept_ctx"):
                    self._kept_ctx = {}
                kk = (s["a"], s["enum"])
                if kk not in self._kept_ctx:
                    self._kept_ctx[kk] = arr.enumerate() if s["enum"] else arr.foreach()
                ctx = self._kept_ctx[kk]
            else:
                ctx = arr.enumerate() if s["enum"] else arr.foreach()
            with ctx as got:
                reg = got[0] if s["enum"] else got._index
                self.loopvars.append(reg)
                try:
                    body = self.run_body(s["body"])
                finally:
                    self.loopvars.pop()
            return [{"s": "foreach", "a": arr.address, "len": len(arr), "body": body}]
        if k == "until":
            holder = {"cleanup": []}
            with self.conn.loop_until(s["max"]) as loop:
                self.loopvars.append(loop.loop_register)
                try:
                    holder["body"] = self.run_body(s["body"])
                    loop.set_exit_condition(ValueAtMostConstraint(self.real_loc(s["t"]), s["v"]))
                    tl = self.tla_loc(s["t"])
                    if s.get("cleanup"):
                        def cl(conn):
                            holder["cleanup"] = self.run_body(s["cleanup"])
                        loop.set_cleanup_code(cl)
                    lvdepth = len(self.loopvars)
                finally:
                    pass
            # cleanup code is evaluated by the builder on context exit, still inside this loop's scope
            self.loopvars.pop()
            return [{"s": "until", "max": s["max"], "body": holder["body"], "t": tl, "v": s["v"], "cleanup": holder["cleanup"]}]
        raise KeyError(k)

    # ---- top level -----------------------------------------------------
    def snapshot_flush(self, fault: bool):
        ex = self.conn.ex
        arrs = ex._app_arrays.get(self.conn.app_id)
        raw = arrs._arrays if arrs is not None else {}
        log = ex.gate_log[self.glog_mark:]
        self.glog_mark = len(ex.gate_log)
        return {"kind": "flush", "fault": fault, "arrs": [[opt(x) for x in raw.get(a, [])] for a in self.addrs],
                "glog": [[g[0], list(g[1]), list(g[2])] for g in log], "v": [], "naddrs": len(self.addrs)}

    def top(self, item):
        k = item["s"]
        if k == "flush":
            try:
                if item.get("block") is False:
                    self.conn.flush(block=False)         # the documented non-blocking form (the rig executes it at once)
                else:
                    self.conn.flush()
                self.obs.append(self.snapshot_flush(False))
            except (rig.ControllerFault, rig.ScriptExhausted) as ex:
                self.obs.append(self.snapshot_flush(True))
                self.obs[-1]["exc"] = str(ex)[:200]
                self.faulted = True
            self.items.append({"s": "flush"})
        elif k == "compile":
            sub = self.conn.compile()
            self.compiled = getattr(self, "compiled", [])
            self.compiled.append(sub)
            self.items.append({"s": "compile"})
        elif k == "commit":
            sub = self.compiled[item["obj"] - 1]
            vals = item["vals"]
            try:
                if len(vals) >= 2:
                    # a first instantiate() that is refused (only one of the template values is known yet, and it is not
                    # the final one): refused calls leave the compiled object as it was
                    try:
                        sub.instantiate(self.conn.app_id, {template_name("t1"): (vals[0] + 3) % 8})
                    except Exception:
                        pass
                # the values are handed over in a dict the application owns and reuses: it is overwritten (with other values) right
                # after instantiate() returns, before the commit
                args_ = getattr(self, "_argdict", None)
                if args_ is None:
                    args_ = self._argdict = {}
                args_.clear()
                args_.update({template_name(f"t{j + 1}"): v for j, v in enumerate(vals)})
                sub.instantiate(self.conn.app_id, args_)
                for k_ in list(args_):
                    args_[k_] = (args_[k_] + 5) % 8
                self.conn.commit_subroutine(sub)
                self.obs.append(self.snapshot_flush(False))
            except (rig.ControllerFault, rig.ScriptExhausted) as ex:
                self.obs.append(self.snapshot_flush(True))
                self.obs[-1]["exc"] = str(ex)[:200]
                self.faulted = True
            self.items.append({"s": "commit", "obj": item["obj"], "vals": vals or [0]})
        elif k == "read":
            loc = item["loc"]
            if loc["k"] == "arr":
                arr = self.arrays[loc["a"]]
                try:
                    got = [opt(x) for x in arr[0:len(arr)]]
                except Exception as ex:
                    got = [[1, f"{type(ex).__name__}"]]
            else:
                handle = self.real_loc(loc)          # an unknown handle is an invalid history, not an observation
                try:
                    v = handle.value
                    got = opt(v)
                except Exception as ex:
                    got = [1, f"{type(ex).__name__}"]
            self.items.append({"s": "read", "loc": self.tla_loc(loc)})
            self.obs.append({"kind": "read", "v": got, "fault": False, "arrs": [], "glog": [], "naddrs": 0})
        else:
            self.items += self.stmt(item)

    def run(self, history) -> Dict[str, Any]:
        for it in history:
            if self.faulted:
                break
            try:
                self.top(it)
            except Exception as ex:       # the SDK itself raised while building
                ctx = ex.__context__ or ex.__cause__
                self.error = (f"{type(ex).__name__}: {ex}" + (f" (while handling {type(ctx).__name__}: {ctx})" if ctx is not None else ""))[:300]
                break
        # arrays of later flushes do not exist at earlier flushes: pad observations to the final address list
        for o in self.obs:
            if o["kind"] == "flush":
                o["arrs"] = o["arrs"] + [[] for _ in range(len(self.addrs or [0]) - len(o["arrs"]))]
        return {"cmpglog": not self.nv, "items": self.items, "obs": self.obs, "addrs": self.addrs or [0], "handles": sorted(self.handle_ids.values()) or [0],
                "meas": self.meas, "err": self.error or ""}


class _ArrProxy:
    """an array that the SDK created implicitly (q.measure() without a future)"""

    def __init__(self, conn, address):
        self._conn, self.address = conn, address

    def __len__(self):
        return 1

    def __getitem__(self, index):
        return self._conn.shared_memory.get_array_part(address=self.address, index=index)

    def get_future_index(self, index):
        return Future(connection=self._conn, address=self.address, index=index)
