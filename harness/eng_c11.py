"""C11: EPR requests and results cross the SDK/controller boundary intact.

code -> spec.  Requests: every create-type API is called on the real SDK with
enumerated parameter values; the subroutine runs on the real controller and
the request object the (recording) network stack receives, plus what the
real link-layer 1.0 conversion makes of it, is judged by spec/EprFields.tla.
Results: the rig's link answers with responses whose fields all carry
distinct values; every handle the application gets back is read and TLC
checks it shows the field of pair i's response that EprFields.Source names.
"""
from __future__ import annotations

import dataclasses
import itertools
import json
import random
import shutil
from concurrent.futures import ProcessPoolExecutor
from enum import Enum
from typing import Any, Dict, List

from . import common as C

ASSUME = [
    "the recording network stack answers purpose id 10 * remote node + socket id for (remote node, socket id); node ids: bob = 1, charlie = 2",
    "the link answers requests in the order they were put; responses of one request arrive in pair order",
    "field orders of LinkLayerCreate / LinkLayerOKTypeK / LinkLayerOKTypeM, the numeric codes of the request types and the rotation triples of the six named bases are pinned in spec/EprFields.tla",
    "without a time limit (max_time = 0) the time unit is not compared",
]
BASES = ["X", "Y", "Z", "MX", "MY", "MZ"]
NODE = {1: "bob", 2: "charlie"}


def PURPOSE(node, sock):
    return 10 * node + sock


def _val(x):
    if isinstance(x, Enum):
        return x.value
    if isinstance(x, bool):
        return int(x)
    if isinstance(x, float) and x == int(x):
        return int(x)
    return x


def req_cases(tier: str, rng: random.Random) -> List[Dict[str, Any]]:
    out: List[Dict[str, Any]] = []

    def add(api, tp, **kw):
        p = dict(tp=tp, number=1, time_unit=0, max_time=0, rot_local=[0, 0, 0], rot_remote=[0, 0, 0], basis_local="", basis_remote="",
                 rb_local=-1, rb_remote=-1, remote_node=1, socket=0)
        p.update(kw)
        p["purpose"] = PURPOSE(p["remote_node"], p["socket"])
        p["api"] = api
        out.append(dict(kind="req", ps=[p]))

    times = [(0, 0), (0, 7), (1, 1000), (2, 3), (1, 0), (2, 65535)]
    # keep-type
    for api in ("create_keep", "create_keep_with_info", "create_keep_post", "create_keep_seq", "create(K)", "create_context"):
        for number in (1, 2, 3):
            for tu, mt in times:
                for node, sock in ((1, 0), (2, 3)):
                    add(api, "K", number=number, time_unit=tu, max_time=mt, remote_node=node, socket=sock)
    # ... with a fidelity constraint on top (the request that reaches the stack is the same; the first attempt is accepted)
    for api in ("create_keep", "create_rsp"):
        for number in (1, 2):
            for tu, mt in times:
                for fid in (80, 50):
                    add(api, "K" if api != "create_rsp" else "R", number=number, time_unit=tu, max_time=mt, fid=fid)
    # measure directly: named bases, rotation triples, random basis sets
    for api in ("create_measure", "create(M)"):
        for bl in [""] + BASES:
            for br in [""] + BASES:
                add(api, "M", number=rng.choice([1, 2, 3]), basis_local=bl, basis_remote=br, time_unit=rng.choice([0, 1, 2]), max_time=rng.choice([0, 9]))
        for rbl in (-1, 0, 1, 2, 3):
            for rbr in (-1, 0, 1, 2, 3):
                add(api, "M", number=rng.choice([1, 2]), rb_local=rbl, rb_remote=rbr, remote_node=rng.choice([1, 2]), socket=rng.choice([0, 3]))
        for tu, mt in times:
            add(api, "M", number=2, time_unit=tu, max_time=mt, basis_local="X", basis_remote="Y")
    rots = [[0, 0, 0], [31, 31, 31], [1, 2, 3], [0, 24, 0], [16, 0, 0], [31, 0, 0], [0, 31, 0], [0, 0, 31], [5, 0, 7]]
    nrand = 40 if tier == "quick" else 3000
    rots += [[rng.randrange(32) for _ in range(3)] for _ in range(nrand)]
    for i, rl in enumerate(rots):
        rr = rots[(i * 7 + 3) % len(rots)]
        add("create_measure", "M", number=1 + i % 3, rot_local=rl, rot_remote=rr, time_unit=i % 3, max_time=(i % 4) * 11)
        add("create_rsp", "R", number=1 + i % 2, rot_local=rl)
    if tier != "quick":
        # every single-slot value 0..31 in every rotation position
        for pos in range(3):
            for v in range(32):
                r = [0, 0, 0]
                r[pos] = v
                add("create_measure", "M", rot_local=r, rot_remote=[v if j != pos else 0 for j in range(3)])
    # remote state preparation
    for api in ("create_rsp", "create(R)"):
        for bl in [""] + BASES:
            for rbl in (-1, 0, 1, 2, 3):
                add(api, "R", number=rng.choice([1, 2, 3]), basis_local=bl, rb_local=rbl, time_unit=rng.choice([0, 1, 2]), max_time=rng.choice([0, 4]))
        for tu, mt in times:
            for node, sock in ((1, 0), (2, 3)):
                add(api, "R", number=2, time_unit=tu, max_time=mt, remote_node=node, socket=sock)
    # several requests in one subroutine: the same socket id towards two nodes, different types
    singles = [c["ps"][0] for c in out]
    npairs = 60 if tier == "quick" else 2500
    for _ in range(npairs):
        a, b = dict(rng.choice(singles)), dict(rng.choice(singles))
        a["remote_node"], b["remote_node"] = 1, 2
        a["socket"] = b["socket"] = rng.choice([0, 3])
        if rng.random() < 0.3:
            b["remote_node"], b["socket"] = 1, 3 - a["socket"]
        for x in (a, b):
            x["purpose"] = PURPOSE(x["remote_node"], x["socket"])
            if x["api"] == "create_context":
                x["api"] = "create_keep"
        out.append(dict(kind="req", ps=[a, b]))
    # the same socket objects used by an earlier run of the application in another network
    for c_ in [x for x in out if len(x["ps"]) == 1][::9]:
        out.append(dict(kind="req", ps=[dict(c_["ps"][0])], earlier_run=True))
    # two requests of DIFFERENT types on the same socket whose other parameters are all equal
    def mk(api, tp, **kw):
        p = dict(tp=tp, number=1, time_unit=0, max_time=0, rot_local=[0, 0, 0], rot_remote=[0, 0, 0], basis_local="", basis_remote="",
                 rb_local=-1, rb_remote=-1, remote_node=1, socket=0)
        p.update(kw)
        p["purpose"] = PURPOSE(p["remote_node"], p["socket"])
        p["api"] = api
        return p
    typed = [("create_keep", "K"), ("create(K)", "K"), ("create_measure", "M"), ("create(M)", "M"), ("create_rsp", "R"), ("create(R)", "R")]
    for (a1, t1) in typed:
        for (a2, t2) in typed:
            if t1 == t2:
                continue
            for number, (tu, mt), bl in ((1, (0, 0), ""), (2, (1, 1000), "X"), (1, (0, 0), "X")):
                kw = dict(number=number, time_unit=tu, max_time=mt)
                pa = mk(a1, t1, **kw, **({"basis_local": bl} if t1 != "K" and bl else {}))
                pb = mk(a2, t2, **kw, **({"basis_local": bl} if t2 != "K" and bl else {}))
                out.append(dict(kind="req", ps=[pa, pb]))
    return out


def _run_req(item):
    from . import rig
    from netqasm.qlink_compat import EPRType, RandomBasis, TimeUnit, request_to_qlink_1_0
    from netqasm.sdk.build_epr import EprMeasBasis
    from netqasm.sdk.epr_socket import EPRSocket
    i, c = item
    row = dict(c, id=i, err="", nreq=0, gots=[], qlinks=[], fault="", opened=[])
    try:
        keys = []
        for p in c["ps"]:
            if (p["remote_node"], p["socket"]) not in keys:
                keys.append((p["remote_node"], p["socket"]))
        socks = {k_: EPRSocket(NODE[k_[0]], epr_socket_id=k_[1]) for k_ in keys}
        if c.get("earlier_run"):
            # the application ran before in this process, with the same socket objects, in a network where the remote
            # applications sat on other nodes
            conn0 = rig.VConnection("alice", max_qubits=8, epr_sockets=list(socks.values()), node_ids={"verif": 0, "alice": 0, "bob": 2, "charlie": 1})
            conn0.flush()
        conn = rig.VConnection("alice", max_qubits=8, epr_sockets=list(socks.values()))
        conn.stack.get_purpose_id = lambda remote_node_id, epr_socket_id: PURPOSE(remote_node_id, epr_socket_id)
        conn.ex.meas_script = [0] * 40
        conn.link = rig.AutoLink(conn.ex, conn.stack, stepwise=True)

        def post(conn_, q, pair):
            q.measure()

        for p in c["ps"]:
            api = p["api"]
            sock = socks[(p["remote_node"], p["socket"])]
            tkw = dict(time_unit=TimeUnit(p["time_unit"]), max_time=p["max_time"])
            mkw: Dict[str, Any] = {}
            if p["basis_local"]:
                mkw["basis_local"] = EprMeasBasis[p["basis_local"]]
            elif p["rot_local"] != [0, 0, 0]:
                mkw["rotations_local"] = tuple(p["rot_local"])
            if p["rb_local"] >= 0:
                mkw["random_basis_local"] = RandomBasis(p["rb_local"])
            rkw: Dict[str, Any] = {}
            if p["basis_remote"]:
                rkw["basis_remote"] = EprMeasBasis[p["basis_remote"]]
            elif p["rot_remote"] != [0, 0, 0]:
                rkw["rotations_remote"] = tuple(p["rot_remote"])
            if p["rb_remote"] >= 0:
                rkw["random_basis_remote"] = RandomBasis(p["rb_remote"])
            n = p["number"]
            if p.get("fid"):
                tkw.update(min_fidelity_all_at_end=p["fid"], max_tries=2)
            if api == "create_keep":
                for q in sock.create_keep(n, **tkw):
                    q.measure()
            elif api == "create_keep_with_info":
                for q in sock.create_keep_with_info(n, **tkw)[0]:
                    q.measure()
            elif api == "create_keep_post":
                sock.create_keep(n, post_routine=post, **tkw)
            elif api == "create_keep_seq":
                sock.create_keep(n, post_routine=post, sequential=True, **tkw)
            elif api == "create(K)":
                for q in sock.create(n, tp=EPRType.K, **tkw):
                    q.measure()
            elif api == "create_context":
                with sock.create_context(n, **tkw) as (q, pair):
                    q.measure()
            elif api == "create_measure":
                sock.create_measure(n, **tkw, **mkw, **rkw)
            elif api == "create(M)":
                sock.create(n, tp=EPRType.M, **tkw, **mkw, **rkw)
            elif api == "create_rsp":
                sock.create_rsp(n, **tkw, **mkw)
            elif api == "create(R)":
                kw2 = {k_: v for k_, v in mkw.items() if k_ != "rotations_local"}   # the generic call has no rotation argument for R
                sock.create(n, tp=EPRType.R, **tkw, **kw2)
        try:
            conn.flush()
        except (rig.ControllerFault, rig.Stuck) as exc:
            # what the stack received is judged even if the subroutine does not finish afterwards
            row["fault"] = str(exc)[:160]
        reqs = conn.stack.requests
        row["nreq"] = len(reqs)
        row["opened"] = [[int(s_[0]), int(s_[1])] for s_ in conn.stack.sockets]        # (socket id, remote node id) as the stack was told
        for rq in reqs:
            row["gots"].append({f: _val(getattr(rq, f)) for f in rq._fields})
            try:
                q = request_to_qlink_1_0(rq)
                row["qlinks"].append(dict(ok=True, err="", cls=type(q).__name__, fields={k_: _val(v) for k_, v in dataclasses.asdict(q).items()}))
            except Exception as exc:
                row["qlinks"].append(dict(ok=False, err=f"{type(exc).__name__}: {exc}"[:160], cls="", fields={"none": 0}))
    except Exception as exc:
        row["err"] = f"{type(exc).__name__}: {exc}"[:200]
    return row


RES_APIS = [
    ("create_keep", "create", "K"), ("create_keep_with_info", "create", "K"), ("create(K)", "create", "K"),
    ("recv_keep", "recv", "K"), ("recv_keep_with_info", "recv", "K"), ("recv(K)", "recv", "K"),
    ("create_measure", "create", "M"), ("create(M)", "create", "M"), ("recv_measure", "recv", "M"), ("recv(M)", "recv", "M"),
    ("create_rsp", "create", "M"), ("recv_rsp", "recv", "K"), ("recv_rsp_with_info", "recv", "K"),
    ("create_keep_seq", "create", "K"), ("recv_keep_seq", "recv", "K"), ("create_keep_seq_info", "create", "K"),
]


def res_cases(tier: str, rng: random.Random) -> List[Dict[str, Any]]:
    out = []
    reps = 2 if tier == "quick" else 40
    for api, role, kind in RES_APIS:
        for n in (1, 2, 3):
            for rep in range(reps):
                out.append(dict(kind="res", reqs=[dict(api=api, role=role, kind=kind, n=n, node=1 + rep % 2, socket=(0, 3)[rep % 2])],
                                salt=rng.randrange(1 << 20), expect=bool(rep % 2)))
    # measure-directly requests compiled once and executed twice (other responses the second time)
    for api, role, kind in RES_APIS:
        if kind == "M" or api == "create_rsp":
            for n in (1, 2):
                out.append(dict(kind="res", reqs=[dict(api=api, role=role, kind=kind, n=n, node=1, socket=0)],
                                salt=rng.randrange(1 << 20), expect=bool(n % 2), rerun=True))
    # kept qubits consumed (measured destructively / freed) before the flush, handles read afterwards
    for api, role, kind in RES_APIS:
        if kind == "K" and "_seq" not in api:
            for n, consume in ((1, "measure"), (2, "mixed"), (3, "free")) if tier != "quick" else ((2, "mixed"),):
                out.append(dict(kind="res", reqs=[dict(api=api, role=role, kind=kind, n=n, node=1, socket=0)],
                                salt=rng.randrange(1 << 20), expect=False, consume=consume))
    # the handles are read late: after a later subroutine of the same connection made requests of its own, or after the
    # connection was closed and the next connection of the same application (same controller) made its requests
    for api, role, kind in RES_APIS:
        for n, later in ((2, "flush"), (1, "connection")) if tier == "quick" else ((1, "flush"), (2, "flush"), (3, "flush"), (1, "connection"), (2, "connection")):
            out.append(dict(kind="res", reqs=[dict(api=api, role=role, kind=kind, n=n, node=1, socket=0)],
                            salt=rng.randrange(1 << 20), expect=bool(n % 2), later=later))
    # the same, with the responses handed to the executor as qlink-interface 1.0 objects (the conversion path)
    for api, role, kind in RES_APIS:
        for n in (1, 2, 3) if tier != "quick" else (2,):
            out.append(dict(kind="res", reqs=[dict(api=api, role=role, kind=kind, n=n, node=1 + n % 2, socket=(0, 3)[n % 2])],
                            salt=rng.randrange(1 << 20), expect=bool(n % 2), q10=True))
    # two requests in one subroutine on different sockets / nodes: results must not mix
    pairs = list(itertools.permutations(RES_APIS, 2))
    rng.shuffle(pairs)
    for (a1, r1, k1), (a2, r2, k2) in pairs[: (24 if tier == "quick" else 240)]:
        out.append(dict(kind="res", reqs=[dict(api=a1, role=r1, kind=k1, n=rng.choice([1, 2]), node=1, socket=0),
                                          dict(api=a2, role=r2, kind=k2, n=rng.choice([1, 2]), node=2, socket=3)],
                        salt=rng.randrange(1 << 20), expect=False, reverse=bool(rng.randrange(2))))
    return out


def _run_res(item):
    from . import rig
    from netqasm.qlink_compat import EPRType
    from netqasm.sdk.epr_socket import EPRSocket
    i, c = item
    rng = random.Random(c["salt"])
    row = dict(c, id=i, err="", fault=False, exc="", obs=[], responses=[], kinds=[r["kind"] for r in c["reqs"]])
    try:
        socks = [EPRSocket(NODE[r["node"]], epr_socket_id=r["socket"]) for r in c["reqs"]]
        conn = rig.VConnection("alice", max_qubits=8, epr_sockets=socks)
        conn.stack.get_purpose_id = lambda remote_node_id, epr_socket_id: PURPOSE(remote_node_id, epr_socket_id)
        ex = conn.ex
        total = sum(r["n"] for r in c["reqs"])
        # physical qubits the link says it used: any order, all different
        physs = rng.sample(range(8), total)
        bells = [rng.randrange(4) for _ in range(total + 4)]
        outs = [rng.randrange(2) for _ in range(total + 4)]
        salt = rng.randrange(50)

        def fields(k, kind):
            return dict(create_id=100 + 3 * k + salt, sequence_number=200 + 5 * k + salt, goodness=300 + 7 * k + salt, goodness_time=400 + 11 * k + salt,
                        measurement_basis=(k + salt) % 5, logical_qubit_id=physs[k % len(physs)])

        seqmode = any("_seq" in r["api"] for r in c["reqs"])
        if c.get("consume"):
            ex.meas_script = [0, 1] * 8
        if seqmode:
            physs = [physs[0]] * total            # one pair at a time on the same qubit
            ex.meas_script = [0, 1] * 8
        conn.link = rig.AutoLink(ex, conn.stack, bell=bells, outcomes=outs, fields=fields, stepwise=seqmode, qlink10=bool(c.get("q10")))
        handles = []
        ek = dict(expect_phi_plus=c["expect"])
        for r, sock in zip(c["reqs"], socks):
            api, n = r["api"], r["n"]
            if r["role"] == "recv":
                conn.link.remote.append(dict(remote=r["node"], purpose=PURPOSE(r["node"], r["socket"]), type=r["kind"], n=n))
            if api == "create_keep":
                h = ("q", sock.create_keep(n), None)
            elif api == "create_keep_with_info":
                qs, infos = sock.create_keep_with_info(n)
                h = ("q", qs, infos)
            elif api == "create(K)":
                h = ("q", sock.create(n, tp=EPRType.K), None)
            elif api == "recv_keep":
                h = ("q", sock.recv_keep(n, **ek), None)
            elif api == "recv_keep_with_info":
                qs, infos = sock.recv_keep_with_info(n, **ek)
                h = ("q", qs, infos)
            elif api == "recv(K)":
                h = ("q", sock.recv(n, tp=EPRType.K), None)
            elif api == "create_measure":
                h = ("m", sock.create_measure(n), None)
            elif api == "create(M)":
                h = ("m", sock.create(n, tp=EPRType.M), None)
            elif api == "recv_measure":
                h = ("m", sock.recv_measure(n, **ek), None)
            elif api == "recv(M)":
                h = ("m", sock.recv(n, tp=EPRType.M), None)
            elif api == "create_rsp":
                h = ("m", sock.create_rsp(n), None)
            elif api in ("create_keep_seq", "recv_keep_seq", "create_keep_seq_info"):
                # pairs handled one after the other by a measuring post routine: the handles outlive their qubits,
                # their entanglement information must still be that of their own pair
                def post(conn_, q, pair):
                    q.measure()
                if api == "create_keep_seq":
                    h = ("e", sock.create_keep(n, post_routine=post, sequential=True), None)
                elif api == "recv_keep_seq":
                    h = ("e", sock.recv_keep(n, post_routine=post, sequential=True, **ek), None)
                else:
                    qs, infos = sock.create_keep_with_info(n, post_routine=post, sequential=True)
                    h = ("e", qs, infos)
            elif api == "recv_rsp":
                h = ("q", sock.recv_rsp(n, **ek), None)
            elif api == "recv_rsp_with_info":
                qs, infos = sock.recv_rsp_with_info(n, **ek)
                h = ("q", qs, infos)
            if c.get("consume") and h[0] == "q":
                # the usual order: the kept qubits are measured (or freed) in the same subroutine, the handles are
                # inspected after the flush: they outlive their qubits and still name their own pair's response
                for k_, q_ in enumerate(h[1]):
                    if c["consume"] == "free" or (c["consume"] == "mixed" and k_ % 2):
                        q_.free()
                    else:
                        q_.measure()
                h = ("e", h[1], h[2])
            handles.append(h)
        # the recv-role streams are offered from the start, in either order: responses of the later
        # request may arrive (and have to be parked) before those the subroutine is waiting for
        if c.get("reverse"):
            conn.link.remote.reverse()
        first_run = 0
        try:
            if c.get("rerun"):
                # the operations are compiled once and the compiled subroutine is executed twice; the handles are read after
                # the first execution and (judged) after the second, whose responses carry other values
                sub_ = conn.compile()
                sub_.instantiate(conn.app_id)
                conn.commit_subroutine(sub_)
                for (what_, hs_, _i) in handles:
                    for h_ in hs_:
                        if what_ == "m":
                            _ = [getattr(h_, f_).value for f_ in ("raw_measurement_outcome", "generation_duration", "raw_bell_state", "remote_node_id")]
                first_run = len(conn.link.log)
                for r, sock in zip(c["reqs"], socks):
                    if r["role"] == "recv":
                        conn.link.remote.append(dict(remote=r["node"], purpose=PURPOSE(r["node"], r["socket"]), type=r["kind"], n=r["n"]))
                conn.commit_subroutine(sub_)
            else:
                conn.flush()
        except (rig.ControllerFault, rig.Stuck) as exc:
            row["fault"] = True
            row["exc"] = str(exc)[:200]
            return row
        first_end = len(conn.link.log)
        um = list(ex._qubit_unit_modules.get(conn.app_id, []))
        if c.get("later"):
            try:
                if c["later"] == "flush":
                    later_ = socks[0].create_measure(3)
                    extra_ = conn.new_array(4, init_values=[9, 8, 7, 6])
                    conn.flush()
                else:
                    conn.close()
                    sock2 = EPRSocket(NODE[c["reqs"][0]["node"]], epr_socket_id=c["reqs"][0]["socket"])
                    conn2 = rig.VConnection("alice", ctrl=conn.ctrl, successor=True, max_qubits=8, epr_sockets=[sock2])
                    conn2.stack.get_purpose_id = conn.stack.get_purpose_id
                    conn2.link = rig.AutoLink(ex, conn2.stack, bell=[3 - b for b in bells], outcomes=[1 - o for o in outs],
                                              fields=lambda k, kind: {k_: v_ + 1000 if k_ != "logical_qubit_id" else v_ for k_, v_ in fields(k, kind).items()})
                    later_ = sock2.create_measure(3)
                    extra_ = conn2.new_array(4, init_values=[9, 8, 7, 6])
                    conn2.flush()
                _ = [m_.raw_measurement_outcome.value for m_ in later_]
            except (rig.ControllerFault, rig.Stuck) as exc:
                row["fault"] = True
                row["exc"] = "later: " + str(exc)[:200]
                return row
        # responses per request, in pair order (match by remote node and purpose id)
        log = conn.link.log[first_run:first_end]
        for r in c["reqs"]:
            mine = [x for x in log if x.remote_node_id == r["node"] and x.purpose_id == PURPOSE(r["node"], r["socket"])]
            row["responses"].append([[_val(v) for v in x] for x in mine])
        for ri, (r, (what, hs, infos)) in enumerate(zip(c["reqs"], handles)):
            for pi, hnd in enumerate(hs):
                def ob(name, v):
                    row["obs"].append(dict(req=ri, pair=pi, h=name, v=_val(v) if v is not None else -1))
                if what in ("q", "e"):
                    if what == "q":
                        ob("qubit.physical", um[hnd.qubit_id] if hnd.qubit_id < len(um) else None)
                    info = hnd.entanglement_info
                    for f in info._fields:
                        ob("ent." + f, info.__getattribute__(f).value)
                    if infos is not None:
                        k_ = infos[pi]
                        ob("keep.qubit_id", k_.qubit_id.value)
                        ob("keep.remote_node_id", k_.remote_node_id.value)
                        ob("keep.generation_duration", k_.generation_duration.value)
                        ob("keep.raw_bell_state", k_.raw_bell_state.value)
                        ob("keep.bell_state", k_.bell_state)
                else:
                    ob("meas.raw_measurement_outcome", hnd.raw_measurement_outcome.value)
                    ob("meas.remote_node_id", hnd.remote_node_id.value)
                    ob("meas.generation_duration", hnd.generation_duration.value)
                    ob("meas.raw_bell_state", hnd.raw_bell_state.value)
                    ob("meas.bell_state", hnd.bell_state)
    except Exception as exc:
        row["err"] = f"{type(exc).__name__}: {exc}"[:200]
    return row


def _dispatch(item):
    import logging
    logging.disable(logging.CRITICAL)
    return _run_req(item) if item[1]["kind"] == "req" else _run_res(item)


def run(prop: str, tier: str) -> int:
    V = C.Verdicts(prop, tier)
    tmp = C.tmpdir()
    try:
        rng = random.Random(C.seed() * 104729 + 11)
        cases = req_cases(tier, rng) + res_cases(tier, rng)
        with ProcessPoolExecutor(max_workers=C.ncpu()) as pool:
            rows = list(pool.map(_dispatch, [(i + 1, c) for i, c in enumerate(cases)], chunksize=8))
        res = C.run_tlc_sharded("EprFields", rows, tmp, shards=C.ncpu(), cfg="EprFields.cfg")
        bad = {}
        for v in res.verdicts:
            bad.setdefault(v[2], v)
        if len(res.ok_ids) + len(bad) != len(rows):
            raise C.MachineryError("EprFields gave no verdict for some cases")
        groups: Dict[str, Any] = {}
        for rid, v in bad.items():
            r = rows[rid - 1]
            if r["kind"] == "req":
                p = r["ps"][0] if len(r["ps"]) == 1 else r["ps"][1]
                # which parameter is responsible: the canonical witness keeps the API, the type and the clause-relevant arguments
                w = {"apis": [x["api"] for x in r["ps"]], "type": p["tp"], "random_basis": [p["rb_local"], p["rb_remote"]] if "reject" in v[1] or "random" in v[1] else "any"}
                key = json.dumps([v[1], w], sort_keys=True)
                cur = groups.get(key)
                if cur is None:
                    groups[key] = [1, v, r, w]
                else:
                    cur[0] += 1
            else:
                o = r["obs"][v[3] - 1] if 0 < v[3] <= len(r["obs"]) else {}
                w = {"apis": [q["api"] for q in r["reqs"]], "handle": o.get("h", "")} if o else {"apis": [q["api"] for q in r["reqs"]], "n": [q["n"] for q in r["reqs"]]}
                key = json.dumps([v[1], w], sort_keys=True)
                cur = groups.get(key)
                if cur is None:
                    groups[key] = [1, v, r, w]
                else:
                    cur[0] += 1
        for key, (cnt, v, r, w) in sorted(groups.items()):
            if r["kind"] == "req":
                V.add(v[1], w, f"{r['ps']}: {v[1]}; stack received {r['gots']}; link-layer 1.0 conversion: {r['qlinks']} {r['err']} {r['fault']} ({cnt} cases)", r)
            else:
                o = r["obs"][v[3] - 1] if 0 < v[3] <= len(r["obs"]) else {}
                V.add(v[1], w, f"{[(q['api'], q['n']) for q in r['reqs']]}: {v[1]}: handle {o} but the responses were {r['responses']} {r['exc']} {r['err']} ({cnt} cases)", r)
        nreq = sum(1 for r in rows if r["kind"] == "req")
        cov = {
            "states": res.distinct, "transitions": res.generated, "traces_validated_against_impl": len(rows), "evaluations": len(rows),
            "distinct_nontrivial": len({json.dumps(c_, sort_keys=True) for c_ in cases}),
            "rule": f"{nreq} request cases (every create-type API x type K/M/R x number x time unit/limit x named bases / rotation triples 0..31 / random-basis sets x two remote nodes and sockets) "
                    f"and {len(rows) - nreq} result cases (13 APIs x 1..3 pairs x both roles, single and two requests per subroutine, responses with distinct values in every field and arbitrary physical qubits; "
                    f"{sum(len(r['obs']) for r in rows if r['kind'] == 'res')} handle reads)",
            "samples": [cases[0], cases[-1]], "exhaustive": False, "checker_cmd": res.cmd,
        }
        return V.finish("model_checking", cov, ASSUME)
    finally:
        shutil.rmtree(tmp, ignore_errors=True)


def replay_case(prop, case, tmp):
    keep = ("kind", "ps", "reqs", "salt", "expect", "reverse", "q10", "consume", "earlier_run", "rerun", "later")
    row = _dispatch((1, {k: case[k] for k in keep if k in case}))
    res = C.run_tlc_sharded("EprFields", [row], tmp, shards=1, cfg="EprFields.cfg")
    return res.verdicts[0][1] if res.verdicts else None
