"""C18: thread sockets deliver every message once and in order under any schedule."""
from __future__ import annotations

import json
import os
import shutil
from concurrent.futures import ProcessPoolExecutor
from typing import Any, Dict, List

from . import common as C

ASSUME = [
    "preemption points are the source lines of _SocketHub that touch state shared between threads (sets, dicts, message lists, the lock, callback invocations); a Python statement is atomic (GIL), preemption inside a statement is outside the model",
    "schedules are explored exhaustively per scenario by a stateless DFS over REAL threads, pruned by (shared hub state, thread positions, per-thread results); the real-time order of call/return events of pruned paths is not enumerated",
    "sleeps are zero and time-outs unused: no wall-clock time enters a schedule; garbage-collection-time disconnects (__del__) are disabled in the rig",
    "one socket per thread; one producer and one consumer per direction (as the SDK uses sockets)",
]


def ep(name, remote, sid, cb, *script):
    return {"name": name, "remote": remote, "id": sid, "cb": cb, "script": [list(s) for s in script]}


def scenarios(tier: str) -> Dict[str, List[Dict[str, Any]]]:
    c, s, r, nb, d = ["connect", None], (lambda m: ["send", m]), ["recv", None], ["recvnb", None], ["disconnect", None]
    S = {
        "plain-fifo": [ep("A", "B", 0, False, c, s("a1"), s("a2"), nb), ep("B", "A", 0, False, c, r, r)],
        "both-directions": [ep("A", "B", 0, False, c, s("a1"), r), ep("B", "A", 0, False, c, s("b1"), r)],
        "callback-endpoint": [ep("A", "B", 0, False, c, s("a1"), s("a2")), ep("B", "A", 0, True, c, s("b1"))],
        "disconnect-early": [ep("A", "B", 0, False, c, s("a1"), d), ep("B", "A", 0, False, c, r, nb)],
        "send-after-peer-left": [ep("A", "B", 0, False, c, s("a1"), s("a2")), ep("B", "A", 0, False, c, nb, d)],
        "nonblocking-poll": [ep("A", "B", 0, False, c, s("a1")), ep("B", "A", 0, False, c, nb, nb, nb)],
        # both endpoints deliver through callbacks and both send at the same time
        "callbacks-both-send": [ep("A", "B", 0, True, c, s("a1"), s("a2")), ep("B", "A", 0, True, c, s("b1"), s("b2"))],
    }
    if tier == "thorough":
        S["two-socket-ids"] = [ep("A", "B", 0, False, c, s("x")), ep("B", "A", 0, False, c, r),
                               ep("A", "B", 1, False, c, s("y")), ep("B", "A", 1, False, c, r)]
        S["callbacks-both"] = [ep("A", "B", 0, True, c, s("a1"), s("a2")), ep("B", "A", 0, True, c, s("b1"), d)]
        S["three-sends"] = [ep("A", "B", 0, False, c, s("a1"), s("a2"), s("a3")), ep("B", "A", 0, False, c, r, nb, r)]
    return S


def keymap(scn):
    km, n = {}, 0
    for e, rem in [(e, rem) for e in scn for rem in e.get("remotes", [e["remote"]])]:
        k = (e["name"], rem, e["id"])
        rk = (rem, e["name"], e["id"])
        if k not in km:
            if rk in km:
                km[k] = km[rk] + 1 if km[rk] % 2 == 1 else km[rk] - 1
            else:
                n += 1
                km[k] = 2 * n - 1
                km[rk] = 2 * n
    return km


def explore_only() -> Dict[str, List[Dict[str, Any]]]:
    """scenarios validated against HubAbs only (Hub.tla has no statement-level model of them)"""
    c, s, r = ["connect", None], (lambda m: ["send", m]), ["recv", None]
    return {
        # ping-pong: B answers every message from inside its receive callback; whichever side starts first
        "callback-answers": [ep("A", "B", 0, False, c, s("ping"), r), ep("B", "A", 0, "answer", c)],
        "callback-answers-two": [ep("A", "B", 0, False, c, s("p1"), s("p2"), r, r), ep("B", "A", 0, "answer", c)],
        # the other public entry points of a socket (silent, structured): the same channel operations
        "silent-entry-points": [dict(ep("A", "B", 0, False, c, s("a1"), s("a2"), ["recvnb", None]), api="silent"),
                                dict(ep("B", "A", 0, False, c, ["recvnb", None], r, ["recvnb", None]), api="silent")],
        # a callback endpoint switches its flag off, closes, and opens a plain socket with the same key: what the peer sends
        # afterwards is queued for the new socket
        "callback-socket-replaced-by-plain": [ep("A", "B", 0, False, c, s("a1"), s("a2")),
                                              ep("B", "A", 0, True, c, ["cbflag", "off"], ["disconnect", None], ["connectp", None], ["recvnb", None], ["recvnb", None])],
        # messages that end in the marker the communication log uses, on sockets with that log switched on
        "comm-log-switched-on": [dict(ep("A", "B", 0, False, c, s("a1EOF"), s("EOF"), s("xEOFyEOF")), comm_log=True),
                                 dict(ep("B", "A", 0, False, c, r, r, r), comm_log=True)],
        # the three entry points mixed on one socket, with a backlog
        "mixed-entry-points": [ep("A", "B", 0, False, c, s("a"), ["send:structured", "b"], ["send:silent", "c2"], ["send:structured", "d"]),
                               ep("B", "A", 0, False, c, r, ["recv:structured", None], ["recv:silent", None], ["recv:structured", None])],      # (each message through the entry point of its kind)
        "structured-running-list": [dict(ep("A", "B", 0, False, c, s("a1"), s("a1+a2"), s("a1+a2+a3")), api="structured-running-list"),
                                    dict(ep("B", "A", 0, False, c, r, r, r), api="structured-running-list")],
        "structured-entry-points": [dict(ep("A", "B", 0, False, c, s("a1"), ["recvnb", None]), api="structured"),
                                    dict(ep("B", "A", 0, False, c, r, ["recvnb", None]), api="structured")],
        # two storing callback sockets in one process: each holds what ITS callback was handed
        "two-storing-sockets": [ep("A", "B", 0, False, c, s("a1")), ep("B", "A", 0, "storage", c, ["stored", None]),
                                ep("C", "D", 0, False, c, s("c1")), ep("D", "C", 0, "storage", c)],
        # a broadcast channel (one socket per remote behind one receive): per remote, messages come out in sending order
        "broadcast-receive": [dict(ep("A", "B", 0, False, ["bconnect", None], ["brecv", None], ["brecv", None], ["brecv", None]), remotes=["B", "C"]),
                              ep("B", "A", 0, False, c, s("b1")), ep("C", "A", 0, False, c, s("c1"), s("c2"))],
    }


# scenarios with four threads: a bounded depth-first sample of the schedules instead of all of them
SAMPLED = {"two-storing-sockets": 2500}

PHASED = {
    # a message that was never received, the package's reset, then new sockets with the same keys
    "reset-then-reuse": {"phases": [[ep("A", "B", 0, False, ["connect", None], ["send", "old"]), ep("B", "A", 0, False, ["connect", None])],
                                    [ep("A", "B", 0, False, ["connect", None], ["send", "new"]), ep("B", "A", 0, False, ["connect", None], ["recv", None], ["recvnb", None])]]},
}


def _explore(item):
    import faulthandler
    import signal
    faulthandler.register(signal.SIGUSR1, all_threads=True)
    from . import sched
    name, scn, depth, nodes = item
    if os.environ.get("VERIF_DEBUG"):
        open(f"/tmp/c18_progress_{os.getpid()}", "a").write(f"start {name}\n")
    paths, st = sched.explore(scn, max_depth=depth, max_nodes=nodes)
    if os.environ.get("VERIF_DEBUG"):
        open(f"/tmp/c18_progress_{os.getpid()}", "a").write(f"end {name} {st}\n")
    if isinstance(scn, dict):
        scn = scn["phases"][0] + scn["phases"][1]      # thread ids 1..4 in this order
    km = keymap(scn)
    rows = []
    for p in paths:
        evs = []
        for e in p["history"]:
            if e["ev"] == "lost":
                continue
            if e["ev"] == "reset":
                evs.append({"t": 0, "ev": "reset", "op": "", "arg": "", "res": "", "key": 0, "msg": ""})
                continue
            x = {"t": e["t"], "ev": e["ev"], "op": e.get("op") or "", "arg": e.get("arg") or "", "res": e.get("res") or "",
                 "key": km.get(tuple(e["key"]), 0) if e.get("key") else 0, "msg": e.get("msg") or ""}
            evs.append(x)
        queues = [[] for _ in range(4)]
        for k, v in p["final"]["msgs"]:
            if tuple(k) in km:
                queues[km[tuple(k)] - 1] = list(v)
        endpoints = [{"key": km[(e["name"], e["remote"], e["id"])], "cb": bool(e["cb"])} for e in scn] + [{"key": 4, "cb": False}] * (4 - len(scn))
        for i_, e in enumerate(scn):
            endpoints[i_]["keys"] = [km[(e["name"], rem, e["id"])] for rem in e.get("remotes", [e["remote"]])]
        for x_ in endpoints:
            x_.setdefault("keys", [x_["key"]])
        for i_, e in enumerate(scn):
            if e["cb"] == "answer":          # the pseudo-thread in which the answering callback's own send is logged
                endpoints[i_ + 2] = {"key": km[(e["name"], e["remote"], e["id"])], "cb": False}
        rows.append({"scenario": name, "schedule": p["schedule"], "end": p["end"], "events": evs, "positions": p.get("positions", []),
                     "endpoints": endpoints,
                     "complete": p["end"] == "done", "queues": queues})
    return name, rows, st


def _mc(args):
    name, scn, cbfirst, tmp = args
    km = keymap(scn)
    eps = [{"key": km[(e["name"], e["remote"], e["id"])], "cb": e["cb"], "script": [{"op": o, "arg": a or ""} for o, a in e["script"]]} for e in scn]
    path = f"{tmp}/hub_{name}.json"
    json.dump({"eps": eps, "cbfirst": cbfirst}, open(path, "w"))
    r = C.run_tlc("Hub", env={"VERIF_SCN": path}, workers=2, coverage=True, check_rc=False, heap="3g", timeout=1500)
    outcomes = set()
    for line in r.out.splitlines():
        if line.startswith('"{'):
            o = json.loads(json.loads(line))
            outcomes.add(json.dumps({"res": o["res"], "msgs": o["msgs"], "cbgot": o["cbgot"]}, sort_keys=True))
    return name, r, outcomes


def callbacks_first() -> bool:
    """Which statement order does the working tree's connect() use?"""
    import inspect
    from netqasm.sdk.classical_communication.thread_socket import socket_hub as H
    src = inspect.getsource(H._SocketHub.connect)
    a, b = src.find("self._add_callbacks("), src.find("self._open_sockets.add(")
    return 0 <= a < b


def run(prop: str, tier: str) -> int:
    V = C.Verdicts(prop, tier)
    tmp = C.tmpdir()
    os.environ["VERIF_COMMLOG_DIR"] = tmp
    try:
        from . import sched
        lines = sched.shared_lines()
        if len(lines) < 10:
            raise C.MachineryError(f"only {len(lines)} shared-state lines found in socket_hub.py: the scheduler has lost its preemption points")
        S = scenarios(tier)
        # design level: the statement-level specification, all interleavings, invariants + liveness
        from concurrent.futures import ThreadPoolExecutor
        cbf = callbacks_first()
        with ThreadPoolExecutor(max_workers=8) as tp:
            mc = {n: (r, o) for n, r, o in tp.map(_mc, [(n, s, cbf, tmp) for n, s in S.items()])}
        mstates = mtrans = 0
        for name, (r, _) in mc.items():
            if r.rc != 0 and not r.violated:
                raise C.MachineryError(f"TLC failed on Hub scenario {name}:\n{r.out[-1200:]}")
            mstates += r.distinct
            mtrans += r.generated
            for inv in r.violated:
                V.add("model-violates-" + inv, {"scenario": name, "callbacks_first": cbf},
                      f"Hub.tla (statement order of the working tree: callbacks {'before' if cbf else 'after'} becoming visible) violates {inv} in scenario {name}")
        depth, nodes = (120, 60000) if tier == "quick" else (160, 400000)
        jobs = [(n, s, depth, nodes) for n, s in S.items()] + [(n, s, depth, 400) for n, s in PHASED.items()] + [(n, s, depth, (nodes if n not in SAMPLED else SAMPLED[n] * (1 if tier == "quick" else 8))) for n, s in explore_only().items()]     # (280 nodes suffice when reset works; without it no two runs are alike)
        # (fresh interpreters, not forks of this multi-threaded process: a forked child can inherit a lock that a thread of
        #  the parent held at the moment of the fork)
        import multiprocessing
        with ProcessPoolExecutor(max_workers=min(C.ncpu(), len(jobs)), mp_context=multiprocessing.get_context("spawn")) as pool:
            res = list(pool.map(_explore, jobs))
        rows, stats = [], {}
        for name, rs, st in res:
            stats[name] = st
            if st["truncated"]:
                if name not in SAMPLED:
                    V.notes.append(f"exploration of {name} truncated at {nodes} nodes")
            rows += rs
        for i, r_ in enumerate(rows, start=1):
            r_["id"] = i
        # rig-level endings that need no abstract model
        for r_ in rows:
            if r_["end"] == "doomed":
                pend = [e["op"] for e in r_["events"] if e["ev"] == "call"][-4:]
                V.add("no-schedule-lets-the-endpoints-finish", {"scenario": r_["scenario"], "positions": [p[0] for p in r_.get("positions", [])]},
                      f"after schedule {r_['schedule']} no continuation lets every thread finish its script (positions {r_.get('positions')}); history {[(e['t'], e['ev'], e['op'], e['res']) for e in r_['events']]}",
                      {"scenario": r_["scenario"], "schedule": r_["schedule"]})
            if r_["end"].startswith("error") or r_["end"] == "deadlock":
                V.add("thread-" + r_["end"].split(":")[0], {"scenario": r_["scenario"], "what": r_["end"][:80]},
                      f"schedule {r_['schedule']}: {r_['end']}", {"scenario": r_["scenario"], "schedule": r_["schedule"]})
        res2 = C.run_tlc_sharded("HubAbsTrace", rows, tmp, shards=min(C.ncpu(), max(1, len(rows))))
        # run_tlc_sharded collects <<"OK", id>>; this spec prints <<"ACCEPT", id>>
        accepted = set(res2.ok_ids)
        for r_ in rows:
            if r_["id"] in accepted or r_["end"].startswith("error"):
                continue
            hist = [(e["t"], e["ev"], e["op"] or e["key"], e["arg"] or e["res"] or e["msg"]) for e in r_["events"]]
            # witness: scenario + the per-thread results (what the application observed)
            obs = {}
            for e in r_["events"]:
                if e["ev"] == "ret":
                    obs.setdefault(str(e["t"]), []).append(e["res"])
                if e["ev"] == "cb":
                    obs.setdefault("cb" + str(e["key"]), []).append(e["msg"])
            V.add("history-not-linearizable", {"scenario": r_["scenario"], "observed": obs, "queues": r_["queues"] if r_["complete"] else None},
                  f"no placement of linearization points explains this history of real threads (schedule {r_['schedule']}): {hist}; final real queues {r_['queues']}",
                  {"scenario": r_["scenario"], "schedule": r_["schedule"]})
        # outcome-level conformance between the statement-level specification and the real threads
        km_all = {n: keymap(s_) for n, s_ in S.items()}
        for name, rs, st in res:
            if name not in mc:
                continue            # (a phased scenario on the package's own hub has no statement-level model)
            if st["truncated"] or mc[name][0].violated:
                continue
            real = set()
            for p in rs:
                if p["end"] != "done":
                    continue
                nthreads = len(S[name])
                resl = [[e["res"] for e in p["events"] if e["ev"] == "ret" and e["t"] == t] for t in range(1, nthreads + 1)]
                cbgot = [[e["msg"] for e in p["events"] if e["ev"] == "cb" and e["key"] == p["endpoints"][t - 1]["key"]] if S[name][t - 1]["cb"] else []
                         for t in range(1, nthreads + 1)]
                real.add(json.dumps({"res": resl, "msgs": p["queues"], "cbgot": cbgot}, sort_keys=True))
            spec = mc[name][1]
            for o in sorted(real - spec):
                V.add("outcome-not-allowed-by-statement-level-spec", {"scenario": name, "outcome": json.loads(o)},
                      f"real threads produced an outcome Hub.tla cannot produce in scenario {name}: {o}")
            if spec - real:
                V.notes.append(f"binding: Hub.tla predicts {len(spec - real)} outcome(s) in {name} that the real exploration did not produce (e.g. {sorted(spec - real)[0][:200]})")
        # binding self-test: a corrupted history must be rejected
        good = next((r_ for r_ in rows if r_["id"] in accepted and any(e["ev"] == "ret" and e["op"] == "recv" for e in r_["events"])), None)
        if good is None:
            raise C.MachineryError("no accepted history with a recv to run the self-test on")
        b = json.loads(json.dumps(good)); b["id"] = 1
        for e in b["events"]:
            if e["ev"] == "ret" and e["op"] == "recv":
                e["res"] = "zz"
                break
        r3 = C.run_tlc_sharded("HubAbsTrace", [b], tmp, shards=1, tag="self")
        if r3.ok_ids:
            raise C.MachineryError("binding self-test: corrupted history accepted by HubAbsTrace")
        nontriv = {json.dumps([r_["scenario"], [(e["t"], e["ev"], e["res"], e["msg"]) for e in r_["events"]]]) for r_ in rows if len(r_["events"]) >= 6}
        cov = {
            "states": mstates + res2.distinct + sum(s["states"] for s in stats.values()), "transitions": mtrans + res2.generated + sum(s["nodes"] for s in stats.values()),
            "hub_model_states": {n: r.distinct for n, (r, _) in mc.items()}, "hub_model_outcomes": {n: len(o) for n, (_, o) in mc.items()},
            "statement_order_callbacks_first": cbf, "liveness_checked": "Terminates under strong fairness, per scenario",
            "traces_validated_against_impl": len(rows), "evaluations": sum(s["nodes"] for s in stats.values()), "distinct_nontrivial": len(nontriv),
            "rule": "evaluation = one schedule prefix executed on real threads under the statement-level scheduler; trace = API history of a distinct reachable outcome (terminal or depth-bounded), validated by TLC against HubAbs with linearization points chosen by TLC; non-trivial = >= 6 API events",
            "samples": [{"scenario": rows[0]["scenario"], "schedule": rows[0]["schedule"], "events": rows[0]["events"][:12]}],
            "real_states_per_scenario": stats, "preemption_points": sorted(f"{k[0]}:{v[:60]}" for k, v in lines.items()),
            "selftest": "history with a corrupted recv result rejected", "exhaustive": not any(s["truncated"] for n_, s in stats.items() if n_ not in SAMPLED),
            "sampled_scenarios": {n_: {"nodes": stats[n_]["nodes"], "all_schedules": not stats[n_]["truncated"]} for n_ in SAMPLED if n_ in stats},
            "checker_cmd": res2.cmd,
        }
        return V.finish("model_checking", cov, ASSUME)
    finally:
        shutil.rmtree(tmp, ignore_errors=True)
