"""C08: NV transpilation preserves program behaviour, not only gates.

spec side: TLC executes the SOURCE (vanilla) program with Machine.tla.
code side: the real NVSubroutineTranspiler rewrites the same program, the
result is serialised, deserialised in the NV flavour and run on the real
executor under the same measurement script.  spec/NvRefine.tla compares.
Programs are generated from the instruction patterns the SDK emits (loops,
conditionals, end labels, qubit registers written by set and by load,
relocation by mov, electron and up to three carbons, both debug settings).
"""
from __future__ import annotations

import copy
import json
import random
import shutil
from concurrent.futures import ProcessPoolExecutor
from typing import Any, Dict, List, Tuple

from . import common as C

ASSUME = [
    "the meaning of the source program is Machine.tla (validated against the real executor by C04); gates denote Pauli rotations as in Gates.tla (validated against the published matrices by C07)",
    "virtual qubit 0 is the electron, 1..3 are carbons; programs follow the SDK's patterns: qubit registers are written right before each gate, loops are 'set; beq exit; body; add; jmp', conditionals branch over their body, a mov is bracketed by init of its target and qfree of its source",
    "registers the source program never mentions (the transpiler's scratch register, C15 of the appended no-op) are not compared; with two subroutines a Q register that only the first one mentions is not compared either (each subroutine is transpiled on its own)",
    "gate sequences between two non-unitary events are compared as unitaries on 4 qubits up to global phase; non-commuting residual rotations would be reported as inconclusive (exit 2), not as a violation",
]

ONE = ["x", "y", "z", "h", "k", "s", "t"]
ROT = ["rot_x", "rot_y", "rot_z"]
# registers: bank * 16 + index with banks R, C, Q, M (Machine.tla / harness.isa)
R = lambda i: 0 * 16 + i
Cq = lambda i: 1 * 16 + i
Q = lambda i: 2 * 16 + i
Mr = lambda i: 3 * 16 + i


class Prog:
    """instruction list with symbolic labels"""

    def __init__(self):
        self.ins: List[Tuple[str, List[Any]]] = []
        self.labels: Dict[str, int] = {}
        self.nlab = 0

    def emit(self, mn, *ops):
        self.ins.append((mn, list(ops)))

    def label(self) -> str:
        self.nlab += 1
        return f"L{self.nlab}"

    def place(self, lab):
        self.labels[lab] = len(self.ins)

    def resolve(self) -> List[Dict[str, Any]]:
        return [{"mn": mn, "ops": [self.labels[o] if isinstance(o, str) else o for o in ops]} for mn, ops in self.ins]


def compile_ast(ast: Dict[str, Any]) -> List[List[Dict[str, Any]]]:
    """the subroutines of the case: one, or (split) the set-up and the body as two subroutines of the same application"""
    progs = []
    p = Prog()
    nq = ast["nq"]
    perq = ast.get("regstyle") in ("perqubit", "hoisted")     # one Q register per qubit instead of the SDK's Q0 / Q1
    hoisted = ast.get("regstyle") == "hoisted"                # ... written once at the start, never again

    free = ast.get("regstyle") == "free"                      # any register for any qubit, chosen per gate

    def qr(q, pos, s_=None):
        if free and s_ is not None:
            return Q(s_.get("ra" if pos == 0 else "rb", pos))
        return Q(q) if perq else Q(pos)

    def setq(reg, q):
        if not hoisted:
            p.emit("set", reg, q)
    # arrays: @0 results, @1 the qubit ids (for qubit registers written by load)
    p.emit("set", R(5), 6)
    p.emit("array", R(5), 0)
    p.emit("set", R(5), 4)
    p.emit("array", R(5), 1)
    for i in range(4):
        p.emit("set", R(4), i)
        p.emit("set", R(5), i)
        p.emit("store", R(4), 1, R(5))
    for i in ast["alloc"]:
        p.emit("set", Q(0), i)
        p.emit("qalloc", Q(0))
        p.emit("init", Q(0))
    if hoisted:
        for i in range(4):
            p.emit("set", Q(i), i)

    def gate(mn, regs, imm):
        if mn in ROT:
            p.emit(mn, regs[0], imm[0], imm[1])
        else:
            p.emit(mn, *regs)

    def body(stmts, depth):
        for s in stmts:
            k = s["s"]
            if hoisted and k in ("lg1", "lg2", "stale", "meas", "recycle", "mov", "lmov", "retry"):
                one(s, depth)
                p.emit("set", Q(0), 0)      # these statements address their qubit through Q0 / Q1: restore the hoisted values
                p.emit("set", Q(1), 1)
                if s.get("lr", 0) > 1:
                    p.emit("set", Q(s["lr"]), s["lr"])
                continue
            one(s, depth)

    def one(s, depth):
        if True:
            k = s["s"]
            if k == "g1":
                setq(qr(s["q"], 0, s), s["q"])
                gate(s["g"], [qr(s["q"], 0, s)], s.get("imm"))
            elif k == "g2":
                setq(qr(s["a"], 0, s), s["a"])
                setq(qr(s["b"], 1, s), s["b"])
                gate(s["g"], [qr(s["a"], 0, s), qr(s["b"], 1, s)], None)
            elif k == "lmov":                      # relocation with both registers read from the array of qubit ids (NV keep path)
                p.emit("set", Q(0), s["dst"])
                p.emit("qalloc", Q(0))
                p.emit("init", Q(0))
                if s.get("rr"):
                    # as the SDK moves a fresh pair into memory: the operands of the move are R registers (same indices as
                    # Q registers that were `set` earlier in the text)
                    p.emit("set", R(4), s["src"])
                    p.emit("load", R(0), 1, R(4))
                    p.emit("set", R(4), s["dst"])
                    p.emit("load", R(1), 1, R(4))
                    p.emit("mov", R(0), R(1))
                    p.emit("set", Q(0), s["src"])
                    p.emit("qfree", Q(0))
                else:
                    p.emit("set", R(4), s["src"])
                    p.emit("load", Q(0), 1, R(4))
                    p.emit("set", R(4), s["dst"])
                    p.emit("load", Q(1), 1, R(4))
                    p.emit("mov", Q(0), Q(1))
                    p.emit("qfree", Q(0))
            elif k == "retry":                     # repeat until the outcome is 0: the label is the first line of the body
                top = p.label()
                p.place(top)
                body(s["body"], depth)
                p.emit("set", Q(0), s["q"])
                p.emit("meas", Q(0), Mr(0))
                if hoisted:
                    p.emit("set", Q(0), 0)
                p.emit("bnz", Mr(0), top)
            elif k == "lg1":                       # qubit register written by load
                p.emit("set", R(4), s["q"])
                p.emit("load", Q(s.get("lr", 0)), 1, R(4))       # lr: a register that no `set` in the text may ever write
                if s.get("body"):
                    body(s["body"], depth)                      # other gates between the load and the use of the loaded register
                gate(s["g"], [Q(s.get("lr", 0))], s.get("imm"))
            elif k == "lg2":
                p.emit("set", R(4), s["a"])
                p.emit("load", Q(0), 1, R(4))
                if s.get("both"):
                    p.emit("set", R(4), s["b"])
                    p.emit("load", Q(1), 1, R(4))
                else:
                    p.emit("set", Q(1), s["b"])
                gate(s["g"], [Q(0), Q(1)], None)
            elif k == "stale":                     # a set of the register earlier in the text, a load right before the gate
                p.emit("set", Q(0), s["old"])
                p.emit("set", R(4), s["a"])
                p.emit("load", Q(0), 1, R(4))
                p.emit("set", Q(1), s["b"])
                gate(s["g"], [Q(0), Q(1)], None)
            elif k == "meas":
                p.emit("set", Q(0), s["q"])
                p.emit("meas", Q(0), Mr(0))
                p.emit("set", R(5), s["slot"])
                p.emit("store", Mr(0), 0, R(5))
            elif k == "recycle":
                p.emit("set", Q(0), s["q"])
                p.emit("meas", Q(0), Mr(0))
                p.emit("qfree", Q(0))
                p.emit("set", R(5), s["slot"])
                p.emit("store", Mr(0), 0, R(5))
                p.emit("set", Q(0), s["q"])
                p.emit("qalloc", Q(0))
                p.emit("init", Q(0))
            elif k == "mov":
                p.emit("set", Q(0), s["dst"])
                p.emit("qalloc", Q(0))
                p.emit("init", Q(0))
                p.emit("set", Q(0), s["src"])
                p.emit("set", Q(1), s["dst"])
                p.emit("mov", Q(0), Q(1))
                p.emit("qfree", Q(0))
            elif k == "add":
                p.emit("set", R(5), s["slot"])
                p.emit("load", R(4), 0, R(5))
                p.emit("set", R(6), s["v"])
                p.emit("add", R(4), R(4), R(6))
                p.emit("store", R(4), 0, R(5))
            elif k == "loop":
                cnt = R(depth)
                top, ex = p.label(), p.label()
                p.emit("set", cnt, 0)
                p.place(top)
                p.emit("set", R(6), s["n"])
                p.emit("beq", cnt, R(6), ex)
                body(s["body"], depth + 1)
                p.emit("set", R(6), 1)
                p.emit("add", cnt, cnt, R(6))
                p.emit("jmp", top)
                p.place(ex)
            elif k == "if":
                ex = p.label()
                if s["on"] == "m":
                    reg = Mr(0)
                elif s["on"] == "cnt" and depth > 0:
                    reg = R(depth - 1)
                else:
                    p.emit("set", R(5), s.get("slot", 0))
                    p.emit("load", R(3), 0, R(5))
                    reg = R(3)
                # branch over the body when the condition does NOT hold
                neg = {"eq": "bne", "ne": "beq", "lt": "bge", "ge": "blt"}[s["cmp"]]
                p.emit("set", R(7), s["v"])
                p.emit(neg, reg, R(7), ex)
                body(s["body"], depth)
                p.place(ex)
            else:
                raise ValueError(k)

    # a value every conditional can read
    p.emit("set", Mr(0), 0)
    for i in range(6):
        p.emit("set", R(5), i)
        p.emit("store", Mr(0), 0, R(5))
    if ast.get("split"):
        progs.append(p.resolve())
        p = Prog()
    body(ast["body"], 0)
    if ast.get("ret", True):
        p.emit("ret_arr", 0)
    progs.append(p.resolve())
    return progs


# --------------------------------------------------------------------------
def gen_ast(rng: random.Random, flavour: str) -> Dict[str, Any]:
    """flavour: 'set' (registers written by set only), 'load' (some by load), 'mixed'"""
    nq = rng.choice([1, 2, 2, 3, 3, 4])
    alloc = list(range(nq))
    if rng.random() < 0.15 and nq > 1:
        alloc = alloc[1:]                 # the electron is not allocated
    alive = set(alloc)
    nslot = [0]

    def slot():
        nslot[0] = (nslot[0] + 1) % 6
        return nslot[0]

    def g1():
        q = rng.choice(sorted(alive))
        if rng.random() < 0.6:
            return {"s": "g1", "g": rng.choice(ONE), "q": q, "ra": rng.randrange(4)}
        return {"s": "g1", "g": rng.choice(ROT), "q": q, "imm": [rng.choice([1, 2, 3, 5, 8, 16, 24, 31]), rng.choice([1, 2, 3, 4])], "ra": rng.randrange(4)}

    def g2():
        a, b = rng.sample(sorted(alive), 2)
        if 0 not in alive:
            # a carbon-carbon gate borrows the electron: without one the NV program faults (recorded finding, directed case)
            return g1()
        ra, rb = rng.sample(range(4), 2)
        return {"s": "g2", "g": rng.choice(["cnot", "cphase"]), "a": a, "b": b, "ra": ra, "rb": rb}

    def stmt(depth):
        p = rng.random()
        if p < 0.30 or len(alive) == 0:
            return g1() if alive else {"s": "add", "slot": slot(), "v": 1}
        if p < 0.50 and len(alive) >= 2:
            return g2()
        if p < 0.60:
            return {"s": "meas", "q": rng.choice(sorted(alive)), "slot": slot()}
        if p < 0.66:
            return {"s": "recycle", "q": rng.choice(sorted(alive)), "slot": slot()}
        if p < 0.72:
            return {"s": "add", "slot": slot(), "v": rng.choice([1, 2])}
        if p < 0.84 and depth < 2:
            return {"s": "loop", "n": rng.choice([1, 2, 3]), "body": [stmt(depth + 1) for _ in range(rng.choice([1, 2, 3]))]}
        if p < 0.96 and depth < 3:
            on = rng.choice(["m", "cnt", "arr"])
            return {"s": "if", "on": on, "slot": rng.randrange(6), "cmp": rng.choice(["eq", "ne", "lt", "ge"]), "v": rng.choice([0, 1, 1, 2]),
                    "body": [stmt(depth + 1) for _ in range(rng.choice([1, 2]))]}
        if flavour != "set" and alive:
            # (two-qubit gates on a register written by load are a recorded finding: directed cases only)
            x = g1()
            x["s"] = "lg1"
            x["lr"] = (0, 3, 2)[(x["q"] + x.get("ra", 0)) % 3]
            return x
        return g1() if alive else {"s": "add", "slot": slot(), "v": 1}

    body: List[Dict[str, Any]] = []
    for _ in range(rng.choice([2, 3, 4, 5, 6])):
        # relocation (changes which qubits exist): only at the top level
        if rng.random() < 0.12 and alive and len(alive) < 4:
            if 0 in alive:
                free = [q for q in range(1, 4) if q not in alive]
                if free:
                    d = rng.choice(free)
                    body.append({"s": "mov", "src": 0, "dst": d})
                    alive.discard(0)
                    alive.add(d)
                    continue
            else:
                s_ = rng.choice(sorted(alive))
                body.append({"s": "mov", "src": s_, "dst": 0})
                alive.discard(s_)
                alive.add(0)
                continue
        body.append(stmt(0))
    ends_in_label = rng.random() < 0.35
    if ends_in_label:
        # the last statement is a conditional or a loop and nothing follows: its exit label is just past the end
        last = {"s": "if", "on": "m", "cmp": rng.choice(["eq", "ne"]), "v": rng.choice([0, 1]), "body": [g1()] if alive else [{"s": "add", "slot": 0, "v": 1}]}
        if rng.random() < 0.4:
            last = {"s": "loop", "n": rng.choice([1, 2]), "body": [g1()] if alive else [{"s": "add", "slot": 0, "v": 1}]}
        body.append(last)
    style = rng.choice(["sdk", "sdk", "perqubit", "hoisted", "free"])
    split = rng.random() < 0.3 and style != "hoisted"      # (registers written once cannot be written in an earlier subroutine: the transpiler works per subroutine)
    if split and alloc and rng.random() < 0.5:
        # the body is a subroutine of its own that starts with a repeat-until-success loop: its label is line 0
        q = rng.choice(sorted(alloc))
        inner = [{"s": "g1", "g": "h", "q": q, "ra": 0}]
        if len(alloc) >= 2 and 0 in alloc:
            a_, b_ = rng.sample(sorted(alloc), 2)
            inner.insert(0, {"s": "g2", "g": rng.choice(["cnot", "cphase"]), "a": a_, "b": b_, "ra": 2, "rb": 3})
        body = [{"s": "retry", "q": q, "body": inner}] + body
    return {"nq": nq, "alloc": alloc, "body": body, "ret": not ends_in_label, "regstyle": style, "split": split}


def directed() -> List[Dict[str, Any]]:
    D = []
    e_c = {"nq": 2, "alloc": [0, 1]}
    c_c = {"nq": 3, "alloc": [0, 1, 2]}
    # branch across an expanded gate; end label
    D.append({**e_c, "body": [{"s": "meas", "q": 0, "slot": 1}, {"s": "if", "on": "m", "cmp": "eq", "v": 1, "body": [{"s": "g2", "g": "cnot", "a": 1, "b": 0}]}, {"s": "g1", "g": "h", "q": 1}], "ret": True})
    D.append({**e_c, "body": [{"s": "meas", "q": 0, "slot": 1}, {"s": "if", "on": "m", "cmp": "eq", "v": 1, "body": [{"s": "g1", "g": "h", "q": 1}]}], "ret": False})
    D.append({**c_c, "body": [{"s": "loop", "n": 2, "body": [{"s": "g2", "g": "cnot", "a": 1, "b": 2}, {"s": "g1", "g": "h", "q": 0}]}], "ret": False})
    # two carbon-carbon gates (the scratch register), with the electron in a non-trivial state
    D.append({**c_c, "body": [{"s": "g1", "g": "h", "q": 0}, {"s": "g2", "g": "cnot", "a": 1, "b": 2}, {"s": "g2", "g": "cphase", "a": 2, "b": 1}, {"s": "g1", "g": "h", "q": 0}], "ret": True})
    # two gates of the same placement next to one another, the first inside a conditional (so that the second is a branch target)
    for style in ("sdk", "perqubit"):
        for v in (0, 1):
            for g, (a1, b1), (a2, b2) in (("cnot", (1, 0), (2, 0)), ("cnot", (0, 1), (0, 2)), ("cphase", (1, 0), (2, 0)), ("cnot", (1, 2), (2, 1))):
                D.append({**c_c, "regstyle": style, "body": [{"s": "g1", "g": "h", "q": 1}, {"s": "g1", "g": "h", "q": 2},
                                                           {"s": "if", "on": "arr", "slot": 0, "cmp": "eq", "v": v, "body": [{"s": "g2", "g": g, "a": a1, "b": b1}]},
                                                           {"s": "g2", "g": g, "a": a2, "b": b2}], "ret": True})
    # a qubit register that only a load writes stays live across a carbon-carbon gate (which borrows a scratch register)
    four_ = {"nq": 4, "alloc": [0, 1, 2, 3]}
    for g in ("cnot", "cphase"):
        D.append({**four_, "body": [{"s": "lg1", "g": "x", "q": 3, "lr": 2, "body": [{"s": "g1", "g": "h", "q": 1}, {"s": "g2", "g": g, "a": 1, "b": 2}]},
                                    {"s": "g1", "g": "h", "q": 3}], "ret": True})
    # many carbon-carbon gates in one subroutine (each borrows a scratch register), single-qubit gates in between
    for style in ("sdk", "perqubit"):
        many = []
        for i in range(16):
            many.append({"s": "g2", "g": ("cnot", "cphase")[i % 2], "a": 1 + i % 2, "b": 2 - i % 2})
            many.append({"s": "g1", "g": ("h", "t", "x")[i % 3], "q": i % 3})
        D.append({**c_c, "regstyle": style, "body": many, "ret": True})
    # the first carbon-carbon gate in the text is skipped at run time, a later one is not; registers per qubit
    four = {"nq": 4, "alloc": [0, 1, 2, 3]}
    # gates directly after one another (no register write in between)
    D.append({**e_c, "regstyle": "hoisted", "body": [{"s": "g2", "g": "cnot", "a": 1, "b": 0}, {"s": "g1", "g": "rot_x", "q": 0, "imm": [8, 4]}, {"s": "g1", "g": "z", "q": 0}, {"s": "g2", "g": "cnot", "a": 0, "b": 1}, {"s": "g1", "g": "s", "q": 1}], "ret": True})
    D.append({**c_c, "regstyle": "hoisted", "body": [{"s": "g1", "g": "h", "q": 1}, {"s": "g1", "g": "h", "q": 1}, {"s": "g2", "g": "cphase", "a": 1, "b": 2}, {"s": "g1", "g": "t", "q": 2}, {"s": "g1", "g": "rot_z", "q": 2, "imm": [3, 2]}], "ret": True})
    # every two-qubit placement directly followed / preceded by every kind of single-qubit gate on either of its qubits
    # (what an optimisation across neighbouring expansions would see); the neighbour is the last / first gate so that
    # nothing after it can undo the effect
    singles = [{"g": g} for g in ONE] + [{"g": r, "imm": im} for r in ROT for im in ([8, 4], [3, 2])]
    for g in ("cnot", "cphase"):
        for (a, b) in ((1, 0), (0, 1), (1, 2)):
            for q in (a, b):
                for sg in singles:
                    two = {"s": "g2", "g": g, "a": a, "b": b}
                    one = {"s": "g1", "q": q, **sg}
                    D.append({**c_c, "regstyle": "hoisted", "body": [{"s": "g1", "g": "h", "q": a}, two, one], "ret": True})
                    D.append({**c_c, "regstyle": "hoisted", "body": [{"s": "g1", "g": "h", "q": a}, one, two], "ret": True})
    # two single-qubit gates on the same qubit directly after one another
    for q in (0, 1):
        for s1 in singles:
            for s2 in singles:
                D.append({**e_c, "regstyle": "hoisted", "body": [{"s": "g1", "q": q, **s1}, {"s": "g1", "q": q, **s2}], "ret": True})
    for style in ("sdk", "perqubit"):
        D.append({**c_c, "regstyle": style, "body": [{"s": "if", "on": "arr", "slot": 0, "cmp": "eq", "v": 1, "body": [{"s": "g2", "g": "cnot", "a": 1, "b": 2}]}, {"s": "g2", "g": "cphase", "a": 2, "b": 1}], "ret": True})
        D.append({**four, "regstyle": style, "body": [{"s": "g2", "g": "cnot", "a": 1, "b": 2}, {"s": "g1", "g": "h", "q": 3}, {"s": "g2", "g": "cnot", "a": 2, "b": 3}, {"s": "g2", "g": "cphase", "a": 3, "b": 1}], "ret": True})
        D.append({**four, "regstyle": style, "body": [{"s": "loop", "n": 2, "body": [{"s": "g2", "g": "cnot", "a": 3, "b": 1}, {"s": "if", "on": "cnt", "cmp": "eq", "v": 0, "body": [{"s": "g2", "g": "cphase", "a": 1, "b": 2}]}]}], "ret": False})
    # a subroutine of its own whose first line is a loop label (repeat until success); branch target line 0
    D.append({**e_c, "split": True, "body": [{"s": "retry", "q": 0, "body": [{"s": "g2", "g": "cnot", "a": 1, "b": 0}, {"s": "g1", "g": "h", "q": 0}]}, {"s": "g1", "g": "x", "q": 1}], "ret": True})
    D.append({**c_c, "split": True, "body": [{"s": "retry", "q": 1, "body": [{"s": "g2", "g": "cphase", "a": 1, "b": 2}, {"s": "g1", "g": "h", "q": 1}]}], "ret": False})
    # the electron addressed through different registers by two carbon -> electron gates
    D.append({**c_c, "regstyle": "free", "body": [{"s": "g2", "g": "cnot", "a": 1, "b": 0, "ra": 1, "rb": 0}, {"s": "g2", "g": "cnot", "a": 2, "b": 0, "ra": 1, "rb": 2},
                                                {"s": "g2", "g": "cnot", "a": 1, "b": 0, "ra": 3, "rb": 1}, {"s": "g1", "g": "h", "q": 0, "ra": 3}], "ret": True})
    D.append({**c_c, "regstyle": "free", "body": [{"s": "g2", "g": "cnot", "a": 1, "b": 0, "ra": 1, "rb": 0}, {"s": "g1", "g": "h", "q": 2, "ra": 0},
                                                {"s": "g2", "g": "cnot", "a": 1, "b": 0, "ra": 1, "rb": 2}, {"s": "g1", "g": "x", "q": 1, "ra": 2},
                                                {"s": "g2", "g": "cnot", "a": 2, "b": 0, "ra": 0, "rb": 3}], "ret": True})
    # relocation with both registers read from the array of qubit ids
    D.append({"nq": 2, "alloc": [0], "body": [{"s": "g1", "g": "h", "q": 0}, {"s": "lmov", "src": 0, "dst": 1}, {"s": "g1", "g": "t", "q": 1}], "ret": True})
    # ... with R registers as operands of the move, after gates that left other qubit ids in Q0 / Q1
    D.append({"nq": 3, "alloc": [0, 1], "body": [{"s": "g2", "g": "cnot", "a": 0, "b": 1}, {"s": "lmov", "src": 0, "dst": 2, "rr": True}, {"s": "g1", "g": "t", "q": 2}], "ret": True})
    D.append({"nq": 4, "alloc": [0, 1, 2], "body": [{"s": "g1", "g": "h", "q": 0}, {"s": "g2", "g": "cphase", "a": 1, "b": 2}, {"s": "lmov", "src": 0, "dst": 3, "rr": True}, {"s": "g1", "g": "h", "q": 3}], "ret": True})
    # nested conditionals that end on the same label
    D.append({**c_c, "body": [{"s": "if", "on": "arr", "slot": 0, "cmp": "eq", "v": 0, "body": [{"s": "g2", "g": "cnot", "a": 1, "b": 2}, {"s": "if", "on": "arr", "slot": 1, "cmp": "eq", "v": 1, "body": [{"s": "g1", "g": "x", "q": 1}]}]}, {"s": "g1", "g": "h", "q": 2}], "ret": True})
    D.append({**c_c, "body": [{"s": "if", "on": "arr", "slot": 0, "cmp": "eq", "v": 1, "body": [{"s": "g2", "g": "cnot", "a": 1, "b": 2}, {"s": "if", "on": "arr", "slot": 1, "cmp": "eq", "v": 0, "body": [{"s": "g1", "g": "x", "q": 1}]}]}, {"s": "g1", "g": "h", "q": 2}], "ret": True})
    # qubit register written by load
    D.append({**e_c, "body": [{"s": "lg1", "g": "h", "q": 1}, {"s": "lg1", "g": "rot_x", "q": 0, "imm": [8, 4]}], "ret": True})
    D.append({**e_c, "body": [{"s": "lg1", "g": "h", "q": 1, "lr": 3}, {"s": "lg1", "g": "rot_x", "q": 0, "imm": [8, 4], "lr": 3}, {"s": "lg1", "g": "t", "q": 1, "lr": 2}], "ret": True})
    D.append({**e_c, "body": [{"s": "lg2", "g": "cnot", "a": 0, "b": 1}], "ret": True})
    D.append({**e_c, "body": [{"s": "lg2", "g": "cnot", "a": 1, "b": 0, "both": True}], "ret": True})
    D.append({**c_c, "body": [{"s": "stale", "g": "cnot", "old": 0, "a": 1, "b": 2}], "ret": True})
    D.append({**c_c, "body": [{"s": "stale", "g": "cnot", "old": 1, "a": 0, "b": 2}], "ret": True})
    # relocation
    D.append({"nq": 2, "alloc": [0], "body": [{"s": "g1", "g": "h", "q": 0}, {"s": "mov", "src": 0, "dst": 1}, {"s": "g1", "g": "h", "q": 1}], "ret": True})
    D.append({"nq": 2, "alloc": [1], "body": [{"s": "g1", "g": "h", "q": 1}, {"s": "mov", "src": 1, "dst": 0}, {"s": "g1", "g": "t", "q": 0}], "ret": True})
    # carbon-carbon gate without an electron
    D.append({"nq": 3, "alloc": [1, 2], "body": [{"s": "g2", "g": "cnot", "a": 1, "b": 2}], "ret": True})
    return D


# --------------------------------------------------------------------------
def _run(item):
    """transpile the program with the real transpiler and run the result on the real executor"""
    import logging
    logging.disable(logging.CRITICAL)
    from . import isa, rig
    from netqasm.lang.instr.flavour import NVFlavour
    from netqasm.lang.parsing import deserialize
    from netqasm.lang.subroutine import Subroutine
    from netqasm.sdk.transpile import NVSubroutineTranspiler
    i, c = item
    progs = compile_ast(c["ast"])
    clss = {k.mnemonic: k for k in isa.classes("vanilla")}
    shapes = {e["mn"]: e["shape"] for e in isa.extract_table()["vanilla"]}
    def mentioned(prog):
        return {o for ins in prog for o, kind in zip(ins["ops"], _kinds(shapes[ins["mn"]], len(ins["ops"]))) if kind == "r"}
    # compared at the end: every register some subroutine mentions, except Q registers that only EARLIER subroutines
    # mention (a subroutine is transpiled on its own: a Q register it does not mention may serve as its scratch register)
    regset = sorted({r_ for prog in progs for r_ in mentioned(prog) if not (32 <= r_ < 48)} | {r_ for r_ in mentioned(progs[-1]) if 32 <= r_ < 48})
    addrs = [0, 1]
    row = dict(id=i, ast=c["ast"], debug=c["debug"], progs=progs, meas=c["meas"], umsize=4, regset=regset, addrs=addrs,
               real=dict(status="", err="", regs=[], shregs=[], arrs=[], sharrs=[], um=[], qlog=[], nvlen=0, nvtext=[]))
    real = row["real"]
    ex = rig.fresh_executor(meas_script=list(c["meas"]))
    ex.log_qfree = True
    ex.init_new_application(app_id=0, max_qubits=4)
    for prog in progs:
        try:
            objs = [isa.build(clss[x["mn"]], shapes[x["mn"]], x["ops"]) for x in prog]
        except Exception as exc:
            raise C.MachineryError(f"cannot build the source program: {exc}")
        try:
            sub_obj = Subroutine(instructions=copy.deepcopy(objs), app_id=0)
            tr = NVSubroutineTranspiler(sub_obj, debug=c["debug"])
            tsub = None
            if c.get("retry") and prog is progs[-1]:
                # recovery: a first transpile() is rejected part-way (hardware mode refuses the final rotation, whose
                # denominator is finer than pi/16), the cause is removed, and the subroutine is transpiled again - by the
                # same transpiler object or by a new one on the same Subroutine object
                from netqasm.runtime import settings as _settings
                _settings.set_is_using_hardware(True)
                try:
                    tsub = tr.transpile()
                    real["first_attempt"] = "accepted"
                except Exception as exc0:
                    real["first_attempt"] = type(exc0).__name__
                finally:
                    _settings.set_is_using_hardware(False)
                if real["first_attempt"] != "accepted":          # ("ValueError" is hardware mode's refusal of the final rotation)
                    tsub = None
                    if c["retry"] == "fresh":
                        tr = NVSubroutineTranspiler(sub_obj, debug=c["debug"])
            if tsub is None:
                tsub = tr.transpile()
        except Exception as exc:
            real["status"] = "transpile-error"
            real["err"] = f"{type(exc).__name__}: {exc}"[:160]
            return row
        real["nvlen"] += len(tsub.instructions)
        real["nvtext"] += [str(x) for x in tsub.instructions][:160]
        try:
            tsub = deserialize(bytes(tsub), flavour=NVFlavour())
        except Exception as exc:
            real["status"] = "not-serialisable"
            real["err"] = f"{type(exc).__name__}: {exc}"[:160]
            return row
        gen = ex.execute_subroutine(tsub)
        steps = 0
        try:
            for _ in gen:
                steps += 1
                if steps > 20000:
                    real["status"] = "loops"
                    break
            else:
                real["status"] = "done"
        except rig.ScriptExhausted:
            real["status"] = "loops"
        except Exception as exc:
            real["status"] = "fault"
            real["err"] = f"{type(exc).__name__}: {str(exc).splitlines()[0]}"[:160]
        if real["status"] != "done":
            break
    pr = rig.project(ex, 0, None, regset, addrs)
    real.update(regs=pr["regs"], shregs=pr["shregs"], arrs=pr["arrs"], sharrs=pr["sharrs"], um=pr["um"])
    real["qlog"] = [[g[0], list(g[1]), list(g[2])] for g in ex.gate_log]
    return row


def _kinds(shape: str, n: int) -> List[str]:
    """which flattened operand positions are registers, from the shape string of harness.isa"""
    from . import isa
    return isa.operand_kinds(shape)


def build_cases(tier: str, rng: random.Random) -> List[Dict[str, Any]]:
    cases = []
    for a in directed():
        for dbg in (False, True):
            cases.append({"ast": a, "debug": dbg, "meas": [1, 0, 1, 1, 0, 0, 1, 0] * 8})
    n = 600 if tier == "quick" else 6000
    for j in range(n):
        fl = ("set", "set", "set", "load", "mixed")[j % 5]
        cases.append({"ast": gen_ast(rng, fl), "debug": bool(j % 2), "meas": [rng.randrange(2) for _ in range(64)]})
    # recovery after a rejected transpile(): the program gets a final rotation by 3 pi / 32, which hardware mode refuses
    base = list(cases)
    k = 0
    nd = 2 * len(directed())
    for c0 in base[:nd:5] + base[nd: nd + (220 if tier == "quick" else 1500)]:
        a0 = c0["ast"]
        if a0.get("split") or a0.get("regstyle") == "free":
            continue
        for q in a0["alloc"]:
            a1 = dict(a0, body=list(a0["body"]) + [{"s": "g1", "g": "rot_z", "q": q, "imm": [3, 5]}])
            if _valid(a1):
                cases.append(dict(c0, ast=a1, retry=("same", "fresh")[k % 2]))
                k += 1
                break
    return cases


def skeleton(ast) -> Dict[str, Any]:
    """canonical form of a (shrunk) program: statement kinds, gate families and the electron/carbon roles"""
    def role(q):
        return "e" if q == 0 else "c"

    def sk(s):
        k = s["s"]
        if k in ("g1", "lg1"):
            return [k, "rot" if s["g"] in ROT else "gate", role(s["q"])]
        if k in ("g2", "lg2"):
            return [k, s["g"], role(s["a"]), role(s["b"])] + (["both"] if s.get("both") else [])
        if k == "stale":
            return [k, s["g"], role(s["old"]), role(s["a"]), role(s["b"])]
        if k in ("meas", "recycle"):
            return [k, role(s["q"])]
        if k in ("mov", "lmov"):
            return [k, role(s["src"]), role(s["dst"])]
        if k == "retry":
            return [k, role(s["q"]), [sk(x) for x in s["body"]]]
        if k == "add":
            return [k]
        if k == "loop":
            return [k, [sk(x) for x in s["body"]]]
        if k == "if":
            return [k, s["on"], [sk(x) for x in s["body"]]]
        return [k]
    return {"electron_allocated": 0 in ast["alloc"], "qubits": len(ast["alloc"]), "registers": ast.get("regstyle", "sdk"), "body": [sk(x) for x in ast["body"]], "ends_in_label": not ast.get("ret", True),
            "subroutines": 2 if ast.get("split") else 1}


def _candidates(ast):
    """smaller programs: drop one statement, unwrap a loop / conditional, lower a loop count, drop an allocated qubit that is not used"""
    out = []

    def rec(get, put):
        seq = get()
        for i in range(len(seq)):
            new = seq[:i] + seq[i + 1:]
            out.append(put(new))
            s = seq[i]
            if s["s"] in ("loop", "if", "retry"):
                out.append(put(seq[:i] + s["body"] + seq[i + 1:]))
                if s["s"] == "loop" and s["n"] > 1:
                    out.append(put(seq[:i] + [dict(s, n=1)] + seq[i + 1:]))
                rec(lambda s=s: s["body"], lambda nb, i=i, s=s, seq=seq: put(seq[:i] + [dict(s, body=nb)] + seq[i + 1:]))
            if s["s"] in ("lg1",):
                out.append(put(seq[:i] + [dict(s, s="g1")] + seq[i + 1:]))
            if s["s"] in ("g1", "lg1") and s["g"] != "h":
                out.append(put(seq[:i] + [{k_: v for k_, v in dict(s, g="h").items() if k_ != "imm"}] + seq[i + 1:]))
    rec(lambda: ast["body"], lambda nb: dict(ast, body=nb))
    if not ast.get("ret", True):
        out.append(dict(ast, ret=True))
    if ast.get("split"):
        out.append(dict(ast, split=False))
    if ast.get("regstyle", "sdk") != "sdk":
        out.append(dict(ast, regstyle="sdk"))
    used = _used(ast["body"])
    for q in ast["alloc"]:
        if q not in used and q != 0:
            out.append(dict(ast, alloc=[x for x in ast["alloc"] if x != q]))
    return out


def _used(body):
    u = set()
    for s in body:
        for f in ("q", "a", "b", "src", "dst", "old"):
            if f in s:
                u.add(s[f])
        if "body" in s:
            u |= _used(s["body"])
    return u


def _valid(ast) -> bool:
    """the source program must stay fault-free: gates only on allocated qubits, mov only at the top level"""
    alive = set(ast["alloc"])

    def ok(body, top):
        for s in body:
            k = s["s"]
            for f in ("q", "a", "b", "old"):
                if f in s and k != "stale" and s[f] not in alive:
                    return False
            if k == "stale" and (s["a"] not in alive or s["b"] not in alive):
                return False
            if k in ("g2", "lg2", "stale") and s["a"] == s["b"]:
                return False
            if k in ("mov", "lmov"):
                if not top or s["src"] not in alive or s["dst"] in alive:
                    return False
                alive.discard(s["src"])
                alive.add(s["dst"])
            if "body" in s and not ok(s["body"], False):
                return False
        return True
    return ok(ast["body"], True)


def judge(cases, tmp, tag):
    with ProcessPoolExecutor(max_workers=C.ncpu()) as pool:
        rows = list(pool.map(_run, [(i + 1, c) for i, c in enumerate(cases)], chunksize=8))
    res = C.run_tlc_sharded("NvRefine", rows, tmp, shards=C.ncpu(), tag=tag, cfg="NvRefine.cfg")
    bad = {}
    for v in res.verdicts:
        bad.setdefault(v[2], v)
    if len(res.ok_ids) + len(bad) != len(rows):
        raise C.MachineryError("NvRefine gave no verdict for some programs")
    return rows, res, bad


def _observable(r):
    x = r["real"]
    return json.dumps([x["status"], x["err"][:40], x["regs"], x["arrs"], x["sharrs"], x["um"], x["qlog"], x.get("nvtext")], sort_keys=True)


def order_dependence(cases):
    """Transpiling is a function of the subroutine: in ONE process, the same programs are transpiled and run in one
    order and then in the reverse order; whatever differs depends on what was transpiled before."""
    first = [_run((i + 1, c)) for i, c in enumerate(cases)]
    second = list(reversed([_run((len(cases) - i, c)) for i, c in enumerate(reversed(cases))]))
    return [(i, first[i], second[i]) for i in range(len(cases)) if _observable(first[i]) != _observable(second[i])]


def shrink(case, clause, tmp, rounds=12):
    cur = case
    for r in range(rounds):
        cands = [dict(cur, ast=a) for a in _candidates(cur["ast"]) if _valid(a)]
        if not cands:
            break
        rows, res, bad = judge(cands, tmp, f"s{r}")
        hit = [cands[rid - 1] for rid, v in bad.items() if v[1] == clause]
        if not hit:
            break
        cur = min(hit, key=lambda c_: len(json.dumps(c_["ast"])))
    return cur


def run(prop: str, tier: str) -> int:
    V = C.Verdicts(prop, tier)
    tmp = C.tmpdir()
    try:
        rng = random.Random(C.seed() * 15485863 + 8)
        cases = build_cases(tier, rng)
        rows, res, bad = judge(cases, tmp, "t")
        for rid, v in bad.items():
            if v[1].startswith("rig-error"):
                raise C.MachineryError(f"{v[1]}: {json.dumps(cases[rid - 1]['ast'])}")
        # a program the normal form cannot decide is never a violation; it makes the run a machinery failure (exit 2)
        # unless the same run has definite violations to report
        inconclusive = [rid for rid, v in bad.items() if v[1] == "INCONCLUSIVE"]
        bad = {rid: v for rid, v in bad.items() if v[1] != "INCONCLUSIVE"}
        ndir = 2 * len(directed())
        # directed programs are their own witnesses (the recorded findings live here and nowhere else)
        for rid, v in sorted(bad.items()):
            if rid > ndir:
                continue
            c0, r = cases[rid - 1], rows[rid - 1]
            # (the recovery tag only if a first transpile() really was rejected; otherwise the case is the plain program)
            w = dict(skeleton(c0["ast"]), debug=c0["debug"],
                     **({"after_rejected_transpile": c0["retry"]} if c0.get("retry") and r["real"].get("first_attempt") == "ValueError" else {}))
            V.add(v[1], w, f"debug={c0['debug']}: source program {json.dumps(c0['ast'])}: {v[1]}; transpiled run: {r['real']['status']} {r['real']['err']}",
                  {"ast": c0["ast"], "debug": c0["debug"], "meas": c0["meas"], "retry": c0.get("retry"), "nv": r["real"].get("nvtext", [])})
        # any generated program that fails is shrunk (statement deletion, unwrapping, fewer iterations) and reported by its skeleton
        rnd = sorted((rid for rid in bad if rid > ndir), key=lambda r_: len(json.dumps(cases[r_ - 1]["ast"])))
        seen = set()
        budget = 10 if tier == "quick" else 30
        for rid in rnd:
            clause = bad[rid][1]
            c0 = cases[rid - 1]
            if budget <= 0:
                break
            budget -= 1
            small = shrink(c0, clause, tmp)
            r = _run((0, small))
            w = dict(skeleton(small["ast"]), debug=small["debug"],
                     **({"after_rejected_transpile": small["retry"]} if small.get("retry") and r["real"].get("first_attempt") == "ValueError" else {}))
            key = (clause, json.dumps(w, sort_keys=True))
            if key in seen:
                continue
            seen.add(key)
            V.add(clause, w, f"debug={small['debug']}: source program {json.dumps(small['ast'])}: {clause}; transpiled run: {r['real']['status']} {r['real']['err']} "
                  f"({len(rnd)} generated programs fail in this run)", {"ast": small["ast"], "debug": small["debug"], "meas": small["meas"], "retry": small.get("retry"), "nv": r["real"].get("nvtext", [])})
        # state kept between transpilations (caches, class-level bookkeeping)
        sample = cases[:ndir] + cases[ndir:ndir + (60 if tier == "quick" else 400)]
        with ProcessPoolExecutor(max_workers=1) as one:
            deps = one.submit(order_dependence, sample).result()
        for i, a, b in deps[:6]:
            V.add("transpilation-depends-on-earlier-transpilations", dict(skeleton(sample[i]["ast"]), debug=sample[i]["debug"]),
                  f"source program {json.dumps(sample[i]['ast'])}: transpiled first in the process: {a['real']['status']} {a['real']['err']}; after other subroutines: {b['real']['status']} {b['real']['err']}",
                  {"ast": sample[i]["ast"], "debug": sample[i]["debug"], "meas": sample[i]["meas"]})
        if inconclusive:
            if not V.has_new():
                raise C.MachineryError(f"normal form inconclusive for {json.dumps(cases[inconclusive[0] - 1]['ast'])}")
            V.notes.append(f"{len(inconclusive)} program(s) could not be decided by the normal form (not judged); the run reports definite violations")
        kinds: Dict[str, int] = {}

        def count(body):
            for s in body:
                kinds[s["s"]] = kinds.get(s["s"], 0) + 1
                if "body" in s:
                    count(s["body"])
        for c_ in cases:
            count(c_["ast"]["body"])
        cov = {
            "states": res.distinct, "transitions": res.generated, "traces_validated_against_impl": len(rows), "evaluations": len(rows),
            "distinct_nontrivial": len({json.dumps(c_["ast"], sort_keys=True) for c_ in cases}),
            "rule": "one case = one vanilla program built from the SDK's instruction patterns (gates on electron and up to 3 carbons, loops, conditionals on outcomes / counters / array entries, in-place and recycling measurement, relocation by mov, qubit registers written by set or load, exit labels past the end) x debug off/on, transpiled by the real transpiler and run on the real executor; source semantics from Machine.tla",
            "statements_by_kind": kinds, "order_dependence_programs": len(sample), "ends_in_label": sum(1 for c_ in cases if not c_["ast"].get("ret", True)),
            "source_steps": res.generated, "samples": [cases[0]["ast"], cases[-1]["ast"]], "exhaustive": False, "checker_cmd": res.cmd,
        }
        return V.finish("model_checking", cov, ASSUME)
    finally:
        shutil.rmtree(tmp, ignore_errors=True)


def replay_case(prop, case, tmp):
    rows, res, bad = judge([{"ast": case["ast"], "debug": case["debug"], "meas": case["meas"], "retry": case.get("retry")}], tmp, "r")
    return bad[1][1] if bad else None
