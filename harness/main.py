"""Entry point: ./check <property> [--tier quick|thorough] [--replay path]"""
from __future__ import annotations

import argparse
import importlib
import os
import sys
import traceback

from . import common as C

ENGINES = {
    "C01": ("eng_wire", "run"),
    "C02": ("eng_wire", "run"),
    "C03": ("eng_asm", "run"),
    "C04": ("eng_machine", "run"),
    "C05": ("eng_host", "run"),
    "C06": ("eng_c06", "run"),
    "C07": ("eng_nv", "run"),
    "C08": ("eng_c08", "run"),
    "C09": ("eng_c09", "run"),
    "C10": ("eng_c10", "run"),
    "C11": ("eng_c11", "run"),
    "C12": ("eng_epr", "run"),
    "C13": ("eng_ctrl", "run"),
    "C14": ("eng_c14", "run"),
    "C15": ("eng_msg", "run"),
    "C16": ("eng_range", "run"),
    "C17": ("eng_text", "run"),
    "C18": ("eng_hub", "run"),
    "C19": ("eng_angle", "run"),
    "C20": ("eng_toolbox", "run"),
}


def main() -> int:
    ap = argparse.ArgumentParser()
    ap.add_argument("prop")
    ap.add_argument("--tier", default=os.environ.get("VERIF_TIER", "quick"), choices=["quick", "thorough"])
    ap.add_argument("--replay", default=None)
    a = ap.parse_args()
    if a.prop not in ENGINES:
        print(f"no engine for {a.prop}", file=sys.stderr)
        return C.EXIT_MACHINERY
    mod, fn = ENGINES[a.prop]
    try:
        m = importlib.import_module(f"harness.{mod}")
        if a.replay:
            return getattr(m, "replay")(a.prop, a.replay)
        return getattr(m, fn)(a.prop, a.tier)
    except C.MachineryError as ex:
        print(f"MACHINERY-FAILURE property={a.prop}: {ex}", file=sys.stderr)
        return C.EXIT_MACHINERY
    except Exception:
        traceback.print_exc()
        print(f"MACHINERY-FAILURE property={a.prop}: unexpected exception in the rig", file=sys.stderr)
        return C.EXIT_MACHINERY


if __name__ == "__main__":
    sys.exit(main())
