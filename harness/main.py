"""Entry point: ./check <property> [--tier quick|thorough] [--replay path]"""
from __future__ import annotations

import argparse
import importlib
import os
import sys
import traceback

from . import common as C

ENGINES = {
    "C01": ("eng_wire", "run"),
    "C02": ("eng_wire", "run"),
    "C03": ("eng_asm", "run"),
    "C04": ("eng_machine", "run"),
    "C05": ("eng_host", "run"),
    "C06": ("eng_c06", "run"),
    "C07": ("eng_nv", "run"),
    "C08": ("eng_c08", "run"),
    "C09": ("eng_c09", "run"),
    "C10": ("eng_c10", "run"),
    "C11": ("eng_c11", "run"),
    "C12": ("eng_epr", "run"),
    "C13": ("eng_ctrl", "run"),
    "C14": ("eng_c14", "run"),
    "C15": ("eng_msg", "run"),
    "C16": ("eng_range", "run"),
    "C17": ("eng_text", "run"),
    "C18": ("eng_hub", "run"),
    "C19": ("eng_angle", "run"),
    "C20": ("eng_toolbox", "run"),
}


def replay(m, prop: str, path: str) -> int:
    """Print the stored failing case and, where the engine can re-decide a single case,
    run it again on the current working tree: exit 1 if it still fails, 0 if it no longer
    does, 2 if this engine can only re-decide by running the whole check."""
    import json
    import shutil
    d = json.load(open(path))
    print(f"replay of {d.get('property')} clause={d.get('clause')} (found with seed {d.get('seed')}, tier {d.get('tier')})")
    print(f"  witness: {json.dumps(d.get('witness'), sort_keys=True)}")
    print(f"  detail : {str(d.get('detail'))[:1500]}")
    fn = getattr(m, "replay_case", None)
    if fn is None or d.get("case") is None:
        print(f"  this engine re-decides cases only as part of the whole check: run ./check {prop} --tier {d.get('tier', 'quick')}")
        return C.EXIT_MACHINERY
    tmp = C.tmpdir()
    try:
        clause = fn(prop, d["case"], tmp)
    finally:
        shutil.rmtree(tmp, ignore_errors=True)
    if clause:
        print(f"VIOLATION property={prop} replay={path}")
        print(f"  re-decided on the current tree: {clause}")
        return 1
    print("  re-decided on the current tree: the case is accepted")
    return 0


def _violations_before_failure(prop: str, tier: str, why: str) -> int:
    """The rig failed part-way.  Definite violations (not listed as known findings) that were established BEFORE the
    failure are still reported (exit 1); without any, the run is a machinery failure (exit 2)."""
    v = C.LAST_VERDICTS
    if v is None or v.prop != prop or not v.has_new():
        return C.EXIT_MACHINERY
    v.notes.append(f"the check did not run to its end ({why[:300]}); the violations below were established before that")
    return v.finish("exploration", {"evaluations": len(v.violations), "incomplete": True, "reason": why[:300]}, ["incomplete run: see notes"])


def main() -> int:
    import faulthandler
    import signal
    faulthandler.register(signal.SIGUSR1, all_threads=True)      # kill -USR1 <pid> dumps the stacks of a stuck check
    ap = argparse.ArgumentParser()
    ap.add_argument("prop")
    ap.add_argument("--tier", default=os.environ.get("VERIF_TIER", "quick"), choices=["quick", "thorough"])
    ap.add_argument("--replay", default=None)
    a = ap.parse_args()
    if a.prop not in ENGINES:
        print(f"no engine for {a.prop}", file=sys.stderr)
        return C.EXIT_MACHINERY
    mod, fn = ENGINES[a.prop]
    try:
        m = importlib.import_module(f"harness.{mod}")
        if a.replay:
            return replay(m, a.prop, a.replay)
        return getattr(m, fn)(a.prop, a.tier)
    except C.MachineryError as ex:
        print(f"MACHINERY-FAILURE property={a.prop}: {ex}", file=sys.stderr)
        return _violations_before_failure(a.prop, a.tier, str(ex))
    except Exception:
        traceback.print_exc()
        print(f"MACHINERY-FAILURE property={a.prop}: unexpected exception in the rig", file=sys.stderr)
        return _violations_before_failure(a.prop, a.tier, "unexpected exception in the rig")


if __name__ == "__main__":
    sys.exit(main())
