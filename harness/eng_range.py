"""C16: operands the format cannot represent are rejected, never silently altered."""
from __future__ import annotations

import json
import shutil

from . import common as C
from . import isa

from netqasm.lang.parsing.binary import deserialize
from netqasm.lang.parsing.text import parse_text_subroutine
from netqasm.lang.subroutine import Subroutine

PATHS = ("direct", "direct-in-program", "text", "text-in-program", "text+nv-transpiler", "text+nv-transpiler-others-zero", "setter", "instantiate", "template", "template-numpy-integer", "sdk", "sdk-array-index", "sdk-until-bound", "sdk-loop-bound")
CLASSICAL = ("jmp", "bez", "bnz", "beq", "bne", "blt", "bge", "set", "add", "sub", "addm", "subm", "store", "load", "lea", "undef", "array", "ret_reg", "ret_arr")
ASSUME = [
    "one out-of-range operand per vector, the others at in-range base values; alone in its subroutine or between two in-range `set` instructions",
    "paths: direct construction; the text assembler; the text assembler followed by the NV transpiler (classical and branch instructions); Subroutine.app_id setter and Subroutine.instantiate(app_id) for the app id; a Template operand filled in by instantiate() for immediates of rotations; the SDK (rot_X/Y/Z numerator and denominator, constants of add / array initial values, the connection's app id) up to the serialised message",
    "wide values cross the TLC boundary as base-2^15 limbs",
    "text path: the text is what the real printer prints for the out-of-range instruction object (e.g. 'set R16 5')",
]


def wide(w) -> int:
    v = 0
    for i, l in enumerate(w["limbs"]):
        v += l << (15 * i)
    return -v if w["neg"] else v


def side(kind, val):
    return "below" if val < 0 else "above"


def describe(b: bytes, fl: str) -> str:
    try:
        d = deserialize(b, flavour=isa.FLAVOURS[fl]())
        return f"app_id={d.app_id} " + "; ".join(str(i) for i in d.instructions)
    except Exception as ex:
        return f"(bytes {b.hex()} do not decode: {type(ex).__name__})"


def attempt(path: str, v, cls, val):
    """Push the vector through the named path up to bytes(). Returns
    ('reject', msg) or ('bytes', description of the program the bytes denote)."""
    ops = list(v["ops"])
    app = 0
    if v["kind"] == "app":
        app = val
    elif v["kind"] == "reg":
        ops[v["pos"] - 1] = (ops[v["pos"] - 1] // 16, val)
    else:
        ops[v["pos"] - 1] = val
    if path in ("setter", "instantiate", "template", "template-numpy-integer", "sdk", "sdk-array-index", "sdk-until-bound", "sdk-loop-bound"):
        return attempt_other(path, v, cls, val, ops)
    if path == "text+nv-transpiler-others-zero":
        # the other immediates of the instruction are zero (a rotation by zero sixteenths, say): the operand under test is
        # still what the program says
        ops = [0 if (k == "i" and j != v["pos"] - 1) else o for j, (k, o) in enumerate(zip(isa.operand_kinds(v["shape"]), ops))]
    try:
        instr = isa.build(cls, v["shape"], ops)
        if path == "direct":
            b = bytes(Subroutine(instructions=[instr], app_id=app, netqasm_version=(0, 0)))
        elif path == "direct-in-program":
            # the instruction is neither the first nor the last of its subroutine (a check that looks at one end only is not enough)
            pre, post = _padding(v["fl"])
            b = bytes(Subroutine(instructions=[pre, instr, post], app_id=app, netqasm_version=(0, 0)))
        else:
            text = f"# NETQASM 0.0\n# APPID {app}\n{instr}\n"
            if path == "text-in-program":
                pre, post = _padding(v["fl"])
                text = f"# NETQASM 0.0\n# APPID {app}\n{pre}\n{instr}\n{post}\n"
            sub = parse_text_subroutine(text, flavour=isa.FLAVOURS[v["fl"]]())
            if path in ("text+nv-transpiler", "text+nv-transpiler-others-zero"):
                # the assembled (vanilla) subroutine goes through the NV transpiler before it is serialised
                from netqasm.sdk.transpile import NVSubroutineTranspiler
                sub = NVSubroutineTranspiler(sub).transpile()
                return "bytes", describe(bytes(sub), "nv")
            b = bytes(sub)
    except Exception as ex:
        return "reject", f"{type(ex).__name__}: {ex}"[:160]
    return "bytes", describe(b, v["fl"])


def _padding(fl: str):
    """Two in-range instructions of the flavour, to stand before and after the one under test."""
    cl = {c.mnemonic: c for c in isa.classes(fl)}
    return isa.build(cl["set"], "RegImm", [(0, 1), 1]), isa.build(cl["set"], "RegImm", [(0, 2), 2])


def applicable(path: str, v) -> bool:
    if path in ("direct", "text"):
        return True
    if path in ("direct-in-program", "text-in-program"):
        return v["kind"] != "app"           # (the app id belongs to the subroutine, not to a position in it)
    if path == "text+nv-transpiler":
        return v["fl"] == "vanilla" and (v["mn"] in CLASSICAL or v["mn"] in ("rot_x", "rot_y", "rot_z"))
    if path == "text+nv-transpiler-others-zero":
        return v["fl"] == "vanilla" and v["kind"] == "imm" and v["mn"] in ("rot_x", "rot_y", "rot_z")
    if path in ("setter", "instantiate"):
        return v["kind"] == "app"
    if path in ("template", "template-numpy-integer"):
        return v["kind"] == "imm" and v["shape"] == "RegImmImm"
    if path in ("sdk-array-index", "sdk-until-bound", "sdk-loop-bound"):
        return v["fl"] == "vanilla" and v["kind"] == "int" and v["mn"] == "set"
    if path == "sdk":
        return (v["kind"] == "app") or (v["fl"] == "vanilla" and ((v["kind"] == "imm" and v["mn"] in ("rot_x", "rot_y", "rot_z")) or (v["kind"] == "int" and v["mn"] == "set")))
    return False


def attempt_other(path, v, cls, val, ops):
    from netqasm.backend.messages import deserialize_host_msg
    from netqasm.lang.operand import Template
    try:
        if path == "setter":
            sub = Subroutine(instructions=[isa.build(cls, v["shape"], ops)], app_id=0, netqasm_version=(0, 0))
            sub.app_id = val
            b = bytes(sub)
        elif path == "instantiate":
            sub = Subroutine(instructions=[isa.build(cls, v["shape"], ops)], app_id=0, netqasm_version=(0, 0))
            sub.instantiate(app_id=val, arguments={})
            b = bytes(sub)
        elif path in ("template", "template-numpy-integer"):
            if path == "template-numpy-integer":
                # the value comes out of a numpy computation (an integer type that is not `int`)
                import numpy as np
                if not -2**63 <= val < 2**63:
                    return "reject", "beyond numpy's widest integer"
                val = np.int64(val)
            base = list(ops)
            base[v["pos"] - 1] = 1
            instr = isa.build(cls, v["shape"], base)
            setattr(instr, "imm0" if v["pos"] == 2 else "imm1", Template("t"))
            sub = Subroutine(instructions=[instr], app_id=0, netqasm_version=(0, 0))
            sub.instantiate(app_id=0, arguments={"t": val})
            b = bytes(sub)
        else:
            from netqasm.sdk.connection import BaseNetQASMConnection, DebugConnection
            from netqasm.sdk.qubit import Qubit
            from netqasm.sdk.shared_memory import SharedMemoryManager
            SharedMemoryManager.reset_memories()
            BaseNetQASMConnection._app_ids.clear()
            BaseNetQASMConnection._app_names.clear()
            DebugConnection.node_ids = {"alice": 0}
            if v["kind"] == "app":
                conn = DebugConnection("alice", app_id=val)
                Qubit(conn)
            else:
                conn = DebugConnection("alice")
                if v["kind"] == "imm":
                    q = Qubit(conn)
                    n, d = (val, 2) if v["pos"] == 2 else (1, val)
                    getattr(q, {"rot_x": "rot_X", "rot_y": "rot_Y", "rot_z": "rot_Z"}[v["mn"]])(n=n, d=d)
                elif path == "sdk-until-bound":
                    # the value as the bound of a repeat-until exit condition ("at most val")
                    from netqasm.sdk.constraint import ValueAtMostConstraint
                    with conn.loop_until(2) as loop:
                        q = Qubit(conn)
                        m_ = q.measure()
                        loop.set_exit_condition(ValueAtMostConstraint(m_, val))
                elif path == "sdk-loop-bound":
                    # the value as the bound of a counted loop (either side of its start: a loop that runs, a loop that does not)
                    arr = conn.new_array(1, init_values=[0])
                    with conn.loop(val) as i_:
                        arr.get_future_index(0).add(1)
                elif path == "sdk-array-index":
                    # the value as a CONSTANT INDEX of an array entry (materialised by a `set` like any other constant)
                    arr = conn.new_array(2, init_values=[0, 1])
                    arr.get_future_index(val).add(1)
                else:
                    arr = conn.new_array(2, init_values=[val, 1])
                    arr.get_future_index(1).add(val)
            conn.flush()
            subs = []
            for raw in conn.storage:
                m = deserialize_host_msg(raw)
                if type(m).__name__ == "SubroutineMessage":
                    subs.append(bytes(m.subroutine) if not isinstance(m.subroutine, (bytes, bytearray)) else bytes(m.subroutine))
            b = subs[-1] if subs else b""
            if not subs:
                return "reject", "no subroutine was sent"
    except Exception as ex:
        return "reject", f"{type(ex).__name__}: {ex}"[:160]
    return "bytes", describe(b, v["fl"])


def run(prop: str, tier: str) -> int:
    V = C.Verdicts(prop, tier)
    tmp = C.tmpdir()
    try:
        table = isa.extract_table()
        tp, out = f"{tmp}/table.json", f"{tmp}/vecs.ndjson"
        json.dump(table, open(tp, "w"))
        r = C.run_tlc("RangeMC", env={"VERIF_TABLE": tp, "VERIF_OUT": out}, coverage=True, workers=1)
        if r.violated:
            raise C.MachineryError(f"RangeMC: {r.violated}")
        if min(r.coverage.get(a, 0) for a in ("EncodeOK", "Reject")) == 0:
            raise C.MachineryError(f"vacuous TLC run {r.coverage}")
        rows = C.read_ndjson(out)
        clss = {fl: isa.classes(fl) for fl in isa.FLAVOURS}
        evals, nontriv, controls_ok, rejected_ok = 0, set(), 0, 0
        cells = {}
        for row in rows:
            v = row["v"]
            cls = clss[v["fl"]][v["n"] - 1]
            val = wide(v["w"])
            for path in PATHS:
                if not applicable(path, v):
                    continue
                if path == "text+nv-transpiler" and row["expect"] == "bytes" and v["mn"] in ("jmp", "bez", "bnz", "beq", "bne", "blt", "bge"):
                    continue        # (a lone branch with an in-range target past the end has nothing to be retargeted to: not a control)
                if path == "sdk-until-bound" and -2**31 <= val + 1 < 2**31:
                    continue        # ("at most val" is compiled as "less than val + 1": that constant is the operand, and it is in range)
                if path in ("template-numpy-integer", "sdk-until-bound") and row["expect"] == "bytes":
                    continue        # (this tree accepts only builtin ints there: no in-range control on this path)
                got, info = attempt(path, v, cls, val)
                evals += 1
                if row["expect"] == "bytes":
                    if got == "bytes":
                        controls_ok += 1
                    else:
                        V.notes.append(f"in-range control rejected ({path} {v['mn']} {v['kind']}={val}): {info}")
                    continue
                nontriv.add((path, v["fl"], v["mn"], v["pos"], val))
                key = (path, v["kind"], side(v["kind"], val), "far" if abs(val) >= 2**33 else "near")
                cells.setdefault(key, {"reject": 0, "bytes": 0})[got] += 1
                if got == "reject":
                    rejected_ok += 1
                else:
                    V.add("silently-altered",
                          {"path": path, "kind": v["kind"], "side": side(v["kind"], val), "shape": v["shape"], "pos": v["pos"]},
                          f"{path}: {v['mn']} operand {v['pos']} ({v['kind']}) = {val} was encoded; the bytes denote: {info}", row)
        if controls_ok == 0:
            raise C.MachineryError("no in-range control was encoded: the rig cannot tell rejection from a broken path")
        cov = {
            "states": r.distinct, "transitions": r.generated,
            "traces_validated_against_impl": evals, "evaluations": evals, "distinct_nontrivial": len(nontriv),
            "rule": "vector = (path, flavour, class, operand position, out-of-range value); non-trivial = value outside the representable range (in-range controls are counted separately)",
            "samples": [rows[1], rows[len(rows) // 2]],
            "controls_encoded": controls_ok, "out_of_range_rejected": rejected_ok,
            "outcome_by_cell": {"/".join(k): c for k, c in sorted(cells.items())},
            "tlc_action_coverage": r.coverage, "exhaustive": False, "checker_cmd": r.cmd,
        }
        return V.finish("model_checking", cov, ASSUME)
    finally:
        shutil.rmtree(tmp, ignore_errors=True)
