"""C19: float angles are approximated within tolerance by encodable rotations."""
from __future__ import annotations

import math
import os
import random
import shutil
from fractions import Fraction
from typing import Any, Dict, List

from . import common as C

ASSUME = [
    "TLC decides integer bounds and a fixed-point inequality (resolution 2^-45 of a half turn); it does not reason about IEEE-754: the floating-point function is sampled, and x = angle/pi mod 2 is computed by the rig with exact rational arithmetic from the float's exact value and a 60-digit value of pi",
    "the acceptance margin is tol + 2^-40 half turns to absorb the fixed-point resolution",
]

PI = Fraction("3.14159265358979323846264338327950288419716939937510582097494")


def limbs(fr: Fraction) -> List[int]:
    """fraction in [0,2) -> 4 limbs base 2^15 (truncated)"""
    v = int(fr * (1 << 45))
    return [(v >> 45) & 1, (v >> 30) & 0x7FFF, (v >> 15) & 0x7FFF, v & 0x7FFF]


def case(i, prop, angle: float, tol: float, steps) -> Dict[str, Any]:
    x = (Fraction(angle) / PI) % 2
    t = Fraction(tol) / PI + Fraction(1, 1 << 40)
    return {"id": i, "prop": prop, "x": limbs(x), "tol": limbs(t), "steps": [[int(n), int(d)] for n, d in steps],
            "angle": repr(angle), "tolerance": repr(tol)}


def angles(tier: str, rng: random.Random):
    A: List[float] = []
    pi = math.pi
    A += [0.0, pi, -pi, 2 * pi, -2 * pi, 4 * pi, 7 * pi + 0.1, -0.3, 0.3, 1e-3, -1e-3, 1e-5, 2 * pi - 1e-5, 2 * pi + 1e-5, 2 * pi - 1e-9, 1e-9,
          pi / 2, pi / 4, 3 * pi / 2, pi / 256, 255 * pi / 256, pi * (1 + 2**-28), pi * (0.5 + 2**-27), -pi * (1 - 2**-26), 100.0, -100.0, 12345.678]
    for k in range(0, 33):
        A += [pi / 2**k, -pi / 2**k, pi * (1 + 2.0**-k), 3 * pi / 2**k]
    n = 400 if tier == "quick" else 30000
    A += [rng.uniform(-4 * pi, 4 * pi) for _ in range(n)]
    A += [rng.uniform(0, 1e-3) for _ in range(n // 10)]
    return A


def run(prop: str, tier: str) -> int:
    from netqasm.sdk.toolbox.state_prep import get_angle_spec_from_float
    V = C.Verdicts(prop, tier)
    tmp = C.tmpdir()
    try:
        rng = random.Random(C.seed() * 131 + 7)
        tols = [1e-1, 1e-2, 1e-3, 1e-4, 1e-5, 1e-6, 1e-7, 1e-8, 1e-9]
        rows = []
        for a in angles(tier, rng):
            # a sequence of calls on the same angle with finer and finer tolerance, then coarser again
            order = tols if rng.random() < 0.5 else list(reversed(tols))
            for tol in (order if tier == "thorough" else order[::2] + [1e-4]):
                try:
                    steps = get_angle_spec_from_float(a, tol=tol)
                except Exception as ex:
                    V.add("raises", {"kind": type(ex).__name__}, f"angle {a!r} tol {tol!r}: {ex}")
                    continue
                rows.append(case(len(rows) + 1, prop, a, tol, steps))
        # the builder's path: q.rot_X/Y/Z(angle=...) with the default tolerance, through the real SDK, real bytes and the
        # real controller: the rotations that were EXECUTED on the qubit are the steps
        import inspect
        import logging
        logging.disable(logging.CRITICAL)
        from . import rig
        from netqasm.sdk.build_types import NVHardwareConfig
        from netqasm.sdk.qubit import Qubit
        dtol = inspect.signature(get_angle_spec_from_float).parameters["tol"].default
        sdk_angles = [a for a in angles(tier, random.Random(C.seed() * 17 + 3))][: (300 if tier == "quick" else 10000)]
        sdk_angles += [2 * math.pi - e for e in (1e-3, 1e-4, 5e-5, 2e-5, 1e-5, 1e-6, 1e-7)] + [-e for e in (1e-4, 2e-5, 1e-6)] + [k_ * 2 * math.pi + s_ * e_ for k_ in (0, 1, 2, -1) for s_ in (1, -1) for e_ in (1.5e-4, 3e-4, 5e-4, 9e-4)] + \
            [math.pi, math.pi, math.pi, math.pi + 0.01, math.pi + 0.01, math.pi + 0.01, 3 * math.pi + 0.005, -math.pi + 0.015, math.pi + 0.02, math.pi + 0.02] + \
            [-7.0, -5 * math.pi / 2, -4 * math.pi - 0.3, -100.0, -2 * math.pi - 1e-3, 100.0, 7.0] + \
            [4 * math.pi - 1e-6, math.pi - 1e-6, math.pi + 1e-6, 0.0, 0.0, 0.0, -0.0, -0.0, -0.0, 2 * math.pi, 2 * math.pi, 2 * math.pi]
        nsdk = 0
        from netqasm.logging.glob import set_log_level
        devnull = open(os.devnull, "w")
        for j, a in enumerate(sdk_angles):
            axis = ("rot_X", "rot_Y", "rot_Z")[j % 3]
            try:
                # generic hardware, and the NV hardware configuration (simulation: no restriction to multiples of pi/16)
                nvcfg = j % 4 == 3
                # every fifth rotation with the package's logger at DEBUG (the documented way to get debug output; the
                # records go to a null stream): what is emitted may not depend on the log level
                debug = j % 5 == 4
                if debug:
                    logging.disable(logging.NOTSET)
                    nlog = logging.getLogger("NetQASM")
                    saved = (nlog.level, [(h, h.stream) for h in nlog.handlers if isinstance(h, logging.StreamHandler)])
                    for h, _ in saved[1]:
                        h.setStream(devnull)
                    set_log_level("DEBUG")
                try:
                    nvt = j % 4 == 1       # compiled by the NV transpiler (simulation: rotations pass through, whole turns may be dropped)
                    if nvt:
                        from netqasm.sdk.transpile import NVSubroutineTranspiler
                        conn = rig.VConnection("alice", max_qubits=2, nv=True, compiler=NVSubroutineTranspiler)
                    else:
                        conn = rig.VConnection("alice", max_qubits=2, **({"hardware_config": NVHardwareConfig(2)} if nvcfg else {}))
                    q = Qubit(conn)
                    # (n, d) are documented to be ignored whenever `angle` is given: every third call passes both
                    getattr(q, axis)(angle=a, **({"n": 1 + j % 3, "d": 1 + j % 2} if j % 3 == 1 else {}))
                    conn.flush()
                finally:
                    if debug:
                        nlog.setLevel(saved[0])
                        for h, st in saved[1]:
                            h.setStream(st)
                        logging.disable(logging.CRITICAL)
                steps = [(g[2][0], g[2][1]) for g in conn.ex.gate_log if g[0] == axis.lower()]
            except Exception as ex:
                V.add("sdk-rotation-raises", {"kind": type(ex).__name__}, f"q.{axis}(angle={a!r}): {type(ex).__name__}: {str(ex)[:160]}")
                continue
            nsdk += 1
            row = case(len(rows) + 1, prop, a, dtol, steps)
            row["via"] = axis + ("/nv-config" if nvcfg else "") + ("/nv-transpiler" if j % 4 == 1 else "") + ("/debug-log" if debug else "")
            rows.append(row)
        res = C.run_tlc_sharded("AngleTrace", rows, tmp, shards=C.ncpu())
        bad = {}
        for v in res.verdicts:
            bad.setdefault(v[2], v)
        by = {r["id"]: r for r in rows}
        if set(by) - set(res.ok_ids) - set(bad):
            raise C.MachineryError("AngleTrace gave no verdict for some cases")
        for i, v in sorted(bad.items()):
            r = by[i]
            a, tol = float(r["angle"]), float(r["tolerance"])
            approx = sum(Fraction(n) * Fraction(2) ** (-d) for n, d in r["steps"])      # (a reported step may have any exponent, also a negative one)
            err = abs(float(((approx - Fraction(a) / PI + 1) % 2 - 1) * PI))
            V.add(v[1], {"sign": "negative" if a < 0 else "non-negative", "tol": r["tolerance"] if v[1] != "outside-tolerance" else
                         ("<=1e-6" if tol <= 1e-6 else ">1e-6"), "error_over_tol": "<=pi" if err <= math.pi * tol * 1.0001 else ">pi"},
                  f"angle {r['angle']} tol {r['tolerance']}: steps {r['steps']} give an error of {err:.3e} rad = {err / tol:.3f} x tol", r)
        # binding self-test
        g = dict(by[res.ok_ids[0]]); g["id"] = 1
        g = {**g, "steps": g["steps"] + [[1, 2]]}
        r3 = C.run_tlc_sharded("AngleTrace", [g], tmp, shards=1, tag="self")
        if not r3.verdicts:
            raise C.MachineryError("binding self-test: a step list that is pi/4 off was accepted")
        cov = {
            "evaluations": len(rows), "distinct_nontrivial": len({(r["angle"], r["tolerance"]) for r in rows if r["steps"]}),
            "rule": "case = (float angle, tolerance) with the steps the real function returned, accepted or rejected by the TLC-evaluated fixed-point predicate; non-trivial = at least one step; angles: negative, beyond 2 pi, dyadic multiples of pi down to pi/2^32, within tolerance of 0 and 2 pi, random; tolerances 1e-1..1e-9 in ascending and descending call order",
            "sdk_rotations_executed": nsdk,
            "samples": rows[:2] + rows[-1:], "states": res.distinct, "transitions": res.generated,
            "selftest": "step list off by pi/4 rejected", "exhaustive": False, "checker_cmd": res.cmd,
        }
        return V.finish("exploration", cov, ASSUME)
    finally:
        shutil.rmtree(tmp, ignore_errors=True)
