"""Reflection over the working tree's instruction classes and construction of
real instruction objects from the specification's abstract vectors."""
from __future__ import annotations

from typing import Any, Dict, List, Tuple

from netqasm.lang import operand as O
from netqasm.lang.encoding import RegisterName
from netqasm.lang.instr import base, flavour as F

SHAPE_OF_BASE = {
    "NoOperandInstruction": "NoOp",
    "RegInstruction": "Reg",
    "RegRegInstruction": "RegReg",
    "RegImmImmInstruction": "RegImmImm",
    "RegRegImmImmInstruction": "RegRegImmImm",
    "RegRegImm4Instruction": "RegRegImm4",
    "RegRegRegInstruction": "RegRegReg",
    "RegRegRegRegInstruction": "RegRegRegReg",
    "ImmInstruction": "Imm",
    "ImmImmInstruction": "ImmImm",
    "RegRegImmInstruction": "RegRegImm",
    "RegImmInstruction": "RegImm",
    "RegEntryInstruction": "RegEntry",
    "RegAddrInstruction": "RegAddr",
    "ArrayEntryInstruction": "ArrayEntry",
    "ArraySliceInstruction": "ArraySlice",
    "AddrInstruction": "Addr",
    "Reg5Instruction": "Reg5",
}

FLAVOURS = {"vanilla": F.VanillaFlavour, "nv": F.NVFlavour, "reids": F.REIDSFlavour}


def shape_of(cls) -> str:
    for b in cls.__mro__:
        if b.__module__ == base.__name__ and b.__name__ in SHAPE_OF_BASE:
            return SHAPE_OF_BASE[b.__name__]
    raise KeyError(f"no base shape for {cls}")


def classes(fl: str) -> List[type]:
    """Classes of the flavour in table order: core list, then the flavour's own."""
    f = FLAVOURS[fl]()
    return list(F.CORE_INSTRUCTIONS) + list(f.instrs)


def extract_table() -> Dict[str, List[Dict[str, Any]]]:
    out = {}
    for fl in FLAVOURS:
        out[fl] = [{"mn": c.mnemonic, "op": c.id, "shape": shape_of(c)} for c in classes(fl)]
    return out


BANKS = [RegisterName.R, RegisterName.C, RegisterName.Q, RegisterName.M]


def reg(code) -> O.Register:
    if isinstance(code, tuple):  # (bank, raw index): used to build out-of-range registers
        return O.Register(BANKS[code[0]], code[1])
    return O.Register(BANKS[code // 16], code % 16)


def reg_code(r: O.Register) -> int:
    return BANKS.index(r.name) * 16 + r.index


def kwargs(shape: str, ops: List[int]) -> Dict[str, Any]:
    """Constructor keyword arguments (dataclass field values) for a shape."""
    R, I = reg, O.Immediate
    if shape == "NoOp":
        return {}
    if shape == "Reg":
        return dict(reg=R(ops[0]))
    if shape == "RegReg":
        return dict(reg0=R(ops[0]), reg1=R(ops[1]))
    if shape == "RegImmImm":
        return dict(reg=R(ops[0]), imm0=I(ops[1]), imm1=I(ops[2]))
    if shape == "RegRegImmImm":
        return dict(reg0=R(ops[0]), reg1=R(ops[1]), imm0=I(ops[2]), imm1=I(ops[3]))
    if shape == "RegRegImm4":
        return dict(reg0=R(ops[0]), reg1=R(ops[1]), imm0=I(ops[2]), imm1=I(ops[3]), imm2=I(ops[4]), imm3=I(ops[5]))
    if shape == "RegRegReg":
        return dict(reg0=R(ops[0]), reg1=R(ops[1]), reg2=R(ops[2]))
    if shape == "RegRegRegReg":
        return dict(reg0=R(ops[0]), reg1=R(ops[1]), reg2=R(ops[2]), reg3=R(ops[3]))
    if shape == "Imm":
        return dict(imm=I(ops[0]))
    if shape == "ImmImm":
        return dict(imm0=I(ops[0]), imm1=I(ops[1]))
    if shape == "RegRegImm":
        return dict(reg0=R(ops[0]), reg1=R(ops[1]), imm=I(ops[2]))
    if shape == "RegImm":
        return dict(reg=R(ops[0]), imm=I(ops[1]))
    if shape == "RegEntry":
        return dict(reg=R(ops[0]), entry=O.ArrayEntry(O.Address(ops[1]), R(ops[2])))
    if shape == "RegAddr":
        return dict(reg=R(ops[0]), address=O.Address(ops[1]))
    if shape == "ArrayEntry":
        return dict(entry=O.ArrayEntry(O.Address(ops[0]), R(ops[1])))
    if shape == "ArraySlice":
        return dict(slice=O.ArraySlice(O.Address(ops[0]), R(ops[1]), R(ops[2])))
    if shape == "Addr":
        return dict(address=O.Address(ops[0]))
    if shape == "Reg5":
        return dict(reg0=R(ops[0]), reg1=R(ops[1]), reg2=R(ops[2]), reg3=R(ops[3]), reg4=R(ops[4]))
    raise KeyError(shape)


KINDS = {"NoOp": "", "Reg": "r", "RegReg": "rr", "RegImmImm": "rii", "RegRegImmImm": "rrii", "RegRegImm4": "rriiii", "RegRegReg": "rrr",
         "RegRegRegReg": "rrrr", "Imm": "i", "ImmImm": "ii", "RegRegImm": "rri", "RegImm": "ri", "RegEntry": "rar", "RegAddr": "ra",
         "ArrayEntry": "ar", "ArraySlice": "arr", "Addr": "a", "Reg5": "rrrrr"}


def operand_kinds(shape: str) -> List[str]:
    """kind of every flattened operand position: r(egister), i(mmediate), a(ddress)"""
    return list(KINDS[shape])


def build(cls, shape: str, ops: List[int]):
    """Real instruction object of class cls from abstract operand values."""
    return cls(**kwargs(shape, ops))


def mutate(instr, shape: str, ops: List[int]):
    """Overwrite the operands of an existing instruction object in place (what
    the NV transpiler and the label pass do to surviving instructions)."""
    for k, v in kwargs(shape, ops).items():
        setattr(instr, k, v)
    return instr


def flatten(instr) -> Tuple[str, List[int]]:
    """Abstract form (mnemonic, operand values) of a real instruction object,
    read through the public `operands` property."""
    vals: List[int] = []
    for op in instr.operands:
        if isinstance(op, O.Register):
            vals.append(reg_code(op))
        elif isinstance(op, O.Immediate):
            vals.append(op.value)
        elif isinstance(op, O.Address):
            vals.append(op.address)
        elif isinstance(op, O.ArrayEntry):
            vals += [op.address.address, reg_code(op.index)]
        elif isinstance(op, O.ArraySlice):
            vals += [op.address.address, reg_code(op.start), reg_code(op.stop)]
        else:
            raise TypeError(f"unexpected operand {op!r}")
    return instr.mnemonic, vals
