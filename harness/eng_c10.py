"""C10: entanglement looks like Phi+ whatever Bell state the link delivered.

code -> spec: the real SDK builds the request (every keep-type API variant),
the real controller/executor runs it against a scripted link that delivers a
chosen Bell state per pair; the gate log of the executor (physical qubits)
with the deliveries in place is a trace of spec/BellFrame.tla, which TLC
validates (Pauli frames).  Measure-directly: the real create_measure /
recv_measure results for every Bell state x named basis x raw outcome pair
are judged by the stabiliser statistics of BellFrame.tla.
"""
from __future__ import annotations

import dataclasses
import hashlib
import itertools
import json
import random
import shutil
from concurrent.futures import ProcessPoolExecutor
from typing import Any, Dict, List

from . import common as C

ASSUME = [
    "the link delivers the pairs of one request one after the other, each as soon as the subroutine waits; it reports the Bell state it produced truthfully",
    "Bell-state numbering and the X/Z meaning of a rotation by pi (16*pi/2^4) are pinned in spec/BellFrame.tla",
    "the application's own operation in a post routine is a Hadamard or a measurement; bystander qubits are not touched by the application during the request",
    "NV = NVHardwareConfig (one communication qubit) without the NV transpiler, so that the executor's log shows the SDK's own instructions",
]
BASES = ["X", "Y", "Z", "MX", "MY", "MZ"]
VARIANTS = ["keep", "keep_info", "post_h", "post_m", "seq", "seq_ff", "rsp", "rsp_info"]


def frame_cases(tier: str, rng: random.Random) -> List[Dict[str, Any]]:
    out = []
    nmax = 3 if tier == "quick" else 4
    for variant in VARIANTS:
        for nv in (False, True):
            if nv and variant == "post_h":
                continue            # one communication qubit: the next pair can only arrive once the previous is measured
            for role in ("recv", "create"):
                if role == "create" and variant.startswith("rsp"):
                    continue        # the creator of a remote state preparation keeps no qubit
                for expect in (True, False):
                    if role == "create" and not expect:
                        continue    # creators have no such switch
                    for n in range(1, nmax + 1):
                        tuples = list(itertools.product(range(4), repeat=n))
                        if role == "create" or not expect:
                            tuples = rng.sample(tuples, min(len(tuples), 6))
                        for bells in tuples:
                            bys = (0, 1) if (n >= 3 or role == "create" or not expect) else (0, 1, 2)
                            for by in bys:
                                if nv and n + by > 5:
                                    continue
                                if variant == "seq_ff" and by == 0:
                                    continue        # the feed-forward acts on another live qubit
                                out.append(dict(kind="frame", variant=variant, nv=nv, role=role, expect=expect, n=n, bells=list(bells), by=by))
    # the link is ahead of the program: every response of the request is already waiting when the subroutine starts
    for n in (3, 4):
        tuples = list(itertools.product(range(4), repeat=n))
        for bells in rng.sample(tuples, min(len(tuples), 24 if tier == "quick" else 120)):
            out.append(dict(kind="frame", variant="post_h", nv=False, role="recv", expect=True, n=n, bells=list(bells), by=0, early=True))
    # the application's previous connection (same controller, same application id) left a kept pair behind when it closed
    for variant in ("keep", "post_h", "rsp"):
        for nv in (False, True):
            if nv and variant == "post_h":
                continue
            for n in (1, 2, 3):
                if variant in ("keep", "rsp") and n > 1:
                    continue        # (several pairs without a post routine: the recorded finding about corrections aimed at qubit 0)
                tuples = list(itertools.product(range(4), repeat=n))
                for bells in rng.sample(tuples, min(len(tuples), 8 if tier == "quick" else 32)):
                    out.append(dict(kind="frame", variant=variant, nv=nv, role="recv", expect=True, n=n, bells=list(bells), by=0, earlier_session=True))
    # the application holds a register of its own across subroutines and updates it in the post routine; a first receive in
    # a branch that is not taken, before the one that counts
    for pre, variant in (("held-register", "post_count"), ("skipped-receive", "post_m"), ("earlier-plain-request", "seq"), ("earlier-plain-request", "post_m"),
                         ("earlier-request-without-expectation", "seq"), ("earlier-request-without-expectation", "keep")):
        for n in (1, 2, 3):
            if variant == "keep" and n > 1:
                continue            # (several pairs without a post routine: the recorded finding about corrections aimed at qubit 0)
            tuples = list(itertools.product(range(4), repeat=n))
            for bells in rng.sample(tuples, min(len(tuples), 8 if tier == "quick" else 40)):
                out.append(dict(kind="frame", variant=variant, nv=False, role="recv", expect=True, n=n, bells=list(bells), by=0, pre=pre))
    # two applications on one controller, interleaved at every wait (and, as a control, one after the other)
    for variant in ("keep", "post_h"):
        for m in (1, 2):
            if variant == "keep" and m > 1:
                continue
            tuples = list(itertools.product(range(4), repeat=2 * m))
            for bells in rng.sample(tuples, min(len(tuples), 16 if tier == "quick" else 64)):
                for first in (0, 1):
                    out.append(dict(kind="frame", variant=variant, nv=False, role="recv", expect=True, n=2 * m, bells=list(bells), by=0, apps=2, first=first,
                                    interleave=(sum(bells) + first) % 4 != 0))
    # a request with a fidelity constraint whose first attempt is rejected (its last pair took too long): the pairs of the
    # rejected attempt are discarded, the pairs of the second attempt (pair numbers n..2n-1) are the ones that count
    for variant in ("retry_post_h", "retry_keep"):
        for nv in (False, True):
            if nv and variant == "retry_post_h":
                continue
            for role in ("recv", "create"):
                for n in (1, 2) if tier == "quick" else (1, 2, 3):
                    if variant == "retry_keep" and n > 1:
                        continue        # (several pairs without a post routine: the recorded finding about corrections aimed at qubit 0)
                    tuples = list(itertools.product(range(4), repeat=2 * n))
                    for bells in rng.sample(tuples, min(len(tuples), 16 if role == "recv" else 3)):
                        out.append(dict(kind="frame", variant=variant, nv=nv, role=role, expect=True, n=2 * n, bells=list(bells), by=0, tries=2))
    return out


def _frame_events(ex, mark, row, cur, faulted_correction):
    """the executed quantum history since `mark` as BellFrame events"""
    # the relocation of a bystander on single-communication-qubit hardware changes where it lives
    holds = set()          # physical qubits that hold a pair right now (a qfree of one of THOSE discards the pair)
    for g in ex.gate_log[mark:]:
        mn, virt, imm, phys = g[0], g[1], g[2], g[3]
        if mn == "deliver":
            holds.add(phys[0])
        elif mn == "mov":
            holds.discard(phys[0]); holds.add(phys[1])
        elif mn == "meas":
            holds.discard(phys[0])
        elif mn == "qfree":
            if phys[0] not in holds:
                continue            # the free that belongs to a destructive measurement or to a move
            holds.discard(phys[0])
        if mn == "deliver":
            row["events"].append(dict(a="deliver", p=virt[0], b=imm[0], q=phys[0], q2=0, ax=""))
        elif mn in ("rot_x", "rot_z") and tuple(imm) == (16, 4):
            row["events"].append(dict(a="pauli", p=0, b=0, q=phys[0], q2=0, ax="X" if mn == "rot_x" else "Z"))
        elif mn in ("x", "z"):
            row["events"].append(dict(a="pauli", p=0, b=0, q=phys[0], q2=0, ax=mn.upper()))
        elif mn == "mov":
            row["events"].append(dict(a="mov", p=0, b=0, q=phys[0], q2=phys[1], ax=""))
        elif mn == "meas":
            row["events"].append(dict(a="meas", p=0, b=0, q=phys[0], q2=0, ax=""))
        elif mn == "qfree":
            row["events"].append(dict(a="discard", p=0, b=0, q=phys[0], q2=0, ax=""))
        elif mn == "init":
            continue
        else:
            for q in phys:
                row["events"].append(dict(a="use", p=0, b=0, q=q, q2=0, ax=""))
    if faulted_correction:
        row["events"].append(dict(a="pauli", p=0, b=0, q=-1, q2=0, ax="X" if cur.mnemonic == "rot_x" else "Z"))


def _run_frame(item):
    from . import rig
    from netqasm.sdk.build_types import NVHardwareConfig
    from netqasm.sdk.epr_socket import EPRSocket
    from netqasm.sdk.qubit import Qubit
    i, c = item
    kw: Dict[str, Any] = {}
    if c["nv"]:
        kw["hardware_config"] = NVHardwareConfig(6)
    sock = EPRSocket("bob")
    ctrl0 = None
    if c.get("earlier_session"):
        # an earlier connection of the same application on the same controller: it receives one pair (Psi-: both
        # corrections), keeps the qubit until it closes
        s0 = EPRSocket("bob")
        c0 = rig.VConnection("alice", max_qubits=6, epr_sockets=[s0], **kw)
        c0.link = rig.AutoLink(c0.ex, c0.stack, bell=[3], stepwise=True)
        c0.link.remote.append(dict(remote=1, purpose=0, type="K", n=1))
        s0.recv_keep(1)
        c0.flush()
        c0.close()
        ctrl0 = c0.ctrl
    conn = rig.VConnection("alice", ctrl=ctrl0, successor=ctrl0 is not None, max_qubits=6, epr_sockets=[sock], **kw)
    ex = conn.ex
    ex.meas_script = [0, 1] * 20
    conn.link = rig.AutoLink(ex, conn.stack, bell=c["bells"], stepwise=True, mark=True)
    if c.get("earlier_session"):
        # this time the link uses other physical qubits, the later pair on the lower one
        conn.link.fields = lambda k_, kind_: {"logical_qubit_id": 7 - k_}
    if c.get("tries"):
        ex.log_qfree = True
        per = c["n"] // c["tries"]
        # the duration of the LAST pair of the first attempt makes the attempt fail
        conn.link.fields = lambda k_, kind_: {"goodness": 90000 if k_ == per - 1 else 100}
    row = dict(c, id=i, err="", fault=False, exc="", events=[], bystanders=[])
    try:
        bys = [Qubit(conn) for _ in range(c["by"])]
        if bys:
            conn.flush()
        held = skipped = None
        if c.get("pre") == "held-register":
            # the application keeps a classical register of its own across subroutines (a counter it updates on the controller)
            held = conn.builder.new_register()
            conn.flush()
        elif c.get("pre") in ("earlier-plain-request", "earlier-request-without-expectation"):
            # an earlier receive on the same socket and connection, in a subroutine of its own: a plain one-pair request (Psi-:
            # both corrections), or one with the expectation explicitly switched off; its qubit is measured
            conn.link.bell = [3]
            conn.link.remote.append(dict(remote=1, purpose=0, type="K", n=1))
            kw0 = {} if c["pre"] == "earlier-plain-request" else {"expect_phi_plus": False}
            sock.recv_keep(1, **kw0)[0].measure()
            conn.flush()
            conn.link.seq, conn.link.bell = 0, list(c["bells"])
        elif c.get("pre") == "skipped-receive":
            # an outcome known from an earlier subroutine (0) guards a first receive that is therefore never executed
            b0 = Qubit(conn)
            skipped = b0.measure()
            conn.flush()
        mark = len(ex.gate_log)
        um = ex._qubit_unit_modules.get(conn.app_id, [])
        row["bystanders"] = sorted(p for p in um if p is not None)
        n, variant, recv = c["n"], c["variant"], c["role"] == "recv"
        if recv:
            conn.link.remote.append(dict(remote=1, purpose=0, type="K", n=n))
        ek = dict(expect_phi_plus=c["expect"]) if recv else {}
        if recv and c["expect"] and str(c.get("pre", "")).startswith("earlier-"):
            ek = {}             # the request relies on the documented default (Phi+ expected)

        def post_h(conn_, q, pair):
            q.H()

        def post_count(conn_, q, pair):
            # counts the pairs on the controller, in the register the application holds; the qubit is left alone
            held.add(1)

        def post_m(conn_, q, pair):
            q.measure()

        if skipped is not None:
            with skipped.if_eq(1):
                sock.recv_keep(1, **({"post_routine": post_m} if variant == "post_m" else {}))

        def post_ff(conn_, q, pair):
            # classical feed-forward: a temporary register holds the outcome while the body runs
            m = q.measure()
            with m.if_eq(1):
                bys[0].H()

        if c.get("tries"):
            per = n // c["tries"]
            if recv:
                conn.link.remote[-1]["n"] = n
            kwr = dict(min_fidelity_all_at_end=80, max_tries=c["tries"] + 1)
            pr = {"retry_post_h": post_h, "retry_post_m": post_m}.get(variant)
            (sock.recv_keep if recv else sock.create_keep)(per, **({"post_routine": pr} if pr else {}), **kwr, **ek)
        elif variant == "seq_ff":
            ex.meas_script = [1, 0, 1, 1] * 10
            (sock.recv_keep if recv else sock.create_keep)(n, post_routine=post_ff, sequential=True, **ek)
        elif variant == "keep":
            (sock.recv_keep if recv else sock.create_keep)(n, **ek)
        elif variant == "keep_info":
            (sock.recv_keep_with_info if recv else sock.create_keep_with_info)(n, **ek)
        elif variant == "post_h":
            (sock.recv_keep if recv else sock.create_keep)(n, post_routine=post_h, **ek)
        elif variant == "post_count":
            (sock.recv_keep if recv else sock.create_keep)(n, post_routine=post_count, **ek)
        elif variant == "post_m":
            (sock.recv_keep if recv else sock.create_keep)(n, post_routine=post_m, **ek)
        elif variant == "seq":
            (sock.recv_keep if recv else sock.create_keep)(n, post_routine=post_m, sequential=True, **ek)
        elif variant == "rsp":
            sock.recv_rsp(n, **ek)
        elif variant == "rsp_info":
            sock.recv_rsp_with_info(n, **ek)
        if c.get("early"):
            conn.link.stepwise = False
            conn.link.on_wait()
        try:
            conn.flush()
        except (rig.ControllerFault, rig.Stuck) as exc:
            row["fault"] = True
            row["exc"] = str(exc)[:200]
            cur = getattr(ex, "current_cmd", None)
            imm = tuple(getattr(getattr(cur, a, None), "value", None) for a in ("angle_num", "angle_denom")) if cur is not None else ()
            # a correction aimed at a virtual qubit that does not exist is this property's business;
            # any other fault (qubit management, C09) is not judged here
            faulted_correction = isinstance(exc, rig.ControllerFault) and getattr(cur, "mnemonic", "") in ("rot_x", "rot_z") and imm == (16, 4)
        _frame_events(ex, mark, row, cur if row["fault"] else None, row["fault"] and faulted_correction)
    except Exception as exc:  # the SDK itself refused
        row["err"] = f"{type(exc).__name__}: {exc}"[:200]
    return row


def _run_frame_two(item):
    """two applications on one controller, each receiving pairs on its own socket; their subroutines are interleaved at every
    wait (a response arrives for the one that waits, then the other application runs)"""
    from . import rig
    from netqasm.backend import messages as M_
    from netqasm.sdk.epr_socket import EPRSocket
    i, c = item
    row = dict(c, id=i, err="", fault=False, exc="", events=[], bystanders=[])
    try:
        m = c["n"] // 2
        names = ("alice", "alice")         # (application ids are handed out per application name: 0 and 1)
        conns, socks = [], []
        for a_, name in enumerate(names):
            s_ = EPRSocket("bob", epr_socket_id=a_)
            cn = rig.VConnection(name, ctrl=conns[0].ctrl if conns else None, successor=bool(conns), share_stack=bool(conns), max_qubits=6, epr_sockets=[s_])
            conns.append(cn)
            socks.append(s_)
        ex = conns[0].ex
        ex.meas_script = [0, 1] * 20
        link = rig.AutoLink(ex, conns[0].stack, bell=c["bells"], stepwise=True, mark=True)
        streams = [dict(remote=1, purpose=a_, type="K", n=m) for a_ in range(2)]

        def post_h(conn_, q, pair):
            q.H()

        gens = []
        mark = len(ex.gate_log)
        for a_, (cn, s_) in enumerate(zip(conns, socks)):
            cn.defer = True
            if c["variant"] == "post_h":
                s_.recv_keep(m, post_routine=post_h)
            else:
                s_.recv_keep(m)
            cn.flush()
            msgs = [M_.deserialize_host_msg(raw) for raw in cn.deferred]
            gens.append([cn.ctrl.handle_netqasm_message(msg_id=100 * (a_ + 1) + j, msg=msg_) for j, msg_ in enumerate(msgs)])
        ex.exec_count, ex.exec_limit = 0, 200000
        turn, done, idle = c.get("first", 0), set(), 0
        try:
            while len(done) < 2:
                if turn in done:
                    turn = 1 - turn
                parked = False
                try:
                    while gens[turn]:
                        y = next(gens[turn][0], "END")
                        if y == "END":
                            gens[turn].pop(0)
                        elif y == rig.WAIT:
                            parked = True
                            break
                    if not gens[turn]:
                        done.add(turn)
                except rig.Stuck:
                    raise
                except Exception as exc:
                    raise rig.ControllerFault(f"{type(exc).__name__}: {str(exc).splitlines()[0]}") from exc
                if parked:
                    st = streams[turn]
                    if st["n"] > 0:
                        st["n"] -= 1
                        idle = 0
                        ex._handle_epr_response(link._resp("K", 1, st["remote"], st["purpose"]))
                    else:
                        idle += 1
                        if idle > 6:
                            raise rig.Stuck("both applications wait and the link has nothing more to deliver")
                    if c.get("interleave", True):
                        turn = 1 - turn          # the other application runs before this one resumes
        except (rig.ControllerFault, rig.Stuck) as exc:
            row["fault"] = True
            row["exc"] = str(exc)[:200]
        cur = getattr(ex, "current_cmd", None)
        imm = tuple(getattr(getattr(cur, a, None), "value", None) for a in ("angle_num", "angle_denom")) if cur is not None else ()
        fc = row["fault"] and getattr(cur, "mnemonic", "") in ("rot_x", "rot_z") and imm == (16, 4)
        _frame_events(ex, mark, row, cur, fc)
    except Exception as exc:
        row["err"] = f"{type(exc).__name__}: {exc}"[:200]
    return row


def _exec_variant(c, bells):
    """one request of the case on the real SDK -> controller -> executor; returns (log of executed operations with
    deliveries, sdk error, fault, fault raised by a correction)"""
    from . import rig
    from netqasm.sdk.build_types import NVHardwareConfig
    from netqasm.sdk.epr_socket import EPRSocket
    from netqasm.sdk.qubit import Qubit
    from netqasm.sdk.transpile import NVSubroutineTranspiler
    kw: Dict[str, Any] = {}
    if c["hw"] == "nv":
        kw["hardware_config"] = NVHardwareConfig(6)
    elif c["hw"] == "nvt":
        kw["compiler"] = NVSubroutineTranspiler          # the builder then compiles for single-communication-qubit hardware
    sock = EPRSocket("bob")
    conn = rig.VConnection("alice", max_qubits=6, epr_sockets=[sock], nv=(c["hw"] == "nvt"), **kw)
    ex = conn.ex
    ex.log_qfree = True
    ex.meas_script = [1, 0, 1, 1] * 10
    conn.link = rig.AutoLink(ex, conn.stack, bell=bells, stepwise=True, mark=True)
    err, fault, faultcorr, mark = "", False, False, 0
    try:
        bys = [Qubit(conn) for _ in range(c["by"])]
        if bys:
            conn.flush()
        mark = len(ex.gate_log)
        n, variant, recv = c["n"], c["variant"], c["role"] == "recv"
        if recv:
            conn.link.remote.append(dict(remote=1, purpose=0, type="K", n=n))
        ek = dict(expect_phi_plus=c["expect_flag"]) if recv else {}

        def post_m(conn_, q, pair):
            q.measure()

        def post_h(conn_, q, pair):
            q.H()

        f = sock.recv_keep if recv else sock.create_keep
        if variant == "keep":
            f(n, **ek)
        elif variant == "keep_info":
            (sock.recv_keep_with_info if recv else sock.create_keep_with_info)(n, **ek)
        elif variant == "post_h":
            f(n, post_routine=post_h, **ek)
        elif variant == "post_m":
            f(n, post_routine=post_m, **ek)
        elif variant == "seq":
            f(n, post_routine=post_m, sequential=True, **ek)
        elif variant == "rsp":
            sock.recv_rsp(n, **ek)
        elif variant == "rsp_info":
            sock.recv_rsp_with_info(n, **ek)
        try:
            conn.flush()
        except (rig.ControllerFault, rig.Stuck) as exc:
            fault = True
            cur = getattr(ex, "current_cmd", None)
            imm = tuple(getattr(getattr(cur, a, None), "value", None) for a in ("angle_num", "angle_denom")) if cur is not None else ()
            faultcorr = isinstance(exc, rig.ControllerFault) and getattr(cur, "mnemonic", "") in ("rot_x", "rot_z") and imm == (16, 4)
    except Exception as exc:
        err = f"{type(exc).__name__}: {exc}"[:160]
    log = []
    for g in ex.gate_log[mark:]:
        mn, virt, imm, phys = g[0], g[1], g[2], g[3]
        log.append({"mn": mn, "qs": [q + 1 for q in phys], "imm": [int(x) for x in imm]})
    return log, err, fault, faultcorr


_REFS: Dict[str, Any] = {}


def _run_uni(item):
    """the case's request with its Bell states, and the two reference runs with every pair in Phi+"""
    import logging
    logging.disable(logging.CRITICAL)
    i, c = item
    key = json.dumps([c["variant"], c["hw"], c["role"], c["n"], c["by"]])
    if key not in _REFS:
        on = _exec_variant(dict(c, expect_flag=True), [0] * c["n"])
        off = _exec_variant(dict(c, expect_flag=False), [0] * c["n"])
        _REFS[key] = (on, off)
    (ron, eon, fon, _), (roff, eoff, foff, _) = _REFS[key]
    act, err, fault, faultcorr = _exec_variant(dict(c, expect_flag=c["expect"]), c["bells"])
    big = any(q > 6 for lg in (ron, roff, act) for g in lg for q in g["qs"])
    return dict(c, id=i, refon=ron, refoff=roff, act=act, err=err or eon or eoff or ("more than 6 physical qubits" if big else ""),
                fault=fault or fon or foff, faultcorr=faultcorr and not (fon or foff))


def uni_cases(tier: str, rng: random.Random) -> List[Dict[str, Any]]:
    out = []
    nmax = 2 if tier == "quick" else 3
    for hw in ("nvt", "generic"):
        for variant in ("keep", "keep_info", "post_m", "seq", "rsp", "rsp_info", "post_h"):
            if hw != "generic" and variant == "post_h":
                continue
            if hw == "generic" and variant not in ("post_h", "post_m", "seq"):
                continue            # (generic hardware is judged gate by gate by BellFrame; these three cross-check the two formulations)
            for role in ("recv", "create"):
                if role == "create" and variant.startswith("rsp"):
                    continue
                for expect in (True, False):
                    if role == "create" and not expect:
                        continue
                    for n in range(1, nmax + 1):
                        tuples = list(itertools.product(range(4), repeat=n))
                        if role == "create" or not expect or hw != "nvt":
                            tuples = rng.sample(tuples, min(len(tuples), 4))
                        for bells in tuples:
                            for by in (0, 1):
                                if hw != "generic" and n + by > 4:
                                    continue
                                out.append(dict(kind="uni", variant=variant, hw=hw, role=role, expect=expect, n=n, bells=list(bells), by=by))
    return out


def _run_meas(item):
    """one Bell state x basis x expectation: the four raw outcome pairs on the real SDK"""
    from . import rig
    from netqasm.sdk.build_epr import EprMeasBasis, basis_to_rotation
    from netqasm.sdk.epr_socket import EPRSocket
    i, c = item
    row = dict(c, id=i, err="", rows=[], events=[], bystanders=[], fault=False, n=0, bells=[], role="recv")
    basis = EprMeasBasis[c["basis"]]
    try:
        for rawc in (0, 1):
            for rawr in (0, 1):
                # the creating node
                sock = EPRSocket("bob")
                conn = rig.VConnection("alice", max_qubits=3, epr_sockets=[sock])
                conn.link = rig.AutoLink(conn.ex, conn.stack, bell=[c["bell"]], outcomes=[rawc])
                res = sock.create_measure(1, basis_local=basis, basis_remote=basis)
                conn.flush()
                outc = res[0].measurement_outcome
                # the receiving node
                sock = EPRSocket("bob")
                conn = rig.VConnection("alice", max_qubits=3, epr_sockets=[sock])
                conn.link = rig.AutoLink(conn.ex, conn.stack, bell=[c["bell"]], outcomes=[rawr])
                conn.link.remote.append(dict(remote=1, purpose=0, type="M", n=1))
                res = sock.recv_measure(1, expect_phi_plus=c["expect"])
                if c["api"] == "precompiled-rerun":
                    # the documented way to run one compiled subroutine several times: an earlier run delivered ANOTHER
                    # Bell state (and its results were read); the run that is judged is the second
                    sub = conn.compile()
                    sub.instantiate(conn.app_id)
                    link2 = conn.link
                    conn.link = rig.AutoLink(conn.ex, conn.stack, bell=[(c["bell"] + 1 + rawc + 2 * rawr) % 4], outcomes=[1 - rawr])
                    conn.link.remote.append(dict(remote=1, purpose=0, type="M", n=1))
                    conn.commit_subroutine(sub)
                    _ = (res[0].measurement_outcome, res[0].bell_state, res[0].raw_measurement_outcome)
                    conn.link = link2
                    conn.commit_subroutine(sub)
                elif c["api"] == "read-after-a-later-request":
                    # collect-then-evaluate: the results of this request are read only after another request, in a later
                    # subroutine, delivered another Bell state and outcome
                    conn.flush()
                    conn.link = rig.AutoLink(conn.ex, conn.stack, bell=[(c["bell"] + 1 + rawc + 2 * rawr) % 4], outcomes=[1 - rawr])
                    conn.link.remote.append(dict(remote=1, purpose=0, type="M", n=1))
                    later = sock.recv_measure(1, expect_phi_plus=c["expect"])
                    conn.flush()
                    _ = later[0].measurement_outcome
                else:
                    conn.flush()
                r0 = res[0]
                if c["api"] == "result-object":
                    # the result object as the SDK builds it when the request carries the bases
                    rot = basis_to_rotation(basis)
                    r0 = dataclasses.replace(r0, measurement_basis_local=rot, measurement_basis_remote=rot)
                outr = r0.measurement_outcome
                row["rows"].append(dict(rawc=rawc, rawr=rawr, outc=int(outc), outr=int(outr)))
    except Exception as exc:
        row["err"] = f"{type(exc).__name__}: {exc}"[:200]
    return row


def meas_cases() -> List[Dict[str, Any]]:
    out = []
    for api in ("recv_measure", "result-object", "precompiled-rerun", "read-after-a-later-request"):
        for bell in range(4):
            for basis in BASES:
                for expect in (True, False):
                    out.append(dict(kind="meas", api=api, bell=bell, basis=basis, expect=expect))
    return out


def run(prop: str, tier: str) -> int:
    V = C.Verdicts(prop, tier)
    tmp = C.tmpdir()
    try:
        rng = random.Random(C.seed() * 7919 + 10)
        cases = frame_cases(tier, rng) + meas_cases() + uni_cases(tier, rng)
        with ProcessPoolExecutor(max_workers=C.ncpu()) as pool:
            rows = list(pool.map(_dispatch, [(i + 1, c) for i, c in enumerate(cases)], chunksize=16))
        for r in rows:
            if r["kind"] == "uni":
                r["nv"] = r["hw"]                     # label used when grouping witnesses
                r.setdefault("exc", "")
                r.setdefault("bystanders", [])
                r.setdefault("events", [])
        res = C.run_tlc_sharded("BellFrame", [r for r in rows if r["kind"] != "uni"], tmp, shards=C.ncpu(), cfg="BellFrame.cfg")
        resu = C.run_tlc_sharded("BellUnitary", [r for r in rows if r["kind"] == "uni"], tmp, shards=C.ncpu(), tag="u", cfg="BellUnitary.cfg")
        res.verdicts += resu.verdicts
        res.ok_ids += resu.ok_ids
        res.distinct += resu.distinct
        res.generated += resu.generated
        bad, skipped = {}, {}
        for v in res.verdicts:
            if v[1] == "not-judged":
                r = rows[v[2] - 1]
                k_ = f"{r['variant']} {_hw(r)} {r['role']} n={r['n']} bystanders={r['by']}: {(r['exc'] or r['err'])[:80]}"
                skipped[k_] = skipped.get(k_, 0) + 1
                continue
            bad.setdefault(v[2], v)
        nskip = sum(skipped.values())
        if nskip:
            V.notes.append(f"{nskip} traces are refused by the SDK or end in a controller fault that is not about a correction (qubit management, property C09) and are not judged: {skipped}")
        if len(res.ok_ids) + len(bad) + nskip != len(rows):
            raise C.MachineryError("BellFrame gave no verdict for some cases")
        # one witness per (clause, variant, hardware, role, expectation, pairs, bystanders): WHICH Bell-state
        # tuples fail is part of the witness (count + digest), so that a different set of failing inputs in
        # the same group is a different violation
        groups: Dict[str, Any] = {}
        for rid, v in bad.items():
            r = rows[rid - 1]
            if r["kind"] == "meas":
                api = r["api"]
                if api in ("precompiled-rerun", "read-after-a-later-request") and any(rows[o - 1]["kind"] == "meas" and rows[o - 1]["api"] == "recv_measure" and v2[1] == v[1] and
                                                      all(rows[o - 1][f] == r[f] for f in ("bell", "basis", "expect")) for o, v2 in bad.items()):
                    # a single run of recv_measure fails in the same way for this Bell state and basis: the same failure
                    # (same witness), not one of running the compiled subroutine again
                    api = "recv_measure"
                w = {"api": api, "bell": r["bell"], "basis": r["basis"], "expect": r["expect"]}
                V.add(v[1], w, f"{r['api']}: Bell state {r['bell']} measured in {r['basis']} on both nodes, expect_phi_plus={r['expect']}: "
                      f"raw -> post-processed (creator, receiver) {[((x['rawc'], x['rawr']), (x['outc'], x['outr'])) for x in r['rows']]} {r['err']}: {v[1]}", r)
                continue
            key = json.dumps([v[1], r["variant"], r["nv"], r["role"], r["expect"], r["n"], r["by"], _setting(r)])
            groups.setdefault(key, []).append((r["bells"], r, v))
        for key, lst in sorted(groups.items()):
            lst.sort(key=lambda t: t[0])
            bells0, r, v = lst[0]
            total = sum(1 for x in rows if x["kind"] == r["kind"] and all(x[f] == r[f] for f in ("variant", "nv", "role", "expect", "n", "by")) and _setting(x) == _setting(r))
            sha = hashlib.sha256(json.dumps([t[0] for t in lst]).encode()).hexdigest()[:12]
            w = {"variant": r["variant"], "hardware": _hw(r), "role": r["role"], "expect": r["expect"],
                 "pairs": r["n"], "bystanders": r["by"], "failing": len(lst), "of": total, "tuples": sha, "first": bells0}
            if _setting(r):
                w["setting"] = _setting(r)
            V.add(v[1], w, f"{r['variant']} ({_hw(r)}, {r['role']}, expect_phi_plus={r['expect']}), {r['n']} pair(s), "
                  f"{r['by']} other live qubit(s) on physical {r['bystanders']}: {len(lst)} of {total} Bell-state tuples fail with {v[1]}; first {bells0}: at event {v[3]} of "
                  f"{[(e['a'], e['p'], e['b'], e['q']) if e['a'] == 'deliver' else (e['a'], e['ax'], e['q'], e['q2']) for e in r['events']]} {r['exc']} {r['err']}", r)
        nframe = sum(1 for r in rows if r["kind"] == "frame")
        nuni = sum(1 for r in rows if r["kind"] == "uni")
        cov = {
            "states": res.distinct, "transitions": res.generated, "traces_validated_against_impl": len(rows),
            "evaluations": len(rows),
            "distinct_nontrivial": len({json.dumps([r["kind"], r["variant"], r["nv"], r["role"], r["expect"], r["bells"], r["by"]]) for r in rows if r["kind"] in ("frame", "uni") and r["n"] >= 2}) + sum(1 for r in rows if r["kind"] == "meas"),
            "unitary_cases_nv_transpiler": nuni,
            "rule": f"{nframe} frame traces: keep-type API variant {VARIANTS} x generic / NV hardware x role x expect_phi_plus x 1..{3 if tier == 'quick' else 4} pairs x Bell-state tuples (all for receivers that expect Phi+) x 0..2 other live qubits; "
                    f"{len(rows) - nframe - nuni} measure-directly groups: recv_measure end to end and the result object with known bases x 4 Bell states x 6 named bases x expectation on/off x 4 raw outcome pairs; non-trivial = at least two pairs, or a measure group",
            "samples": [cases[0], cases[len(cases) // 2]], "exhaustive": tier != "quick", "checker_cmd": res.cmd,
            "events_by_kind": _kinds(rows),
        }
        return V.finish("model_checking", cov, ASSUME)
    finally:
        shutil.rmtree(tmp, ignore_errors=True)


def _setting(r):
    return "two-applications" if r.get("apps") == 2 else "after-an-earlier-session" if r.get("earlier_session") else r.get("pre", "")


def _hw(r):
    if r["kind"] == "uni":
        return {"nvt": "nv-transpiler", "generic": "generic/unitary", "nv": "nv/unitary"}[r["hw"]]
    return "nv" if r["nv"] else "generic"


def _kinds(rows):
    k: Dict[str, int] = {}
    for r in rows:
        for e in r.get("events", []):
            k[e["a"]] = k.get(e["a"], 0) + 1
    return k


def _dispatch(item):
    k = item[1]["kind"]
    if k == "frame" and item[1].get("apps") == 2:
        return _run_frame_two(item)
    return _run_frame(item) if k == "frame" else (_run_uni(item) if k == "uni" else _run_meas(item))


def replay_case(prop, case, tmp):
    keep = ("kind", "variant", "nv", "role", "expect", "n", "bells", "by", "api", "bell", "basis", "early", "tries", "earlier_session", "apps", "first", "interleave", "pre")
    row = _dispatch((1, {k: case[k] for k in keep if k in case}))
    res = C.run_tlc_sharded("BellFrame", [row], tmp, shards=1, cfg="BellFrame.cfg")
    return res.verdicts[0][1] if res.verdicts else None
