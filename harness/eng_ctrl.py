"""C13: qubit memory is safe and applications are isolated on the controller."""
from __future__ import annotations

import copy
import json
import os
import shutil
from concurrent.futures import ProcessPoolExecutor
from typing import Any, Dict, List

from . import common as C
from . import rig

ASSUME = [
    "applications run one subroutine at a time, taken from a library of 8 programs (allocate/free virtual qubits 0 and 1, classical writes and returns, a keep request with and without a qfree inside); subroutines of different applications interleave at instruction grain",
    "at most one keep request (one pair, purpose id = app id) outstanding per application; an application is stopped only between subroutines and with no request outstanding",
    "a keep response's physical qubit is reserved from the executor when the response is created",
    "exhaustive exploration is depth-bounded (TLCGet(\"level\") <= MaxDepth); longer histories are covered by random walks on the real controller validated by TLC",
]


def _walk(args):
    seed, length, apps, ums = args
    return rig.controller_walk(seed, length, apps, ums)


def _dfs(args):
    """bounded exhaustive exploration of the REAL controller (stateless DFS, pruned by projected state)"""
    depth, apps, ums, first = args
    paths, seen = [], set()
    stack = [[first]]
    while stack:
        prefix = stack.pop()
        run = rig.ControllerRun()
        evs = [run.apply(a) for a in prefix]
        if any(e is None for e in evs):
            continue
        key = json.dumps(run.project(), sort_keys=True) + str(sorted(run.gens))
        if key in seen or len(prefix) >= depth or evs[-1]["err"]:
            paths.append(evs)
            seen.add(key)
            continue
        seen.add(key)
        ext = run.candidates(apps, ums)
        if not ext:
            paths.append(evs)
        for a in ext:
            stack.append(prefix + [a])
    return paths, len(seen)


def run_apalache(tmp):
    """IndInv of QubitPool.tla is inductive: base case, inductive step, and IndInv => UsedIsMapped"""
    import shutil as sh_
    import subprocess
    d = f"{tmp}/apa"
    os.makedirs(d, exist_ok=True)
    sh_.copy(C.SPEC / "QubitPool.tla", d)
    sh_.copy(C.SPEC / "apalache" / "MC_QubitPool.tla", d)
    runs = {"base: Init => IndInv": ["--init=Init", "--inv=IndInv", "--length=0"],
            "step: IndInv /\\ Next => IndInv'": ["--init=IndInit", "--inv=IndInv", "--length=1"],
            "IndInv => UsedIsMapped": ["--init=IndInit", "--inv=UsedIsMapped", "--length=0"]}
    out = {}
    for name, args in runs.items():
        try:
            r = subprocess.run(["apalache-mc", "check", *args, f"--out-dir={d}/o", "MC_QubitPool.tla"], cwd=d, capture_output=True, text=True, timeout=2400)
        except subprocess.TimeoutExpired:
            raise C.MachineryError(f"apalache timed out on {name}")
        m = [l for l in r.stdout.splitlines() if "The outcome is:" in l]
        if not m:
            raise C.MachineryError(f"apalache gave no outcome for {name}: {r.stdout[-600:]}")
        out[name] = m[-1].split("The outcome is:")[1].split()[0]
        if out[name] not in ("NoError", "Error"):
            raise C.MachineryError(f"apalache outcome {out[name]} for {name}")
    return out


def run(prop: str, tier: str) -> int:
    V = C.Verdicts(prop, tier)
    tmp = C.tmpdir()
    try:
        # (1) design level: exhaustive to a depth bound
        cfg = "Controller.cfg" if tier == "quick" else "Controller_thorough.cfg"
        r = C.run_tlc("Controller", cfg=cfg, coverage=True, timeout=3000, check_rc=False, heap="6g")
        if r.rc != 0 and not r.violated:
            raise C.MachineryError(f"TLC failed on Controller:\n{r.out[-1500:]}")
        for inv in r.violated:
            V.add("model-violates-" + inv, {}, f"Controller.tla violates {inv}")
        acts = ("InitApp", "StopApp", "BeginSub", "StepApp", "Retry")
        if min(r.coverage.get(a, 0) for a in acts) == 0 or r.coverage.get("DeliverK", 0) + r.coverage.get("Next", 0) == 0:
            raise C.MachineryError(f"vacuous: a Controller action was never taken {r.coverage}")
        # (1b) Controller refines the abstract qubit pool (TLC), whose invariant is inductive (Apalache, thorough tier)
        pool_cfg = f"{tmp}/ControllerPool.cfg"
        open(pool_cfg, "w").write(open(C.SPEC / "ControllerPool.cfg").read().replace("MaxDepth = 12", "MaxDepth = %d" % (9 if tier == "quick" else 12)))
        rp = C.run_tlc("ControllerPool", cfg=pool_cfg, timeout=3000, check_rc=False, heap="4g")
        if rp.rc != 0 and not rp.violated:
            raise C.MachineryError(f"TLC failed on ControllerPool:\n{rp.out[-1500:]}")
        for inv in rp.violated:
            V.add("controller-does-not-refine-qubit-pool", {"what": inv}, f"ControllerPool.tla: {inv} violated: a step of Controller.tla is not a step of QubitPool.tla (or the pool invariant fails)")
        apalache = {}
        if tier != "quick":
            apalache = run_apalache(tmp)
            for name, out in apalache.items():
                if out == "Error":
                    V.add("qubit-pool-invariant-not-inductive", {"run": name}, f"Apalache reports a counterexample for {name} on QubitPool.tla")
        # (2) code -> spec: bounded exhaustive DFS + long random walks on the real controller
        n = C.ncpu()
        depth = 7 if tier == "quick" else 9
        firsts = [("init", a, k) for a in (0, 1) for k in (1, 2)]
        nwalks = 200 if tier == "quick" else 1500
        length = 120 if tier == "quick" else 300
        with ProcessPoolExecutor(max_workers=n) as pool:
            dfs = list(pool.map(_dfs, [(depth, (0, 1), (1, 2), f) for f in firsts]))
            walks = list(pool.map(_walk, [(C.seed() * 1000 + i, length, (0, 1, 2) if i % 3 == 0 else (0, 1), (1, 2, 3, 4) if i % 2 else (1, 2))
                                          for i in range(nwalks)], chunksize=8))
        traces = [p for ps, _ in dfs for p in ps] + [w for w in walks if w]
        # (2b) directed schedules: an application is stopped while its subroutine is suspended inside a qfree (the
        #      simulator hook that resets the physical qubit yields); another application allocates; the orphaned
        #      subroutine is resumed before / after that
        scripts = []
        for A, B in ((0, 1), (1, 0), (2, 0)):
            for k in (0, 1):
                pre = [("init", A, 2), ("begin", A, "alloc%d" % k), ("step", A), ("step", A)]
                both = pre + [("begin", A, "alloc%d" % (1 - k)), ("step", A), ("step", A)]
                tail = [("step", B), ("begin", B, "free0"), ("step", B), ("step", B), ("stop", B),
                        ("init", A, 1), ("begin", A, "alloc0"), ("step", A), ("step", A), ("stop", A)]
                for head in (pre, both):
                    mid = head + [("begin", A, "free%d" % k), ("abort", A)]
                    scripts.append(mid + [("init", B, 1), ("begin", B, "alloc0"), ("step", B), ("zombie", A)] + tail)
                    scripts.append(mid + [("zombie", A), ("init", B, 1), ("begin", B, "alloc0"), ("step", B)] + tail)
                    scripts.append(mid + [("init", B, 2), ("begin", B, "alloc1"), ("step", B), ("step", B), ("begin", B, "alloc0"), ("step", B), ("zombie", A)] + tail)
        # ... and while blocked waiting for entanglement: request outstanding, response waiting for its virtual qubit
        for A, B in ((0, 1), (1, 0)):
            tailB = [("init", B, 2), ("begin", B, "alloc0"), ("step", B), ("step", B), ("begin", B, "alloc1"), ("step", B), ("step", B), ("zombie", A),
                     ("begin", B, "free0"), ("step", B), ("step", B), ("stop", B), ("init", A, 2), ("begin", A, "keep1"), ("step", A), ("step", A),
                     ("deliver", A, "alloc"), ("step", A), ("step", A), ("stop", A)]
            scripts.append([("init", A, 2), ("begin", A, "keep1"), ("step", A), ("step", A), ("step", A), ("abortwait", A)] + tailB)
            scripts.append([("init", A, 2), ("begin", A, "alloc1"), ("step", A), ("step", A), ("begin", A, "keepfree"), ("step", A), ("step", A),
                            ("deliver", A, "alloc"), ("abort", A)] + tailB)
        directed = [rig.controller_script(sc) for sc in scripts]
        if not all(any(e["a"] == "abort" for e in t) and any(e["a"] == "zombie" for e in t) for t in directed):
            V.notes.append("qfree has no suspension point in this tree: the stop-inside-an-instruction schedules degenerate to ordinary steps")
        traces += directed
        # a stop that takes time: the qubits are given back one after the other and other applications run in between
        scripts2 = []
        for A, B in ((0, 1), (1, 0), (2, 1)):
            two = [("init", A, 2), ("begin", A, "alloc0"), ("step", A), ("step", A), ("begin", A, "alloc1"), ("step", A), ("step", A), ("init", B, 2)]
            one = [("init", A, 2), ("begin", A, "alloc1"), ("step", A), ("step", A), ("init", B, 2)]
            b0 = [("begin", B, "alloc0"), ("step", B), ("step", B)]
            b1 = [("begin", B, "alloc1"), ("step", B), ("step", B)]
            again = [("init", A, 1), ("begin", A, "alloc0"), ("step", A), ("step", A), ("stopbegin", B), ("begin", A, "free0"), ("step", A), ("step", A),
                     ("stopstep", B), ("stopstep", B), ("stopstep", B), ("stop", A), ("stop", B)]
            scripts2.append(two + [("stopbegin", A)] + b0 + [("stopstep", A)] + b1 + [("stopstep", A)] + again)
            scripts2.append(two + [("stopbegin", A)] + b0 + b1 + [("stopstep", A), ("stopstep", A)] + again)
            scripts2.append(two + b0 + [("stopbegin", A), ("stopstep", A)] + b1 + [("stopstep", A)] + again)
            scripts2.append(one + [("stopbegin", A)] + b0 + [("stopstep", A)] + b1 + again)
            scripts2.append(two + [("stopbegin", A), ("stopstep", A), ("stopstep", A)] + b0 + again)
        slow = [rig.controller_script(sc) for sc in scripts2]
        if not any(any(e["a"] == "stopbegin" for e in t) for t in slow):
            V.notes.append("the reset of a physical qubit has no suspension point in this tree: the slow-stop schedules degenerate to ordinary stops")
        traces += slow
        rows = [{"id": i + 1, "events": t} for i, t in enumerate(traces)]
        res = C.run_tlc_sharded("ControllerTrace", rows, tmp, shards=n)
        bad = {}
        for v in res.verdicts:
            bad.setdefault(v[2], v)
        missing = {row["id"] for row in rows} - set(res.ok_ids) - set(bad)
        if missing:
            raise C.MachineryError(f"ControllerTrace gave no verdict for {len(missing)} traces")
        for i, v in sorted(bad.items()):
            t = rows[i - 1]["events"]
            ev = t[v[3] - 1] if 0 < v[3] <= len(t) else {}
            hist = [[e["a"], e.get("app"), e.get("p", e.get("n"))] for e in t[: v[3]]]
            stale = any(e.get("a") == "abort" and e.get("outstanding") for e in t[: v[3]])
            V.add("history-leaves-specification" if v[4] != "invariant" or stale else "property-violated-on-real-history",
                  # (once an application was stopped with an entanglement request outstanding the real controller keeps
                  #  stale bookkeeping - a recorded finding - and whatever goes wrong later in THAT history is the same failure)
                  ({"after_stop_with_outstanding_request": True} if stale
                   else {"what": v[1], "action": ev.get("a", ""), "program": ev.get("p", "")}),
                  f"after {len(hist)} operations ending in {hist[-3:]}: {v[1]} {ev.get('err', '')}; real post-state {json.dumps(ev.get('post'))[:500]}",
                  {"history": hist})
        nontriv = {json.dumps([[e["a"], e.get("app"), e.get("p", e.get("n"))] for e in t]) for t in traces
                   if len(t) >= 6 and sum(1 for e in t if e["a"] == "init") >= 1}
        # binding self-test
        good = copy.deepcopy(max((rows[i - 1] for i in res.ok_ids), key=lambda r_: len(r_["events"])))
        b1 = copy.deepcopy(good); b1["id"] = 1; b1["events"][3]["post"]["used"] = [9]
        b2 = copy.deepcopy(good); b2["id"] = 2; del b2["events"][2]
        rs = C.run_tlc_sharded("ControllerTrace", [b1, b2], tmp, shards=1, tag="self")
        if {v[2] for v in rs.verdicts} != {1, 2}:
            raise C.MachineryError(f"binding self-test: corrupted histories accepted {rs.verdicts}")
        kinds = {}
        for t in traces:
            for e in t:
                kinds[e["a"]] = kinds.get(e["a"], 0) + 1
        cov = {
            "states": r.distinct + res.distinct, "transitions": r.generated + res.generated,
            "traces_validated_against_impl": len(traces), "evaluations": len(traces), "distinct_nontrivial": len(nontriv),
            "rule": "trace = history of controller operations on the real QNodeController/Executor (real message bytes for register/stop/subroutine); exhaustive DFS to depth %d from each first registration plus random walks of up to %d operations; non-trivial = >= 6 operations; distinct by operation sequence" % (depth, length),
            "samples": [[[e["a"], e.get("app"), e.get("p", e.get("n"))] for e in traces[0]],
                        [[e["a"], e.get("app"), e.get("p", e.get("n"))] for e in traces[-1]][:40]],
            "model_states": r.distinct, "model_depth": r.depth, "model_action_coverage": r.coverage,
            "refinement_Controller_to_QubitPool": {"tlc_states": rp.distinct, "depth": rp.depth, "held": not rp.violated},
            "apalache_inductive_invariant": apalache or "thorough tier only",
            "real_operations_by_kind": kinds, "dfs_real_states": sum(s for _, s in dfs),
            "selftest": "corrupted used set and skipped operation both rejected",
            "exhaustive": False, "checker_cmd": r.cmd,
        }
        return V.finish("model_checking", cov, ASSUME)
    finally:
        shutil.rmtree(tmp, ignore_errors=True)
