"""C14: compiling never runs out of registers because of finished operations."""
from __future__ import annotations

import json
import random
import shutil
from concurrent.futures import ProcessPoolExecutor
from typing import Any, Dict, List

from . import common as C
from .eng_host import Gen, c, fut, lv, shrink, skeleton, validate, _run_case

ASSUME = [
    "Host.tla has no register pool: compiling is always possible and results depend only on the program, so every long history must (a) compile and (b) give the results of direct evaluation (a temporary that overwrote a live loop index would show as wrong results)",
    "histories of 100-400 completed operations on ONE connection, every operation kind, nesting up to depth 4, flush after every k-th operation (k in 1, 3, 10); plus directed histories repeating one operation kind 40 times",
    "EPR operations are exercised by C09/C10/C11 on the same builder; here the register-relevant SDK constructs are if (all six comparisons on futures and register futures), loop, loop_body, foreach, enumerate, loop_until, add with and without modulus and with a future operand, measure into array and register",
]


def one_kind(kind: str, reps: int, flush_every: int) -> Dict[str, Any]:
    A = lambda h, vals: {"s": "array", "h": h, "len": len(vals), "init": vals}
    hist: List[Dict[str, Any]] = [A("A1", [1, 2, 0]), A("A2", [0, 0, 0])]
    nq = 0
    na = 2
    meas = 0
    for r in range(reps):
        if kind in ("ez", "nz", "eq", "ne", "lt", "ge"):
            hist.append({"s": "if", "cmp": kind, "a": fut("A1", c(r % 3)), "b": c(1), "form": "ctx" if r % 2 else "cb",
                         "body": [{"s": "add", "t": fut("A2", c(0)), "o": c(1), "mod": -1}]})
        elif kind == "if-two-futures":
            hist.append({"s": "if", "cmp": "lt", "a": fut("A1", c(0)), "b": fut("A1", c(1)), "form": "ctx",
                         "body": [{"s": "add", "t": fut("A2", c(1)), "o": c(1), "mod": -1}]})
        elif kind == "loop":
            hist.append({"s": "loop", "start": 0, "stop": 3, "step": 1, "form": "ctx" if r % 2 else "body",
                         "body": [{"s": "add", "t": fut("A2", lv(1)), "o": lv(1), "mod": -1}]})
        elif kind == "foreach":
            hist.append({"s": "foreach", "a": "A1", "enum": bool(r % 2), "body": [{"s": "add", "t": fut("A2", lv(1)), "o": fut("A1", lv(1)), "mod": 7}]})
        elif kind == "until":
            nq += 1
            na += 1
            hist.append({"s": "until", "max": 2, "t": fut(f"A{na}", c(0)), "v": 0, "cleanup": [],
                         "body": [{"s": "qubit", "h": f"Q{nq}"}, {"s": "meas", "q": f"Q{nq}", "inplace": False, "into": {"k": "new", "h": f"A{na}"}}]})
            meas += 2
        elif kind == "add-future":
            hist.append({"s": "add", "t": fut("A2", c(r % 3)), "o": fut("A1", c((r + 1) % 3)), "mod": 5 if r % 2 else -1})
        elif kind == "measure-array":
            nq += 1
            na += 1
            hist += [{"s": "qubit", "h": f"Q{nq}"}, {"s": "meas", "q": f"Q{nq}", "inplace": False, "into": {"k": "new", "h": f"A{na}"}}]
            meas += 1
        elif kind == "measure-register":
            nq += 1
            hist += [{"s": "qubit", "h": f"Q{nq}"}, {"s": "meas", "q": f"Q{nq}", "inplace": False, "into": {"k": "newreg", "h": f"F{nq}"}}]
            meas += 1
        elif kind == "empty-bodies":
            # completed operations whose body emits no instruction at all
            hist.append({"s": "loop", "start": 0, "stop": 3, "step": 1, "form": "ctx" if r % 2 else "body", "body": []})
            hist.append({"s": "foreach", "a": "A1", "enum": bool(r % 2), "body": []})
            hist.append({"s": "if", "cmp": "ez" if r % 2 else "lt", "a": fut("A1", c(0)), "b": c(1), "form": "ctx", "body": []})
            hist.append({"s": "loop", "start": 0, "stop": 2, "step": 1, "form": "ctx", "body": [
                {"s": "loop", "start": 0, "stop": 2, "step": 1, "form": "body", "body": []},
                {"s": "add", "t": fut("A2", lv(1)), "o": c(1), "mod": -1}]})
        elif kind == "nested":
            hist.append({"s": "loop", "start": 0, "stop": 2, "step": 1, "form": "ctx", "body": [
                {"s": "foreach", "a": "A1", "enum": True, "body": [
                    {"s": "if", "cmp": "ez" if r % 2 else "ge", "a": fut("A1", lv(2)), "b": c(1), "form": "ctx", "body": [
                        {"s": "add", "t": fut("A2", lv(2)), "o": lv(1), "mod": -1}]}]}]})
        if (r + 1) % flush_every == 0:
            hist.append({"s": "flush"})
            if kind == "measure-register":
                hist.append({"s": "read", "loc": {"k": "reg", "h": f"F{nq}"}})
    hist += [{"s": "flush"}, {"s": "read", "loc": {"k": "arr", "a": "A2"}}]
    return {"history": hist, "meas": [i % 2 for i in range(meas + 4)], "kind": kind}


def long_history(rng: random.Random, nops: int, flush_every: int) -> Dict[str, Any]:
    g = Gen(rng, depth_max=4, bounded=True)
    hist = [g.new_array(3), g.new_array(2)]
    done = 0
    while done < nops:
        hist += g.stmts(1, 0, [], top=True)
        done += 1
        if done % flush_every == 0:
            hist.append({"s": "flush"})
            for h in g.regfs:
                hist.append({"s": "read", "loc": {"k": "reg", "h": h}})
            g.regfs = []
    hist.append({"s": "flush"})
    for a in sorted(g.arrays)[:6]:
        hist.append({"s": "read", "loc": {"k": "arr", "a": a}})
    return {"history": hist, "meas": [rng.randrange(2) for _ in range(g.meas_used + 8)], "kind": "mixed"}


KINDS = ["ez", "nz", "eq", "ne", "lt", "ge", "if-two-futures", "loop", "foreach", "until", "add-future", "measure-array", "measure-register", "nested", "empty-bodies"]


def run(prop: str, tier: str) -> int:
    V = C.Verdicts(prop, tier)
    tmp = C.tmpdir()
    try:
        rng = random.Random(C.seed() * 733 + 6)
        cases = []
        for kind in KINDS:
            for fe in (1, 3, 10):
                cases.append(one_kind(kind, 40, fe))
        n = 24 if tier == "quick" else 200
        for k in range(n):
            cases.append(long_history(rng, rng.choice([100, 150, 250] if tier == "quick" else [150, 300, 400]), rng.choice([1, 3, 10])))
        with ProcessPoolExecutor(max_workers=C.ncpu()) as pool:
            rows = list(pool.map(_run_case, [(i + 1, cse, prop) for i, cse in enumerate(cases)], chunksize=2))
        for r in rows:
            if r["err"]:
                cse = cases[r["id"] - 1]
                nops = sum(1 for it in r["items"] if it["s"] not in ("flush", "read", "array"))
                resource = any(w in r["err"] for w in ("available loop register", "registers left", "Ran out of", "no registers"))
                V.add("runs-out-of-registers" if resource else "sdk-raises-while-building",
                      {"kind": cse["kind"], "error": r["err"].split(":")[0]},
                      f"{cse['kind']} history: after {nops} completed operations the SDK raised {r['err']}", {"kind": cse["kind"]})
        good = [r for r in rows if not r["err"]]
        res = validate(prop, good, tmp)
        bad = {}
        for v in res.verdicts:
            bad.setdefault(v[2], v)
        if {r["id"] for r in good} - set(res.ok_ids) - set(bad):
            raise C.MachineryError("HostTrace gave no verdict for some long histories")
        for rid, v in sorted(bad.items()):
            cse = cases[rid - 1]
            V.add("long-history-" + v[1], {"kind": cse["kind"]}, f"{cse['kind']} history ({len(cse['history'])} items): {v[1]} at item {v[3]}", {"kind": cse["kind"]})
        ops = [sum(1 for it in r["items"] if it["s"] not in ("flush", "read", "array")) for r in good]
        cov = {
            "states": res.distinct, "transitions": res.generated, "traces_validated_against_impl": len(good),
            "evaluations": len(rows), "distinct_nontrivial": len([r for r in good if r["id"] in set(res.ok_ids)]),
            "rule": "trace = long history on one connection; non-trivial = compiled completely and accepted by HostTrace; 14 directed kinds x 40 repetitions x flush periods 1/3/10 plus random mixed histories",
            "samples": [{"kind": cases[0]["kind"], "first_items": cases[0]["history"][:4]}, {"kind": "mixed", "items": len(cases[-1]["history"])}],
            "operations_per_history": {"min": min(ops) if ops else 0, "max": max(ops) if ops else 0, "total": sum(ops)},
            "exhaustive": False, "checker_cmd": res.cmd,
        }
        return V.finish("model_checking", cov, ASSUME)
    finally:
        shutil.rmtree(tmp, ignore_errors=True)


def replay_case(prop, case, tmp):
    from . import eng_host as H
    if "history" not in case:
        return None
    row = H._run_case((1, {"history": case["history"], "meas": case["meas"]}, prop))
    res = H.validate(prop, [row], tmp)
    return res.verdicts[0][1] if res.verdicts else None
