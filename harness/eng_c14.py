"""C14: compiling never runs out of registers because of finished operations."""
from __future__ import annotations

import json
import random
import shutil
from concurrent.futures import ProcessPoolExecutor
from typing import Any, Dict, List

from . import common as C
from .eng_host import Gen, c, fut, lv, shrink, skeleton, validate, _run_case

ASSUME = [
    "Host.tla has no register pool: compiling is always possible and results depend only on the program, so every long history must (a) compile and (b) give the results of direct evaluation (a temporary that overwrote a live loop index would show as wrong results)",
    "histories of 100-400 completed operations on ONE connection, every operation kind, nesting up to depth 4, flush after every k-th operation (k in 1, 3, 10); plus directed histories repeating one operation kind 40 times",
    "EPR operations are exercised by C09/C10/C11 on the same builder; here the register-relevant SDK constructs are if (all six comparisons on futures and register futures), loop, loop_body, foreach, enumerate, loop_until, add with and without modulus and with a future operand, measure into array and register",
]


def one_kind(kind: str, reps: int, flush_every: int) -> Dict[str, Any]:
    A = lambda h, vals: {"s": "array", "h": h, "len": len(vals), "init": vals}
    hist: List[Dict[str, Any]] = [A("A1", [1, 2, 0]), A("A2", [0, 0, 0])]
    nq = 0
    na = 2
    meas = 0
    for r in range(reps):
        if kind in ("ez", "nz", "eq", "ne", "lt", "ge"):
            hist.append({"s": "if", "cmp": kind, "a": fut("A1", c(r % 3)), "b": c(1), "form": "ctx" if r % 2 else "cb",
                         "body": [{"s": "add", "t": fut("A2", c(0)), "o": c(1), "mod": -1}]})
        elif kind == "if-two-futures":
            hist.append({"s": "if", "cmp": "lt", "a": fut("A1", c(0)), "b": fut("A1", c(1)), "form": "ctx",
                         "body": [{"s": "add", "t": fut("A2", c(1)), "o": c(1), "mod": -1}]})
        elif kind == "loop":
            hist.append({"s": "loop", "start": 0, "stop": 3, "step": 1, "form": "ctx" if r % 2 else "body",
                         "body": [{"s": "add", "t": fut("A2", lv(1)), "o": lv(1), "mod": -1}]})
        elif kind == "loop-named-register":
            # the application names the counter register; the body needs temporaries of its own (add on a future, a
            # conditional on a future, a nested loop): none of them may overwrite the live counter
            body = [{"s": "add", "t": fut("A2", c(0)), "o": fut("A1", c(r % 3)), "mod": 11},
                    {"s": "if", "cmp": "ge", "a": fut("A1", c(1)), "b": c(0), "form": "ctx", "body": [{"s": "add", "t": fut("A2", c(1)), "o": c(1), "mod": 13}]}]
            if r % 3 == 2:
                body.insert(1, {"s": "loop", "start": 0, "stop": 2, "step": 1, "form": "ctx", "body": [{"s": "add", "t": fut("A2", c(2)), "o": c(1), "mod": 17}]})
            hist.append({"s": "loop", "start": 0, "stop": 3, "step": 1, "form": "body", "reg": ("R0", "R5", "R2", "R15")[(r // 3) % 4], "body": body})
        elif kind == "future-indexed-by-future":
            # the SAME future object, whose index is the value of another array entry, first with no operation open and then
            # inside open loops (the index has to be loaded into a temporary each time: it may not clobber a live counter)
            fi = {"k": "fut", "a": "A2", "i": {"k": "fut", "a": "A1", "j": r % 3}}
            hist.append({"s": "add", "t": fi, "o": c(1), "mod": 19})
            inner = [{"s": "add", "t": fi, "o": c(2), "mod": 23}]
            if r % 2:
                inner = [{"s": "loop", "start": 0, "stop": 2, "step": 1, "form": "ctx", "body": inner}]
            hist.append({"s": "loop", "start": 0, "stop": 3, "step": 1, "form": "ctx" if r % 4 < 2 else "body", "body": inner})
        elif kind == "foreach":
            hist.append({"s": "foreach", "a": "A1", "enum": bool(r % 2), "body": [{"s": "add", "t": fut("A2", lv(1)), "o": fut("A1", lv(1)), "mod": 7}]})
        elif kind == "foreach-same-context-object":
            # one foreach / enumerate context object kept by the application and entered again: on its own, and inside an open loop
            fe_body = [{"s": "add", "t": fut("A2", lv(1)), "o": fut("A1", lv(1)), "mod": 7}]
            if r % 3 == 1:
                # ... with a conditional (a context made after the last flush) opened inside the kept one
                fe_body = [{"s": "if", "cmp": "ge", "a": fut("A1", c(r % 3)), "b": c(0), "form": "ctx", "body": fe_body}, {"s": "add", "t": fut("A2", c(0)), "o": c(1), "mod": 5}]
            fe = {"s": "foreach", "a": "A1", "enum": bool(r % 2), "reuse": True, "body": fe_body}
            if r % 4 < 2:
                hist.append(fe)
            else:
                hist.append({"s": "loop", "start": 0, "stop": 2, "step": 1, "form": "ctx", "body": [fe, {"s": "add", "t": fut("A2", lv(1)), "o": c(1), "mod": 5}]})
        elif kind == "held-register":
            # a register the application asked for once and keeps: later operations (in later subroutines too) index an array
            # with it while they need counters and temporaries of their own
            if r == 0:
                hist.append({"s": "hold", "h": "G1", "v": 1})
                hist.append({"s": "flush"})
            gi = {"k": "fut", "a": "A2", "i": {"k": "reg", "h": "G1"}}
            if r % 3 == 0:
                hist.append({"s": "add", "t": gi, "o": c(5), "mod": 11})
            elif r % 3 == 1:
                hist.append({"s": "loop", "start": 0, "stop": 2, "step": 1, "form": "ctx", "body": [{"s": "add", "t": gi, "o": lv(1), "mod": 13}]})
            else:
                hist.append({"s": "foreach", "a": "A1", "enum": bool(r % 2), "body": [{"s": "add", "t": gi, "o": fut("A1", lv(1)), "mod": 7}]})
        elif kind == "until":
            nq += 1
            na += 1
            hist.append({"s": "until", "max": 2, "t": fut(f"A{na}", c(0)), "v": 0, "cleanup": [],
                         "body": [{"s": "qubit", "h": f"Q{nq}"}, {"s": "meas", "q": f"Q{nq}", "inplace": False, "into": {"k": "new", "h": f"A{na}"}}]})
            meas += 2
        elif kind == "add-constants":
            # every small constant, zero included, with and without modulus, on array entries and (below) register futures
            hist.append({"s": "add", "t": fut("A2", c(r % 3)), "o": c(0 if r % 2 == 0 else r % 4), "mod": -1 if r % 4 != 3 else 29})
        elif kind == "add-future":
            hist.append({"s": "add", "t": fut("A2", c(r % 3)), "o": fut("A1", c((r + 1) % 3)), "mod": 5 if r % 2 else -1})
        elif kind == "measure-array":
            nq += 1
            na += 1
            hist += [{"s": "qubit", "h": f"Q{nq}"}, {"s": "meas", "q": f"Q{nq}", "inplace": False, "into": {"k": "new", "h": f"A{na}"}}]
            meas += 1
        elif kind in ("measure-register", "measure-register-nonblocking-flush"):
            nq += 1
            hist += [{"s": "qubit", "h": f"Q{nq}"}, {"s": "meas", "q": f"Q{nq}", "inplace": False, "into": {"k": "newreg", "h": f"F{nq}"}}]
            meas += 1
        elif kind == "register-add-future":
            # an outcome kept in a register gets an array entry added to it (parity accumulation)
            nq += 1
            hist += [{"s": "qubit", "h": f"Q{nq}"}, {"s": "meas", "q": f"Q{nq}", "inplace": False, "into": {"k": "newreg", "h": f"F{nq}"}},
                     {"s": "add", "t": {"k": "reg", "h": f"F{nq}"}, "o": fut("A1", c(r % 3)), "mod": 2}]
            meas += 1
        elif kind == "measure-into-the-same-register-future":
            # one register future object is the target of a measurement again and again, as the exit condition of a
            # repeat-until whose body makes further measurements after it (the value must survive to the end of the body)
            if r == 0:
                nq += 1
                hist += [{"s": "qubit", "h": f"Q{nq}"}, {"s": "meas", "q": f"Q{nq}", "inplace": False, "into": {"k": "newreg", "h": "FX"}}]
                meas += 1
            body_ = []
            nq += 1
            body_ += [{"s": "qubit", "h": f"Q{nq}"}, {"s": "meas", "q": f"Q{nq}", "inplace": False, "into": {"k": "reg", "h": "FX"}}]
            for _x in range(1):        # (one: with the alternating outcome script the later outcome then differs from the kept one)
                nq += 1
                body_ += [{"s": "qubit", "h": f"Q{nq}"}, {"s": "gate", "g": "x", "qs": [f"Q{nq}"]},
                          {"s": "meas", "q": f"Q{nq}", "inplace": False, "into": fut("A2", c(_x))}]
            hist.append({"s": "until", "max": 2, "t": {"k": "reg", "h": "FX"}, "v": 0, "cleanup": [], "body": body_})
            meas += 6
        elif kind == "empty-bodies":
            # completed operations whose body emits no instruction at all
            hist.append({"s": "loop", "start": 0, "stop": 3, "step": 1, "form": "ctx" if r % 2 else "body", "body": []})
            hist.append({"s": "foreach", "a": "A1", "enum": bool(r % 2), "body": []})
            hist.append({"s": "if", "cmp": "ez" if r % 2 else "lt", "a": fut("A1", c(0)), "b": c(1), "form": "ctx", "body": []})
            hist.append({"s": "loop", "start": 0, "stop": 2, "step": 1, "form": "ctx", "body": [
                {"s": "loop", "start": 0, "stop": 2, "step": 1, "form": "body", "body": []},
                {"s": "add", "t": fut("A2", lv(1)), "o": c(1), "mod": -1}]})
        elif kind == "nested":
            hist.append({"s": "loop", "start": 0, "stop": 2, "step": 1, "form": "ctx", "body": [
                {"s": "foreach", "a": "A1", "enum": True, "body": [
                    {"s": "if", "cmp": "ez" if r % 2 else "ge", "a": fut("A1", lv(2)), "b": c(1), "form": "ctx", "body": [
                        {"s": "add", "t": fut("A2", lv(2)), "o": lv(1), "mod": -1}]}]}]})
        if (r + 1) % flush_every == 0:
            hist.append({"s": "flush", "block": False} if kind == "measure-register-nonblocking-flush" else {"s": "flush"})
            if kind == "measure-into-the-same-register-future":
                hist.append({"s": "read", "loc": {"k": "reg", "h": "FX"}})
            if kind == "register-add-future":
                hist.append({"s": "read", "loc": {"k": "reg", "h": f"F{nq}"}})
            if kind in ("measure-register", "measure-register-nonblocking-flush"):
                hist.append({"s": "read", "loc": {"k": "reg", "h": f"F{nq}"}})
    hist += [{"s": "flush"}, {"s": "read", "loc": {"k": "arr", "a": "A2"}}]
    return {"history": hist, "meas": [i % 2 for i in range(meas + 4)], "kind": kind}


def long_history(rng: random.Random, nops: int, flush_every: int) -> Dict[str, Any]:
    g = Gen(rng, depth_max=4, bounded=True)
    hist = [g.new_array(3), g.new_array(2)]
    done = 0
    while done < nops:
        hist += g.stmts(1, 0, [], top=True)
        done += 1
        if done % flush_every == 0:
            hist.append({"s": "flush"})
            for h in g.regfs:
                hist.append({"s": "read", "loc": {"k": "reg", "h": h}})
            g.regfs = []
    hist.append({"s": "flush"})
    for a in sorted(g.arrays)[:6]:
        hist.append({"s": "read", "loc": {"k": "arr", "a": a}})
    return {"history": hist, "meas": [rng.randrange(2) for _ in range(g.meas_used + 8)], "kind": "mixed"}


KINDS = ["ez", "nz", "eq", "ne", "lt", "ge", "if-two-futures", "loop", "loop-named-register", "foreach", "foreach-same-context-object", "held-register", "until", "add-constants", "add-future", "future-indexed-by-future", "measure-array", "measure-register", "measure-register-nonblocking-flush", "register-add-future", "measure-into-the-same-register-future", "nested", "empty-bodies"]


EPR_KINDS = ["create_keep", "create_keep_with_info", "recv_keep", "create_keep_sequential", "recv_keep_sequential", "create_context", "recv_context",
             "create_context_refused_body", "recv_context_refused_body", "create_keep_min_fidelity", "recv_keep_min_fidelity", "array_undefine",
             "create_measure", "recv_measure", "create_rsp", "recv_rsp"]
# (an entanglement operation inside an SDK loop, and using the handles returned next to a non-sequential post routine,
#  are not usages the SDK documents; they are not part of the sequences)
RESOURCE = ("available loop register", "registers left", "Ran out of", "no registers", "Could not find free register")


def _run_epr(item):
    """one kind of entanglement operation, repeated, on the real SDK -> controller with the rig's link"""
    import logging
    logging.disable(logging.CRITICAL)
    from . import rig
    from netqasm.sdk.epr_socket import EPRSocket
    i, kind, reps, every = item
    sock = EPRSocket("bob")
    conn = rig.VConnection("alice", max_qubits=5, epr_sockets=[sock])
    conn.ex.meas_script = [0, 1] * (4 * reps + 8)
    conn.link = rig.AutoLink(conn.ex, conn.stack, stepwise=True, mark=True)
    events = []

    def post(c, q, p):
        q.measure()

    def keep(c, q, p):
        q.H()

    def stream(n, tp="K"):
        conn.link.remote.append(dict(remote=1, purpose=0, type=tp, n=n))

    def one():
        if kind == "create_keep":
            sock.create_keep(1)[0].measure()
        elif kind == "create_keep_with_info":
            sock.create_keep_with_info(1)[0][0].measure()
        elif kind == "recv_keep":
            stream(1)
            sock.recv_keep(1)[0].measure()
        elif kind == "create_keep_sequential":
            sock.create_keep(2, post_routine=post, sequential=True)
        elif kind == "recv_keep_sequential":
            stream(2)
            sock.recv_keep(2, post_routine=post, sequential=True)
        elif kind == "create_context":
            with sock.create_context(2) as (q, p):
                q.measure()
        elif kind == "recv_context":
            stream(2)
            with sock.recv_context(2) as (q, p):
                q.measure()
        elif kind in ("create_context_refused_body", "recv_context_refused_body"):
            # the body makes an SDK call that is refused part-way; the application catches the error and carries on:
            # the operation is over (the context closed), its registers must be free again
            if kind.startswith("recv"):
                stream(2)
            try:
                with (sock.create_context(2) if kind.startswith("create") else sock.recv_context(2)) as (q, p):
                    q.measure()
                    q.measure()
            except Exception:
                pass
            else:
                raise RuntimeError("rig: the second measurement of the pair's qubit was not refused")
        elif kind in ("create_keep_min_fidelity", "recv_keep_min_fidelity"):
            # a request with a fidelity constraint (compiled to a loop_until that clears the results array before every
            # attempt); the link is fast, so the first attempt is accepted
            if kind.startswith("recv"):
                stream(1)
            f_ = sock.create_keep if kind.startswith("create") else sock.recv_keep
            f_(1, min_fidelity_all_at_end=80, max_tries=2)[0].measure()
        elif kind == "array_undefine":
            arr_ = conn.new_array(3, init_values=[1, 2, 3])
            arr_.undefine()
        elif kind == "create_measure":
            sock.create_measure(2)
        elif kind == "recv_measure":
            stream(2, "M")
            sock.recv_measure(2)
        elif kind == "create_rsp":
            sock.create_rsp(1)
        elif kind == "recv_rsp":
            stream(1)
            sock.recv_rsp(1)[0].measure()
        elif kind == "post_keep_then_measure":
            for q in sock.create_keep(2, post_routine=keep):
                q.measure()
        elif kind == "sequential_in_loop":
            # an entanglement operation nested in a loop: the loop counter must survive the operation's temporaries
            def body(c, _):
                sock.create_keep(1, post_routine=post, sequential=True)
            conn.loop_body(body, stop=2)

    dead = False
    for n in range(reps):
        err = ""
        try:
            one()
        except Exception as exc:
            err = f"{type(exc).__name__}: {exc}"[:160]
        events.append(dict(a="op", err=err, resource=any(w in err for w in RESOURCE), fault=False, requests=0, pairs=0, active=0))
        if err:
            break
        if (n + 1) % every == 0 or n + 1 == reps:
            ev = dict(a="flush", err="", resource=False, fault=False, requests=0, pairs=0, active=0)
            try:
                conn.flush()
            except (rig.ControllerFault, rig.Stuck) as exc:
                ev["fault"] = True
                ev["err2"] = str(exc)[:160]
                dead = True
            except Exception as exc:
                ev["err"] = f"{type(exc).__name__}: {exc}"[:160]
                ev["resource"] = any(w in ev["err"] for w in RESOURCE)
                dead = True
            ev["requests"] = len(conn.stack.requests)
            ev["pairs"] = sum(1 for g in conn.ex.gate_log if g[0] == "deliver")
            ev["active"] = len(conn.active_qubits)
            events.append(ev)
            if dead:
                break
    return dict(id=i, kind=kind, reps=reps, every=every, events=events)


def run(prop: str, tier: str) -> int:
    V = C.Verdicts(prop, tier)
    tmp = C.tmpdir()
    try:
        rng = random.Random(C.seed() * 733 + 6)
        cases = []
        for kind in KINDS:
            for fe in (1, 3, 10):
                cases.append(one_kind(kind, 40, fe))
        # ... the same while another connection in the process has fourteen loops of its own open: what this connection needs
        # does not depend on that
        for kind in ("nested", "loop", "foreach", "add-future"):
            cases.append(dict(one_kind(kind, 40, 3), other_open=14))
        n = 24 if tier == "quick" else 500
        for k in range(n):
            cases.append(long_history(rng, rng.choice([100, 150, 250] if tier == "quick" else [150, 300, 400]), rng.choice([1, 3, 10])))
        with ProcessPoolExecutor(max_workers=C.ncpu()) as pool:
            rows = list(pool.map(_run_case, [(i + 1, cse, prop) for i, cse in enumerate(cases)], chunksize=2))
        for r in rows:
            if r["err"]:
                cse = cases[r["id"] - 1]
                nops = sum(1 for it in r["items"] if it["s"] not in ("flush", "read", "array"))
                resource = any(w in r["err"] for w in ("available loop register", "registers left", "Ran out of", "no registers"))
                V.add("runs-out-of-registers" if resource else "sdk-raises-while-building",
                      {"kind": cse["kind"], "error": r["err"].split(":")[0]},
                      f"{cse['kind']} history: after {nops} completed operations the SDK raised {r['err']}", {"kind": cse["kind"]})
        good = [r for r in rows if not r["err"]]
        res = validate(prop, good, tmp)
        bad = {}
        for v in res.verdicts:
            bad.setdefault(v[2], v)
        if {r["id"] for r in good} - set(res.ok_ids) - set(bad):
            raise C.MachineryError("HostTrace gave no verdict for some long histories")
        for rid, v in sorted(bad.items()):
            cse = cases[rid - 1]
            V.add("long-history-" + v[1], {"kind": cse["kind"]}, f"{cse['kind']} history ({len(cse['history'])} items): {v[1]} at item {v[3]}", {"kind": cse["kind"]})
        # entanglement operations
        reps = 40 if tier == "quick" else 120
        ejobs = [(j + 1, kind, reps, fe) for j, (kind, fe) in enumerate((kd, fe) for kd in EPR_KINDS for fe in (1, 3, 10))]
        with ProcessPoolExecutor(max_workers=C.ncpu()) as pool:
            erows = list(pool.map(_run_epr, ejobs, chunksize=1))
        eres = C.run_tlc_sharded("EprOps", erows, tmp, shards=min(8, C.ncpu()), tag="e", cfg="EprOps.cfg")
        ebad = {}
        for v in eres.verdicts:
            ebad.setdefault(v[2], v)
        if len(eres.ok_ids) + len(ebad) != len(erows):
            raise C.MachineryError("EprOps gave no verdict for some sequences")
        for rid, v in sorted(ebad.items()):
            r = erows[rid - 1]
            e = r["events"][v[3] - 1] if 0 < v[3] <= len(r["events"]) else {}
            nd = sum(1 for x in r["events"][:v[3]] if x["a"] == "op")
            V.add("epr-" + v[1], {"kind": r["kind"]},
                  f"{r['kind']} x {r['reps']}, flush every {r['every']}: {v[1]} after {nd} completed operations: {e}", {"kind": r["kind"], "every": r["every"]})
        ops = [sum(1 for it in r["items"] if it["s"] not in ("flush", "read", "array")) for r in good]
        cov = {
            "states": res.distinct, "transitions": res.generated, "traces_validated_against_impl": len(good),
            "evaluations": len(rows), "distinct_nontrivial": len([r for r in good if r["id"] in set(res.ok_ids)]),
            "rule": "trace = long history on one connection; non-trivial = compiled completely and accepted by HostTrace; 14 directed kinds x 40 repetitions x flush periods 1/3/10 plus random mixed histories",
            "samples": [{"kind": cases[0]["kind"], "first_items": cases[0]["history"][:4]}, {"kind": "mixed", "items": len(cases[-1]["history"])}],
            "operations_per_history": {"min": min(ops) if ops else 0, "max": max(ops) if ops else 0, "total": sum(ops)},
            "epr_sequences": {"kinds": EPR_KINDS, "repetitions": reps, "flush_every": [1, 3, 10], "validated": len(erows), "tlc_states": eres.distinct},
            "exhaustive": False, "checker_cmd": res.cmd,
        }
        return V.finish("model_checking", cov, ASSUME)
    finally:
        shutil.rmtree(tmp, ignore_errors=True)


def replay_case(prop, case, tmp):
    from . import eng_host as H
    if "history" not in case:
        return None
    row = H._run_case((1, {"history": case["history"], "meas": case["meas"], **({"other_open": case["other_open"]} if case.get("other_open") else {})}, prop))
    res = H.validate(prop, [row], tmp)
    return res.verdicts[0][1] if res.verdicts else None
