"""Shared plumbing of the verification rig: running TLC, evidence files,
known findings, verdict bookkeeping.  Python >= 3.11, standard library only."""
from __future__ import annotations

import hashlib
import json
import os
import re
import shutil
import subprocess
import sys
import tempfile
import time
from dataclasses import dataclass, field
from pathlib import Path
from typing import Any, Dict, Iterable, List, Optional, Tuple

VERIF = Path(__file__).resolve().parent.parent
SPEC = VERIF / "spec"
REPO = Path(os.environ.get("VERIF_REPO", "/repo"))
EVIDENCE = VERIF / "evidence"
REPLAYS = VERIF / "replays"
if os.environ.get("VERIF_OUT_SUFFIX"):
    # runs against a patched scratch tree (tools/finalise_seeds.py) must not overwrite the evidence of /repo
    _alt = Path("/tmp") / ("verif_out" + os.environ["VERIF_OUT_SUFFIX"])
    EVIDENCE, REPLAYS = _alt / "evidence", _alt / "replays"
KNOWN = VERIF / "known_findings.json"
TLA_CP = "/opt/veriftools/tla/tla2tools.jar:/opt/veriftools/tla/CommunityModules-deps.jar"

EXIT_OK, EXIT_VIOLATION, EXIT_MACHINERY = 0, 1, 2


class MachineryError(Exception):
    """The rig itself failed (TLC crash, vacuous run, lost binding...)."""


def seed() -> int:
    try:
        return int(os.environ.get("VERIF_SEED", "0"))
    except ValueError:
        return 0


def ncpu() -> int:
    return max(1, min(16, os.cpu_count() or 1))


@dataclass
class TlcResult:
    rc: int
    out: str
    generated: int = 0
    distinct: int = 0
    depth: int = 0
    prints: List[str] = field(default_factory=list)
    verdicts: List[List[Any]] = field(default_factory=list)
    coverage: Dict[str, int] = field(default_factory=dict)
    wall_s: float = 0.0
    cmd: str = ""
    violated: List[str] = field(default_factory=list)


_TLA_TOK = re.compile(r'\s*(<<|>>|\[|\]|\{|\}|,|\|->|"(?:[^"\\]|\\.)*"|-?\d+|TRUE|FALSE|[A-Za-z_][A-Za-z0-9_]*)')


def parse_tla(text: str):
    """Parse a TLA+ value printed by TLC (tuples, sets, records, functions
    written as records/tuples, strings, ints, booleans, model values)."""
    toks = _TLA_TOK.findall(text)
    pos = 0

    def val():
        nonlocal pos
        t = toks[pos]
        pos += 1
        if t == "<<":
            items = []
            while toks[pos] != ">>":
                items.append(val())
                if toks[pos] == ",":
                    pos += 1
            pos += 1
            return items
        if t == "{":
            items = []
            while toks[pos] != "}":
                items.append(val())
                if toks[pos] == ",":
                    pos += 1
            pos += 1
            return {"#set": items}
        if t == "[":
            rec = {}
            while toks[pos] != "]":
                k = toks[pos]
                pos += 1
                assert toks[pos] == "|->", toks[pos - 2 : pos + 2]
                pos += 1
                rec[k.strip('"')] = val()
                if toks[pos] == ",":
                    pos += 1
            pos += 1
            return rec
        if t.startswith('"'):
            return json.loads(t)
        if t == "TRUE":
            return True
        if t == "FALSE":
            return False
        if re.fullmatch(r"-?\d+", t):
            return int(t)
        return t

    v = val()
    return v


def run_tlc(
    module: str,
    cfg: Optional[str] = None,
    env: Optional[Dict[str, str]] = None,
    workers: Optional[int] = None,
    simulate: Optional[str] = None,
    depth: Optional[int] = None,
    extra: Optional[List[str]] = None,
    timeout: int = 1800,
    coverage: bool = False,
    dfs: bool = False,
    spec_dir: Optional[Path] = None,
    heap: str = "8g",
    check_rc: bool = True,
) -> TlcResult:
    """Run TLC on spec/<module>.tla with spec/<cfg>; returns parsed summary."""
    spec_dir = spec_dir or SPEC
    cfg = cfg or (module + ".cfg")
    meta = tempfile.mkdtemp(prefix="tlcmeta_")
    jopts = [f"-Xmx{heap}", "-Xss128m", "-XX:+UseParallelGC"]
    if dfs:
        jopts.append("-Dtlc2.tool.queue.IStateQueue=StateDeque")
    cmd = ["java", *jopts, "-cp", TLA_CP, "tlc2.TLC", "-metadir", meta, "-noGenerateSpecTE",
           "-config", cfg, "-workers", str(workers or ncpu())]
    if simulate:
        cmd += ["-simulate", simulate]
    if depth:
        cmd += ["-depth", str(depth)]
    if coverage:
        cmd += ["-coverage", "1"]
    cmd += ["-seed", str(seed())] if simulate else []
    cmd += (extra or [])
    cmd += [module + ".tla"]
    e = dict(os.environ)
    e.update(env or {})
    t0 = time.time()
    try:
        p = subprocess.run(cmd, cwd=str(spec_dir), env=e, capture_output=True, text=True, timeout=timeout)
        out, rc = p.stdout + p.stderr, p.returncode
    except subprocess.TimeoutExpired as ex:
        out = (ex.stdout or b"").decode() if isinstance(ex.stdout, bytes) else (ex.stdout or "")
        rc = 124
    finally:
        shutil.rmtree(meta, ignore_errors=True)
    r = TlcResult(rc=rc, out=out, wall_s=time.time() - t0, cmd=" ".join(cmd))
    m = None
    for m in re.finditer(r"(\d+) states generated, (\d+) distinct states found", out):
        pass
    if m:
        r.generated, r.distinct = int(m.group(1)), int(m.group(2))
    m = re.search(r"The depth of the complete state graph search is (\d+)", out)
    if m:
        r.depth = int(m.group(1))
    # TLC's pretty printer wraps a long tuple over several lines: such lines are joined again before parsing,
    # so that a verdict is never lost because one of its fields is a long string
    joined: List[str] = []
    buf: Optional[List[str]] = None
    for line in out.splitlines():
        t = line.strip()
        if buf is not None:
            buf.append(t)
            cur = " ".join(buf)
            if cur.count("<<") == cur.count(">>") and cur.endswith(">>"):
                joined.append(cur)
                buf = None
            elif len(buf) > 60:
                joined += buf
                buf = None
            continue
        if t.startswith("<<") and not (t.endswith(">>") and t.count("<<") == t.count(">>")):
            buf = [t]
            continue
        joined.append(line)
    if buf:
        joined += buf
    for line in joined:
        s = line.strip()
        if s.startswith("<<") and s.endswith(">>"):
            r.prints.append(s)
            if re.match(r'<<\s*"VERDICT"', s):
                try:
                    r.verdicts.append(parse_tla(s)[1:])
                except Exception as ex:  # pragma: no cover
                    raise MachineryError(f"unparsable verdict line {s!r}: {ex}")
        m2 = re.match(r"Error: Invariant (\S+) is violated", s)
        if m2:
            r.violated.append(m2.group(1))
        m2 = re.match(r"Error: Action property (\S+) is violated", s)
        if m2:
            r.violated.append(m2.group(1))
        if "Temporal properties were violated" in s:
            r.violated.append("temporal")
    if coverage:
        for m3 in re.finditer(r"<(\w+) line \d+, col \d+ to line \d+, col \d+ of module (\w+)(?: \([\d ]+\))?>: (\d+):(\d+)", out):
            r.coverage[m3.group(1)] = r.coverage.get(m3.group(1), 0) + int(m3.group(4))
    if check_rc and rc not in (0,) and not r.violated:
        tail = "\n".join(out.splitlines()[-40:])
        raise MachineryError(f"TLC failed (rc={rc}) on {module}/{cfg}:\n{tail}")
    return r


# --------------------------------------------------------------------------
# known findings
# --------------------------------------------------------------------------

def load_known() -> List[Dict[str, Any]]:
    if not KNOWN.exists():
        return []
    return json.loads(KNOWN.read_text())


def canon(obj: Any) -> str:
    return json.dumps(obj, sort_keys=True, separators=(",", ":"))


@dataclass
class Violation:
    prop: str
    clause: str
    witness: Any            # canonical minimal failing case (JSON-able)
    detail: str = ""        # human-readable: expected vs observed
    case: Any = None        # the full (unshrunk) case for the replay file


LAST_VERDICTS = None       # the verdict collector of the running check (see harness.main: a rig failure after definite violations)


class Verdicts:
    """Collects violations of ONE property check, separates known findings
    from new ones, writes replay files and the evidence file."""

    def __init__(self, prop: str, tier: str):
        self.prop, self.tier = prop, tier
        self.t0 = time.time()
        self.violations: List[Violation] = []
        self.known = [k for k in load_known() if k.get("property") == prop and k.get("status") == "known"]
        self.notes: List[str] = []
        global LAST_VERDICTS
        LAST_VERDICTS = self

    def add(self, clause: str, witness: Any, detail: str = "", case: Any = None):
        self.violations.append(Violation(self.prop, clause, witness, detail, case))

    def _is_known(self, v: Violation) -> Optional[Dict[str, Any]]:
        for k in self.known:
            if k.get("clause") == v.clause and canon(k.get("witness")) == canon(v.witness):
                return k
        return None

    def has_new(self) -> bool:
        """is there a violation so far that the known-findings file does not list"""
        return any(self._is_known(v) is None for v in self.violations)

    def finish(self, level: str, coverage: Dict[str, Any], assumptions: List[str]) -> int:
        new: Dict[str, Violation] = {}
        seen_known: Dict[str, Tuple[Dict[str, Any], int]] = {}
        for v in self.violations:
            k = self._is_known(v)
            key = canon([v.clause, v.witness])
            if k is not None:
                c = seen_known.get(key, (k, 0))[1]
                seen_known[key] = (k, c + 1)
            else:
                new.setdefault(key, v)
        for key, (k, c) in sorted(seen_known.items()):
            print(f"KNOWN-FINDING: property={self.prop} {k.get('what_fails', '')} [{c} case(s) this run]")
        REPLAYS.mkdir(parents=True, exist_ok=True)
        for old in REPLAYS.glob(f"{self.prop}-*.json"):
            old.unlink()
        shown = 0
        for key, v in sorted(new.items()):
            shown += 1
            if shown > 8:
                print(f"  ... and {len(new) - 8} more distinct violation witnesses (see evidence/{self.prop}.json)")
                break
            h = hashlib.sha1(key.encode()).hexdigest()[:12]
            path = REPLAYS / f"{self.prop}-{h}.json"
            path.write_text(json.dumps({
                "property": self.prop, "clause": v.clause, "witness": v.witness, "detail": v.detail,
                "case": v.case, "seed": seed(), "tier": self.tier,
                "replay_cmd": f"./check {self.prop} --replay {path}",
            }, indent=1, default=str))
            print(f"VIOLATION property={self.prop} replay={path}")
            print(f"  clause={v.clause} witness={canon(v.witness)[:300]}")
            if v.detail:
                print(f"  {v.detail[:600]}")
        ev = {
            "property_id": self.prop,
            "tier": self.tier,
            "seed": seed(),
            "level": level,
            "coverage": coverage,
            "assumptions": assumptions,
            "wall_s": round(time.time() - self.t0, 2),
            "violations": len(new),
            "violation_witnesses": [{"clause": v.clause, "witness": v.witness} for v in list(new.values())[:50]],
            "known_findings_seen": [
                {"clause": k.get("clause"), "witness": k.get("witness"), "cases": c}
                for (k, c) in seen_known.values()
            ],
        }
        if self.notes:
            ev["notes"] = self.notes
        EVIDENCE.mkdir(parents=True, exist_ok=True)
        (EVIDENCE / f"{self.prop}.json").write_text(json.dumps(ev, indent=1, default=str))
        return EXIT_VIOLATION if new else EXIT_OK


def tmpdir(prefix: str = "verif_") -> str:
    return tempfile.mkdtemp(prefix=prefix)


def write_ndjson(path: str, rows: Iterable[Any]):
    with open(path, "w") as f:
        for r in rows:
            f.write(json.dumps(r, separators=(",", ":")) + "\n")


def read_ndjson(path: str) -> List[Any]:
    with open(path) as f:
        return [json.loads(l) for l in f if l.strip()]


@dataclass
class ShardResult:
    verdicts: List[List[Any]]
    ok_ids: List[int]
    distinct: int
    generated: int
    cmd: str
    coverage: Dict[str, int]


def _run_shard(args):
    module, path, extra_env, cfg = args
    env = {"VERIF_TRACES": path}
    env.update(extra_env or {})
    r = run_tlc(module, cfg=cfg, env=env, workers=1, heap="3g")
    ok = []
    for p in r.prints:
        if p.startswith('<<"OK"') or p.startswith('<<"ACCEPT"'):
            ok.append(parse_tla(p)[1])
    return r.verdicts, ok, r.distinct, r.generated, r.cmd, r.violated, r.out[-1500:]


def run_tlc_sharded(module: str, rows: List[Dict[str, Any]], tmp: str, shards: int = 8, tag: str = "t",
                    env: Optional[Dict[str, str]] = None, cfg: Optional[str] = None) -> ShardResult:
    """Validate trace records with several single-worker TLC processes in parallel
    (a big JSON constant makes multi-worker TLC slower, not faster).  Record ids
    are renumbered per shard and mapped back."""
    from concurrent.futures import ThreadPoolExecutor
    shards = max(1, min(shards, len(rows)))
    jobs, maps = [], []
    for s in range(shards):
        part = rows[s::shards]
        idmap = {}
        out = []
        for n, row in enumerate(part, start=1):
            idmap[n] = row["id"]
            rr = dict(row)
            rr["id"] = n
            out.append(rr)
        path = f"{tmp}/{tag}_{s}.ndjson"
        write_ndjson(path, out)
        jobs.append((module, path, env, cfg))
        maps.append(idmap)
    with ThreadPoolExecutor(max_workers=shards) as pool:
        results = list(pool.map(_run_shard, jobs))
    verdicts, ok, distinct, generated, cmd = [], [], 0, 0, ""
    for (v, o, d, g, c, violated, tail), idmap in zip(results, maps):
        if violated:
            raise MachineryError(f"{module}: invariant of the trace specification itself violated: {violated}\n{tail}")
        for x in v:
            x = list(x)
            x[2] = idmap[x[2]]
            verdicts.append(x)
        ok += sorted({idmap[i] for i in o})
        distinct += d
        generated += g
        cmd = c
    return ShardResult(verdicts, ok, distinct, generated, cmd, {})



import contextlib as _contextlib


@_contextlib.contextmanager
def package_debug_logging():
    """the package's logger at DEBUG (the documented way to get debug output), records sent to a null stream: what the
    package computes may not depend on the log level"""
    import logging
    from netqasm.logging.glob import set_log_level
    prev_disable = logging.root.manager.disable
    logging.disable(logging.NOTSET)
    nlog = logging.getLogger("NetQASM")
    devnull = open(os.devnull, "w")
    saved_level = nlog.level
    saved = [(h, h.stream) for h in nlog.handlers if isinstance(h, logging.StreamHandler)]
    for h, _ in saved:
        h.setStream(devnull)
    set_log_level("DEBUG")
    try:
        yield
    finally:
        nlog.setLevel(saved_level)
        for h, st in saved:
            h.setStream(st)
        logging.disable(prev_disable)
        devnull.close()
