"""C06: pre-compiled templated subroutines equal direct compilation."""
from __future__ import annotations

import copy
import json
import random
import shutil
from concurrent.futures import ProcessPoolExecutor
from typing import Any, Dict, List

from . import common as C
from .eng_host import c, fut, lv, shrink, skeleton, validate

ASSUME = [
    "commit of an instantiated object is specified as Host!Flush of the same operations with the template values filled in; compile leaves nothing pending, exactly as a flush does",
    "template operands occur in rotation numerators (the only operand the SDK documents as templatable); values from {0, 1, 3, 16, 255}",
    "with the NV transpiler the executed gate log is NV-flavoured and is compared between the pre-compiled flow and the direct flow (both real) instead of with Host.tla; arrays and host reads are still compared with Host.tla",
]

VALS = [0, 1, 3, 16, 255]


def gen_history(rng: random.Random) -> Dict[str, Any]:
    """blocks of operations, each ended by flush / compile; compiled objects are committed later in any order"""
    hist: List[Dict[str, Any]] = []
    na = nq = 0
    ntmpl = 0
    arrays: List[str] = []
    compiled: List[int] = []        # number of template values each compiled object needs
    pending_commit: List[int] = []
    meas = 0
    live: List[str] = []
    nblocks = rng.choice([1, 2, 2, 3, 4])
    for b in range(nblocks):
        tm = 0
        as_compiled = rng.random() < 0.65
        if rng.random() < 0.5 or not arrays:
            na += 1
            arrays.append(f"A{na}")
            hist.append({"s": "array", "h": f"A{na}", "len": 2, "init": [rng.choice([0, 1, 2]), rng.choice([0, 1, 2])]})
        if not live or rng.random() < 0.5:
            nq += 1
            live.append(f"Q{nq}")
            hist.append({"s": "qubit", "h": f"Q{nq}"})
        for _ in range(rng.choice([1, 2, 3])):
            q = rng.choice(live)
            p = rng.random()
            if p < 0.6:
                if as_compiled and rng.random() < 0.7:
                    tm += 1
                    n: Any = f"t{tm}"
                else:
                    n = rng.choice(VALS)
                hist.append({"s": "rot", "g": rng.choice(["rot_x", "rot_y", "rot_z"]), "q": q, "n": n, "d": rng.choice([0, 1, 4])})
            elif p < 0.75:
                hist.append({"s": "gate", "g": rng.choice(["h", "x", "z"]), "qs": [q]})
            elif p < 0.9 and arrays:
                a = rng.choice(arrays)
                hist.append({"s": "add", "t": fut(a, c(0)), "o": c(rng.choice([1, 2])), "mod": rng.choice([-1, 3])})
            elif arrays:
                a = rng.choice(arrays)
                hist.append({"s": "if", "cmp": rng.choice(["eq", "ge"]), "a": fut(a, c(1)), "b": c(1), "form": "ctx",
                             "body": [{"s": "gate", "g": "x", "qs": [q]}]})
        if rng.random() < 0.6 and live:
            q = live.pop(rng.randrange(len(live)))
            na += 1
            hist.append({"s": "meas", "q": q, "inplace": False, "into": {"k": "new", "h": f"A{na}"}})
            arrays.append(f"A{na}")
            meas += 1
        if as_compiled:
            hist.append({"s": "compile"})
            compiled.append(tm)
            pending_commit.append(len(compiled))
            if rng.random() < 0.6:                       # commit right away
                o = pending_commit.pop()
                hist.append({"s": "commit", "obj": o, "vals": [rng.choice(VALS) for _ in range(compiled[o - 1])]})
        else:
            hist.append({"s": "flush"})
            if pending_commit and rng.random() < 0.5:     # an object compiled earlier is committed after a later flush
                o = pending_commit.pop(0)
                hist.append({"s": "commit", "obj": o, "vals": [rng.choice(VALS) for _ in range(compiled[o - 1])]})
    # qubits of a compiled-but-not-yet-committed object do not exist on the controller: commit everything in order
    for o in pending_commit:
        hist.append({"s": "commit", "obj": o, "vals": [rng.choice(VALS) for _ in range(compiled[o - 1])]})
    hist.append({"s": "flush"})                          # closing flush: must neither re-declare nor erase arrays
    for a in arrays:
        hist.append({"s": "read", "loc": {"k": "arr", "a": a}})
    hist.append({"s": "flush"})
    return {"history": hist, "meas": [rng.randrange(2) for _ in range(meas + 2)]}


def commits_in_compile_order(hist) -> bool:
    """pre-compiled objects use qubits/arrays in the order they were built; a history is
    meaningful if no object is committed before an object (or flush) it depends on"""
    expected = 1
    for s in hist:
        if s["s"] == "commit":
            if s["obj"] != expected:
                return False
            expected += 1
    return True


def to_direct(hist):
    """the same operations written with the values, flushed where they were compiled
    (only for histories in which every object is committed right after its compilation)"""
    out = []
    i = 0
    vals = None
    while i < len(hist):
        s = hist[i]
        if s["s"] == "compile":
            if i + 1 >= len(hist) or hist[i + 1]["s"] != "commit":
                return None
            vals = hist[i + 1]["vals"]
            # fill the values into the block just emitted
            j = len(out) - 1
            while j >= 0 and out[j]["s"] not in ("flush",):
                if out[j]["s"] == "rot" and isinstance(out[j]["n"], str):
                    out[j] = {**out[j], "n": vals[int(out[j]["n"][1:]) - 1]}
                j -= 1
            out.append({"s": "flush"})
            i += 2
            continue
        out.append(copy.deepcopy(s))
        i += 1
    return out


def _run(item):
    from . import sdkrun
    i, case, nv = item
    kwargs = {}
    if nv:
        from netqasm.sdk.transpile import NVSubroutineTranspiler
        kwargs = {"compiler": NVSubroutineTranspiler}
    run = sdkrun.SdkRun(case["meas"], conn_kwargs=kwargs, nv=nv)
    out = run.run(case["history"])
    out.update(id=i, prop="C06")
    out["fullglog"] = [[g[0], list(g[1]), list(g[2])] for g in run.conn.ex.gate_log]
    return out


def run(prop: str, tier: str) -> int:
    V = C.Verdicts(prop, tier)
    tmp = C.tmpdir()
    try:
        rng = random.Random(C.seed() * 211 + 4)
        n = 300 if tier == "quick" else 3000
        cases, flows = [], []
        # directed: the pattern of the property text
        cases.append({"history": [{"s": "qubit", "h": "Q1"}, {"s": "rot", "g": "rot_x", "q": "Q1", "n": "t1", "d": 4},
                                  {"s": "meas", "q": "Q1", "inplace": False, "into": {"k": "new", "h": "A1"}}, {"s": "compile"},
                                  {"s": "commit", "obj": 1, "vals": [3]}, {"s": "flush"}, {"s": "read", "loc": {"k": "arr", "a": "A1"}}, {"s": "flush"}], "meas": [1, 0]})
        cases.append({"history": [{"s": "qubit", "h": "Q1"}, {"s": "flush"}, {"s": "rot", "g": "rot_z", "q": "Q1", "n": "t1", "d": 1}, {"s": "compile"},
                                  {"s": "array", "h": "A1", "len": 1, "init": [0]}, {"s": "meas", "q": "Q1", "inplace": True, "into": fut("A1", c(0))},
                                  {"s": "commit", "obj": 1, "vals": [0]}, {"s": "flush"}, {"s": "read", "loc": {"k": "arr", "a": "A1"}}], "meas": [1, 0]})
        # the same templated operations pre-compiled again and again on a long-lived qubit, with different values
        for vals in ([3, 5, 0, 7], [1, 1, 16, 1], [255, 0]):
            h = [{"s": "qubit", "h": "Q1"}, {"s": "array", "h": "A1", "len": 1, "init": [0]}, {"s": "flush"}]
            for k_, v_ in enumerate(vals):
                h += [{"s": "rot", "g": "rot_z", "q": "Q1", "n": "t1", "d": 3}, {"s": "rot", "g": "rot_x", "q": "Q1", "n": 1, "d": 1},
                      {"s": "compile"}, {"s": "commit", "obj": k_ + 1, "vals": [v_]}]
            h += [{"s": "meas", "q": "Q1", "inplace": True, "into": fut("A1", c(0))}, {"s": "flush"}, {"s": "read", "loc": {"k": "arr", "a": "A1"}}]
            cases.append({"history": h, "meas": [1, 0]})
        # one template name used by several operands of one compiled subroutine (X^m Z^m corrections), next to another name
        for v1, v2 in ((3, 5), (0, 1), (16, 0)):
            cases.append({"history": [{"s": "qubit", "h": "Q1"}, {"s": "qubit", "h": "Q2"}, {"s": "rot", "g": "rot_x", "q": "Q1", "n": "t1", "d": 4},
                                      {"s": "rot", "g": "rot_z", "q": "Q2", "n": "t1", "d": 4}, {"s": "rot", "g": "rot_y", "q": "Q1", "n": "t2", "d": 1},
                                      {"s": "rot", "g": "rot_x", "q": "Q2", "n": "t1", "d": 0},
                                      {"s": "meas", "q": "Q1", "inplace": False, "into": {"k": "new", "h": "A1"}},
                                      {"s": "meas", "q": "Q2", "inplace": False, "into": {"k": "new", "h": "A2"}}, {"s": "compile"},
                                      {"s": "commit", "obj": 1, "vals": [v1, v2]}, {"s": "flush"}, {"s": "read", "loc": {"k": "arr", "a": "A1"}},
                                      {"s": "read", "loc": {"k": "arr", "a": "A2"}}], "meas": [1, 0]})
        # a qubit allocated where an earlier one was (after a flush), rotated by a value that is 0, while another qubit with a
        # higher id is measured in the same subroutine (on one-communication-qubit hardware this relocates qubits)
        for v in (0, 3):
            for n_ in ("t1", v):
                cases.append({"history": [{"s": "qubit", "h": "Q1"}, {"s": "qubit", "h": "Q2"}, {"s": "qubit", "h": "Q3"},
                                          {"s": "meas", "q": "Q1", "inplace": False, "into": {"k": "new", "h": "A1"}}, {"s": "flush"},
                                          {"s": "qubit", "h": "Q4"}, {"s": "gate", "g": "h", "qs": ["Q4"]}, {"s": "rot", "g": "rot_x", "q": "Q4", "n": n_, "d": 1},
                                          {"s": "meas", "q": "Q3", "inplace": False, "into": {"k": "new", "h": "A2"}}]
                              + ([{"s": "compile"}, {"s": "commit", "obj": 1, "vals": [v]}] if n_ == "t1" else [])
                              + [{"s": "flush"}, {"s": "read", "loc": {"k": "arr", "a": "A2"}},
                                 {"s": "meas", "q": "Q4", "inplace": False, "into": {"k": "new", "h": "A3"}},
                                 {"s": "meas", "q": "Q2", "inplace": False, "into": {"k": "new", "h": "A4"}}, {"s": "flush"}], "meas": [1, 0, 1, 1]})
        # many pre-compiled subroutines that keep an outcome in a register, no flush in between: compile must leave the
        # connection as a flush does, also for the measurement registers
        h = [{"s": "qubit", "h": "Q1"}, {"s": "flush"}]
        for k_ in range(20):
            h += [{"s": "rot", "g": "rot_z", "q": "Q1", "n": "t1", "d": 2}, {"s": "gate", "g": "h", "qs": ["Q1"]},
                  {"s": "meas", "q": "Q1", "inplace": True, "into": {"k": "newreg", "h": f"F{k_ + 1}"}},
                  {"s": "compile"}, {"s": "commit", "obj": k_ + 1, "vals": [k_ % 4]}]
        h += [{"s": "flush"}]
        cases.append({"history": h, "meas": [1, 0] * 12})
        while len(cases) < n:
            cse = gen_history(rng)
            if commits_in_compile_order(cse["history"]):
                cases.append(cse)
        jobs = []
        for i, cse in enumerate(cases):
            for nv in (False, True):
                jobs.append((len(jobs) + 1, cse, nv))
                flows.append(("precompiled", i, nv))
                d = to_direct(cse["history"])
                if d is not None:
                    jobs.append((len(jobs) + 1, {"history": d, "meas": cse["meas"]}, nv))
                    flows.append(("direct", i, nv))
        with ProcessPoolExecutor(max_workers=C.ncpu()) as pool:
            rows = list(pool.map(_run, jobs, chunksize=16))
        for r, (flow, i, nv) in zip(rows, flows):
            if r["err"]:
                V.add("sdk-raises", {"flow": flow, "nv": nv, "error": r["err"].split(":")[0]}, f"{r['err']} on {json.dumps(jobs[r['id'] - 1][1]['history'])[:500]}")
        # with the NV transpiler the SDK compiles for NV hardware and relocates qubits (virtual ids change):
        # those runs are compared flow against flow below, not with Host.tla
        good = [r for r, fl in zip(rows, flows) if not r["err"] and not fl[2]]
        res = validate(prop, good, tmp)
        bad = {}
        for v in res.verdicts:
            bad.setdefault(v[2], v)
        if {r["id"] for r in good} - set(res.ok_ids) - set(bad):
            raise C.MachineryError("HostTrace gave no verdict for some C06 histories")
        nshr = 0
        for rid, v in sorted(bad.items()):
            flow, i, nv = flows[rid - 1]
            case = jobs[rid - 1][1]
            if nshr < 4 and not nv:
                small = shrink(prop, case, v[1], tmp, validate, budget=8)
                nshr += 1
                wit = {"flow": flow, "skeleton": skeleton(small["history"])}
                det = f"minimal: {json.dumps(small['history'])}; "
            else:
                wit = {"flow": flow, "nv": nv, "unshrunk": True, "kinds": sorted({s['s'] for s in case['history']})}
                det = ""
            V.add(v[1], wit, det + f"{flow} flow (NV transpiler {nv}): history {json.dumps(case['history'])[:800]} at item {v[3]}")
        # the two real flows must also agree with each other on the executed gates (this is what decides the NV variant)
        by_key = {}
        for r, key in zip(rows, flows):
            by_key[key] = r
        ncmp = 0
        for (flow, i, nv), r in by_key.items():
            if flow != "direct" or r["err"]:
                continue
            p = by_key.get(("precompiled", i, nv))
            if p is None or p["err"]:
                continue
            ncmp += 1
            if p["fullglog"] != r["fullglog"]:
                V.add("flows-execute-different-gates", {"nv": nv},
                      f"history {json.dumps(cases[i]['history'])[:700]}: precompiled executed {p['fullglog'][:12]} direct executed {r['fullglog'][:12]}")
            po = [(o["fault"], o["arrs"], o["v"]) for o in p["obs"]]
            ro = [(o["fault"], o["arrs"], o["v"]) for o in r["obs"]]
            if po != ro:
                k = next((j for j in range(min(len(po), len(ro))) if po[j] != ro[j]), min(len(po), len(ro)))
                V.add("flows-leave-different-memory", {"nv": nv, "what": "fault" if k < len(po) and k < len(ro) and po[k][0] != ro[k][0] else "arrays-or-reads"},
                      f"history {json.dumps(cases[i]['history'])[:700]}: observation {k}: precompiled {json.dumps(p['obs'][k] if k < len(p['obs']) else None)[:300]} direct {json.dumps(r['obs'][k] if k < len(r['obs']) else None)[:300]}")
        accepted = set(res.ok_ids)
        cov = {
            "states": res.distinct, "transitions": res.generated, "traces_validated_against_impl": len(good),
            "evaluations": len(rows), "distinct_nontrivial": len({json.dumps(jobs[r["id"] - 1][1]["history"]) + str(flows[r["id"] - 1][2]) for r in good if r["id"] in accepted}),
            "rule": "trace = history mixing compile / instantiate+commit / flush on one connection (objects committed at once or after later flushes), executed in the pre-compiled flow and, where every commit follows its compile, also in the direct flow, without and with the NV transpiler; all distinct accepted histories are non-trivial (they contain a commit)",
            "samples": [cases[0]["history"], cases[5]["history"]], "flow_pairs_compared": ncmp,
            "exhaustive": False, "checker_cmd": res.cmd,
        }
        return V.finish("model_checking", cov, ASSUME)
    finally:
        shutil.rmtree(tmp, ignore_errors=True)
