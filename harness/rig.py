"""The rig: real netqasm objects driven at the specification's grain.

Nothing in /repo is modified: VExecutor / VController / VConnection only
override the documented simulator extension points."""
from __future__ import annotations

import re
from typing import Any, Dict, List, Optional, Tuple

from netqasm.backend.executor import Executor
from netqasm.backend.network_stack import BaseNetworkStack
from netqasm.lang.encoding import RegisterName
from netqasm.lang.subroutine import Subroutine
from netqasm.sdk.shared_memory import SharedMemoryManager

from . import isa

BANKS = [RegisterName.R, RegisterName.C, RegisterName.Q, RegisterName.M]
STEP = ("step",)
WAIT = ("wait",)


class ScriptExhausted(Exception):
    pass


class VExecutor(Executor):
    """Base executor + scripted measurement outcomes + a gate log + one yield
    per executed instruction (so that the rig can step and snapshot)."""

    def __init__(self, name="verif", node_id=0, meas_script=None):
        super().__init__(name=name)
        self._vnode_id = node_id
        self.meas_script: List[int] = list(meas_script or [])
        self.gate_log: List[Tuple] = []
        self.step_mode = True

    @property
    def node_id(self) -> int:
        return self._vnode_id

    # --- simulator hooks -------------------------------------------------
    def _phys(self, subroutine_id, address):
        return self._get_position(subroutine_id=subroutine_id, address=address)

    def _do_single_qubit_instr(self, instr, subroutine_id, address):
        p = self._phys(subroutine_id, address)
        self.gate_log.append((instr.mnemonic, (address,), (), (p,)))
        return None

    def _do_single_qubit_rotation(self, instr, subroutine_id, address, angle):
        p = self._phys(subroutine_id, address)
        self.gate_log.append((instr.mnemonic, (address,), (instr.angle_num.value, instr.angle_denom.value), (p,)))
        return None

    def _do_two_qubit_instr(self, instr, subroutine_id, address1, address2):
        p = (self._phys(subroutine_id, address1), self._phys(subroutine_id, address2))
        self.gate_log.append((instr.mnemonic, (address1, address2), (), p))
        return None

    def _do_controlled_qubit_rotation(self, instr, subroutine_id, address1, address2, angle):
        p = (self._phys(subroutine_id, address1), self._phys(subroutine_id, address2))
        self.gate_log.append((instr.mnemonic, (address1, address2), (instr.angle_num.value, instr.angle_denom.value), p))
        return None

    def _do_meas(self, subroutine_id, q_address):
        p = self._phys(subroutine_id, q_address)
        if not self.meas_script:
            raise ScriptExhausted("measurement script exhausted")
        out = self.meas_script.pop(0)
        self.gate_log.append(("meas", (q_address,), (out,), (p,)))
        return out

    def _do_wait(self):
        yield WAIT

    def _wait_to_handle_epr_responses(self):
        # The base class calls itself recursively until the response can be handled
        # (RecursionError); every simulator overrides this.  Retrying is a separate,
        # schedulable action of the rig.
        return None

    def _execute_command(self, subroutine_id, command):
        yield from super()._execute_command(subroutine_id, command)
        if self.step_mode:
            yield STEP


def fresh_executor(name="verif", node_id=0, meas_script=None) -> VExecutor:
    SharedMemoryManager.reset_memories()
    return VExecutor(name=name, node_id=node_id, meas_script=meas_script)


# --- projection -----------------------------------------------------------

def opt(v):
    if v is None:
        return [0, 0]
    if isinstance(v, bool) or not isinstance(v, int):
        return [1, repr(v)]
    return [1, v]


def regfile(groups) -> Dict[int, Any]:
    out = {}
    for b, name in enumerate(BANKS):
        g = groups[name]
        for idx, val in g._register.items():
            out[b * 16 + idx] = val
    return out


def project(ex: VExecutor, app: int, sub_id: Optional[int], regset: List[int], addrs: List[int]) -> Dict[str, Any]:
    regs = regfile(ex._registers[app])
    sh = ex._shared_memories[app]
    shregs = regfile(sh._registers)
    arrs = ex._app_arrays[app]._arrays
    sharrs = sh._arrays._arrays
    stray = sorted(set(k for k, v in regs.items() if v is not None and k not in regset)
                   | set(k for k, v in shregs.items() if v is not None and k not in regset))
    stray_arr = sorted(a for a in list(arrs) + list(sharrs) if a not in addrs)
    return {
        "regs": [opt(regs.get(r)) for r in regset],
        "shregs": [opt(shregs.get(r)) for r in regset],
        "arrs": [{"ex": a in arrs, "v": [opt(x) for x in arrs.get(a, [])]} for a in addrs],
        "sharrs": [{"ex": a in sharrs, "v": [opt(x) for x in sharrs.get(a, [])]} for a in addrs],
        "um": [(-1 if p is None else p) for p in ex._qubit_unit_modules[app]],
        "used": sorted(ex._used_physical_qubit_addresses),
        "pc": ex._program_counters.get(sub_id, 0) if sub_id is not None else 0,
        "_stray": ("regs " + ",".join(map(str, stray)) if stray else "") + ("arrays " + ",".join(map(str, stray_arr)) if stray_arr else ""),
    }


FAULT_RE = re.compile(r"^At line (\d+):")


def run_case(case: Dict[str, Any], max_steps: int = 200) -> Dict[str, Any]:
    """Execute the case's subroutines on the real executor, one instruction at
    a time, logging the projected state after every step."""
    app = 0
    ex = fresh_executor(meas_script=case["meas"])
    ex.init_new_application(app_id=app, max_qubits=case["umsize"])
    regset, addrs = case["regset"], case["addrs"]
    steps: List[Dict[str, Any]] = []
    clss = {c.mnemonic: c for c in isa.classes("vanilla")}
    clss.update({c.mnemonic: c for c in isa.classes("nv") if c.mnemonic.startswith("crot")})
    shapes = {e["mn"]: e["shape"] for fl in ("vanilla", "nv") for e in isa.extract_table()[fl]}

    def log(kind, sub, status, fline=-1):
        p = project(ex, app, cur_id, regset, addrs)
        stray = p.pop("_stray")
        p["status"], p["fline"] = status, fline
        steps.append({"kind": kind, "sub": sub, "post": p, "stray": stray})

    cur_id = None
    total = 0
    for si, prog in enumerate(case["progs"], start=1):
        real = [isa.build(clss[i["mn"]], shapes[i["mn"]], i["ops"]) for i in prog]
        sub = Subroutine(instructions=real, app_id=app, netqasm_version=(0, 0))
        cur_id = ex._next_subroutine_id
        gen = ex.execute_subroutine(sub)
        log("start", si, "run")
        stop = False
        waits = 0
        while True:
            total += 1
            if total > max_steps:
                stop = True
                break
            try:
                y = next(gen)
            except StopIteration:
                # the program counter entry is gone once the subroutine is cleared
                p_pc = len(real)
                log("exec", si, "done")
                steps[-1]["post"]["pc"] = steps[-2]["post"]["pc"] if len(steps) > 1 else p_pc
                break
            except ScriptExhausted:
                stop = True
                steps.append({"kind": "abort", "sub": si, "post": steps[-1]["post"], "stray": ""})
                break
            except Exception as exc:  # fault
                mm = FAULT_RE.match(str(exc))
                log("exec", si, "fault", int(mm.group(1)) if mm else -2)
                steps[-1]["exc"] = f"{type(exc).__name__}: {str(exc).splitlines()[0]}"[:200]
                stop = True
                break
            if y != WAIT and y != STEP:
                continue        # a yield of a simulator hook (e.g. clearing a physical qubit): not a step
            if y == WAIT:
                waits += 1
                log("exec", si, "wait")
                if waits >= 2:
                    stop = True
                    break
                continue
            log("exec", si, "run")
        if stop:
            break
    out = dict(case)
    out["steps"] = [s for s in steps if s["kind"] != "abort"]
    out["gate_log"] = [list(map(list, g[:3])) for g in ex.gate_log]
    return out
