"""The rig: real netqasm objects driven at the specification's grain.

Nothing in /repo is modified: VExecutor / VController / VConnection only
override the documented simulator extension points."""
from __future__ import annotations

import os
import re
from typing import Any, Dict, List, Optional, Tuple

from netqasm.backend.executor import Executor
from netqasm.backend.network_stack import BaseNetworkStack
from netqasm.lang.encoding import RegisterName
from netqasm.lang.subroutine import Subroutine
from netqasm.sdk.shared_memory import SharedMemoryManager

from . import isa

BANKS = [RegisterName.R, RegisterName.C, RegisterName.Q, RegisterName.M]
STEP = ("step",)
WAIT = ("wait",)


class ScriptExhausted(Exception):
    pass


from netqasm.logging.output import InstrLogger as _InstrLogger  # noqa: E402


class VInstrLogger(_InstrLogger):
    """the package's instruction logger with the three simulator hooks filled in (no quantum state is kept)"""

    @classmethod
    def _get_qubit_states(cls, subroutine_id, qubit_ids):
        return None

    @classmethod
    def _get_qubit_groups(cls):
        return None

    def _get_node_name(self):
        return "verif"


class VExecutor(Executor):
    """Base executor + scripted measurement outcomes + a gate log + one yield
    per executed instruction (so that the rig can step and snapshot)."""
    instr_logger_class = VInstrLogger

    def __init__(self, name="verif", node_id=0, meas_script=None, instr_log_dir=None, **kwargs):
        super().__init__(name=name, instr_log_dir=instr_log_dir)
        self._vnode_id = node_id
        self.meas_script: List[int] = list(meas_script or [])
        self.gate_log: List[Tuple] = []
        self.step_mode = True

    @property
    def node_id(self) -> int:
        return self._vnode_id

    # --- simulator hooks -------------------------------------------------
    def _phys(self, subroutine_id, address):
        return self._get_position(subroutine_id=subroutine_id, address=address)

    def _do_single_qubit_instr(self, instr, subroutine_id, address):
        p = self._phys(subroutine_id, address)
        self.gate_log.append((instr.mnemonic, (address,), (), (p,)))
        return None

    def _do_single_qubit_rotation(self, instr, subroutine_id, address, angle):
        p = self._phys(subroutine_id, address)
        self.gate_log.append((instr.mnemonic, (address,), (instr.angle_num.value, instr.angle_denom.value), (p,)))
        return None

    def _do_two_qubit_instr(self, instr, subroutine_id, address1, address2):
        p = (self._phys(subroutine_id, address1), self._phys(subroutine_id, address2))
        self.gate_log.append((instr.mnemonic, (address1, address2), (), p))
        return None

    def _do_controlled_qubit_rotation(self, instr, subroutine_id, address1, address2, angle):
        p = (self._phys(subroutine_id, address1), self._phys(subroutine_id, address2))
        self.gate_log.append((instr.mnemonic, (address1, address2), (instr.angle_num.value, instr.angle_denom.value), p))
        return None

    def _do_meas(self, subroutine_id, q_address):
        p = self._phys(subroutine_id, q_address)
        if not self.meas_script:
            raise ScriptExhausted("measurement script exhausted")
        out = self.meas_script.pop(0)
        self.gate_log.append(("meas", (q_address,), (out,), (p,)))
        return out

    def _do_wait(self):
        yield WAIT

    def _free_physical_qubit(self, subroutine_id, address):
        if getattr(self, "log_qfree", False):
            um = self._get_unit_module(subroutine_id)
            if 0 <= address < len(um) and um[address] is not None:
                self.gate_log.append(("qfree", (address,), (), (um[address],)))
        yield from super()._free_physical_qubit(subroutine_id, address)

    def _clear_phys_qubit_in_memory(self, physical_address):
        # the backend hook that resets a physical qubit: WHICH qubit it is asked to reset is part of the quantum history
        if getattr(self, "log_clear", False):
            self.gate_log.append(("clear", (), (), (physical_address,)))
        yield from super()._clear_phys_qubit_in_memory(physical_address)

    def _wait_to_handle_epr_responses(self):
        # The base class calls itself recursively until the response can be handled
        # (RecursionError); every simulator overrides this.  Retrying is a separate,
        # schedulable action of the rig.
        return None

    def _execute_command(self, subroutine_id, command):
        self.current_cmd = command          # what was being executed if a fault is raised
        # a subroutine that does not end (a clobbered loop counter) must not hang the check
        self.exec_count = getattr(self, "exec_count", 0) + 1
        if self.exec_count > getattr(self, "exec_limit", 400000):
            self.exec_count = 0
            raise Runaway(f"more than {getattr(self, 'exec_limit', 400000)} instructions executed on this controller without the subroutine ending")
        yield from super()._execute_command(subroutine_id, command)
        if self.step_mode:
            yield STEP


class Runaway(RuntimeError):
    pass


def fresh_executor(name="verif", node_id=0, meas_script=None, instr_log_dir=None) -> VExecutor:
    SharedMemoryManager.reset_memories()
    Executor._INSTR_LOGGERS.clear()          # (the package keeps one logger per node name for the whole process, bound to its first executor)
    return VExecutor(name=name, node_id=node_id, meas_script=meas_script, instr_log_dir=instr_log_dir)


# --- projection -----------------------------------------------------------

def opt(v):
    if v is None:
        return [0, 0]
    if isinstance(v, bool) or not isinstance(v, int):
        return [1, repr(v)]
    return [1, v]


def regfile(groups) -> Dict[int, Any]:
    out = {}
    for b, name in enumerate(BANKS):
        g = groups[name]
        # through the public item access (16 registers per bank), whatever the group keeps them in
        for idx in range(16):
            try:
                out[b * 16 + idx] = g[idx]
            except Exception:
                out[b * 16 + idx] = None
    return out


def project(ex: VExecutor, app: int, sub_id: Optional[int], regset: List[int], addrs: List[int]) -> Dict[str, Any]:
    regs = regfile(ex._registers[app])
    sh = ex._shared_memories[app]
    shregs = regfile(sh._registers)
    arrs = ex._app_arrays[app]._arrays
    sharrs = sh._arrays._arrays
    stray = sorted(set(k for k, v in regs.items() if v is not None and k not in regset)
                   | set(k for k, v in shregs.items() if v is not None and k not in regset))
    stray_arr = sorted(a for a in list(arrs) + list(sharrs) if a not in addrs)
    return {
        "regs": [opt(regs.get(r)) for r in regset],
        "shregs": [opt(shregs.get(r)) for r in regset],
        "arrs": [{"ex": a in arrs, "v": [opt(x) for x in arrs.get(a, [])]} for a in addrs],
        "sharrs": [{"ex": a in sharrs, "v": [opt(x) for x in sharrs.get(a, [])]} for a in addrs],
        "um": [(-1 if p is None else p) for p in ex._qubit_unit_modules[app]],
        "used": sorted(ex._used_physical_qubit_addresses),
        "pc": ex._program_counters.get(sub_id, 0) if sub_id is not None else 0,
        "_stray": ("regs " + ",".join(map(str, stray)) if stray else "") + ("arrays " + ",".join(map(str, stray_arr)) if stray_arr else ""),
    }


FAULT_RE = re.compile(r"^At line (\d+):")


def run_case(case: Dict[str, Any], max_steps: int = 200) -> Dict[str, Any]:
    """Execute the case's subroutines on the real executor, one instruction at
    a time, logging the projected state after every step."""
    if case.get("hw"):
        from netqasm.runtime import settings as _settings
        _settings.set_is_using_hardware(True)
        try:
            return run_case({k: v for k, v in case.items() if k != "hw"}, max_steps) | {"hw": True}
        finally:
            _settings.set_is_using_hardware(False)
    app = 0
    ex = fresh_executor(meas_script=case["meas"])
    ex.init_new_application(app_id=app, max_qubits=case["umsize"])
    regset, addrs = case["regset"], case["addrs"]
    steps: List[Dict[str, Any]] = []
    clss = {c.mnemonic: c for c in isa.classes("vanilla")}
    clss.update({c.mnemonic: c for c in isa.classes("nv") if c.mnemonic.startswith("crot")})
    shapes = {e["mn"]: e["shape"] for fl in ("vanilla", "nv") for e in isa.extract_table()[fl]}

    def log(kind, sub, status, fline=-1):
        p = project(ex, app, cur_id, regset, addrs)
        stray = p.pop("_stray")
        p["status"], p["fline"] = status, fline
        steps.append({"kind": kind, "sub": sub, "post": p, "stray": stray})

    cur_id = None
    total = 0
    for si, prog in enumerate(case["progs"], start=1):
        real = [isa.build(clss[i["mn"]], shapes[i["mn"]], i["ops"]) for i in prog]
        sub = Subroutine(instructions=real, app_id=app, netqasm_version=(0, 0))
        cur_id = ex._next_subroutine_id
        gen = ex.execute_subroutine(sub)
        log("start", si, "run")
        stop = False
        waits = 0
        while True:
            total += 1
            if total > max_steps:
                stop = True
                break
            try:
                y = next(gen)
            except StopIteration:
                # the program counter entry is gone once the subroutine is cleared
                p_pc = len(real)
                log("exec", si, "done")
                steps[-1]["post"]["pc"] = steps[-2]["post"]["pc"] if len(steps) > 1 else p_pc
                break
            except ScriptExhausted:
                stop = True
                steps.append({"kind": "abort", "sub": si, "post": steps[-1]["post"], "stray": ""})
                break
            except Exception as exc:  # fault
                mm = FAULT_RE.match(str(exc))
                log("exec", si, "fault", int(mm.group(1)) if mm else -2)
                steps[-1]["exc"] = f"{type(exc).__name__}: {str(exc).splitlines()[0]}"[:200]
                stop = True
                break
            if y != WAIT and y != STEP:
                continue        # a yield of a simulator hook (e.g. clearing a physical qubit): not a step
            if y == WAIT:
                waits += 1
                log("exec", si, "wait")
                if waits >= 2:
                    stop = True
                    break
                continue
            log("exec", si, "run")
        del sub, gen, real        # (nothing of a finished subroutine is kept by the host side)
        if stop:
            break
    out = dict(case)
    out["steps"] = [s for s in steps if s["kind"] != "abort"]
    out["gate_log"] = [list(map(list, g[:3])) for g in ex.gate_log]
    return out


# --------------------------------------------------------------------------
# EPR rig: recording network stack, scripted responses, schedule replay
# --------------------------------------------------------------------------
from netqasm.qlink_compat import BellState, LinkLayerOKTypeK, LinkLayerOKTypeM, RequestType, ReturnType  # noqa: E402


class RecordingStack(BaseNetworkStack):
    def __init__(self):
        self.requests = []
        self.sockets = []

    reject_over = None          # a stack that refuses requests for more than this many pairs

    def put(self, request):
        if self.reject_over is not None and request.number > self.reject_over:
            raise RuntimeError(f"the network stack refuses a request for {request.number} pairs")
        self.requests.append(request)

    def setup_epr_socket(self, epr_socket_id, remote_node_id, remote_epr_socket_id, timeout=1.0):
        self.sockets.append((epr_socket_id, remote_node_id, remote_epr_socket_id))
        return None

    def get_purpose_id(self, remote_node_id, epr_socket_id):
        return epr_socket_id


_LOGDIR = None


def _instr_log_dir() -> str:
    """one scratch directory per process for the package's instruction logs, removed when the process ends"""
    global _LOGDIR
    if _LOGDIR is None:
        import tempfile
        base = os.environ.get("VERIF_INSTRLOG_DIR")        # set by the engine: inside the check's own scratch directory
        if base:
            os.makedirs(base, exist_ok=True)
            _LOGDIR = tempfile.mkdtemp(prefix="p", dir=base)
        else:
            import atexit
            import shutil
            _LOGDIR = tempfile.mkdtemp(prefix="verif_instrlog_")
            atexit.register(shutil.rmtree, _LOGDIR, True)
            if os.environ.get("VERIF_DEBUG"):
                import traceback
                open("/tmp/verif_instrlog_who.txt", "a").write("".join(traceback.format_stack()[-8:]) + "\n----\n")
    return _LOGDIR


class EprRun:
    """One scenario of harness/epr_scn.py on the real executor, driven action by action."""

    def __init__(self, scn):
        self.scn = scn
        self._logdir = None
        if scn.get("instr_log"):
            # the package's instruction logger (documented to be side-effect free) is switched on
            self._logdir = _instr_log_dir()
        self.ex = fresh_executor(node_id=0, instr_log_dir=self._logdir)
        self.stack = RecordingStack()
        self.stack.reject_over = scn.get("reject_over")
        self.pending_recover = False
        self.ex.network_stack = self.stack
        self.app = 0
        self.ex.init_new_application(app_id=0, max_qubits=scn["umsize"])
        clss = {c.mnemonic: c for c in isa.classes("vanilla")}
        shapes = {e["mn"]: e["shape"] for e in isa.extract_table()["vanilla"]}
        self._mk = lambda i: isa.build(clss[i["mn"]], shapes[i["mn"]], i["ops"])
        setup = []
        T0, T1, T2 = 15, 14, 13
        for a in scn["arrs"]:
            setup += [{"mn": "set", "ops": [T0, len(a["v"])]}, {"mn": "array", "ops": [T0, a["a"]]}]
            for idx, e in enumerate(a["v"]):
                if e[0] == 1:
                    setup += [{"mn": "set", "ops": [T1, e[1]]}, {"mn": "set", "ops": [T2, idx]}, {"mn": "store", "ops": [T1, a["a"], T2]}]
        for v in scn["alloc"]:
            setup += [{"mn": "set", "ops": [32 + 15, v]}, {"mn": "qalloc", "ops": [32 + 15]}]
        for r in scn["regs"]:
            setup.append({"mn": "set", "ops": [r["r"], r["v"]]})
        self.ex.step_mode = False
        for _ in self.ex.execute_subroutine(Subroutine(instructions=[self._mk(i) for i in setup], app_id=0, netqasm_version=(0, 0))):
            pass
        self.ex.step_mode = True
        self.progs = scn.get("progs") or [scn["prog"]]
        self.cur = 0
        self.sub_id = self.ex._next_subroutine_id
        self.gen = self.ex.execute_subroutine(Subroutine(instructions=[self._mk(i) for i in self.progs[0]], app_id=0, netqasm_version=(0, 0)))
        self.finished = False
        self.fault = None
        self.herr = False
        self.nput = 0
        self.seq = 0
        self.net = [dict(dir=1, remote=s["remote"], purpose=s["purpose"], type=s["type"], left=s["n"]) for s in scn["remote"]]

    # ---- actions -------------------------------------------------------
    def _sync_net(self):
        while self.nput < len(self.stack.requests):
            rq = self.stack.requests[self.nput]
            self.nput += 1
            self.net.append(dict(dir=0, remote=rq.remote_node_id, purpose=rq.purpose_id,
                                 type="K" if rq.type == RequestType.K else "M", left=rq.number))

    def step(self) -> str:
        """'stepped' | 'blocked' | 'finished' | 'fault'"""
        if self.pending_recover:
            # the host sends the application's next subroutine after the error
            self.pending_recover, self.fault, self.finished = False, None, False
            self.cur += 1
            self.sub_id = self.ex._next_subroutine_id
            self.gen = self.ex.execute_subroutine(Subroutine(instructions=[self._mk(i) for i in self.progs[self.cur]], app_id=0, netqasm_version=(0, 0)))
            return "recovered"
        if self.finished:
            return "finished"
        while True:
            try:
                y = next(self.gen)
            except StopIteration:
                if self.cur + 1 < len(self.progs):
                    # the next subroutine of the application starts on the state this one left
                    self.cur += 1
                    self.sub_id = self.ex._next_subroutine_id
                    self.gen = self.ex.execute_subroutine(Subroutine(instructions=[self._mk(i) for i in self.progs[self.cur]], app_id=0, netqasm_version=(0, 0)))
                    return "next-subroutine"
                self.finished = True
                return "finished"
            except Exception as exc:
                self.finished = True
                self.fault = f"{type(exc).__name__}: {str(exc).splitlines()[0]}"[:200]
                if self.scn.get("recover") and self.cur + 1 < len(self.progs):
                    self.pending_recover = True
                return "fault"
            if y == STEP:
                self._sync_net()
                return "stepped"
            if y == WAIT:
                return "blocked"

    def deliverable(self):
        out = []
        for s, st in enumerate(self.net):
            if st["left"] > 0 and all(not (t["dir"] == st["dir"] and (t["remote"], t["purpose"]) == (st["remote"], st["purpose"]) and t["left"] > 0)
                                      for t in self.net[:s]):
                out.append(s)
        return out

    def deliver(self, s):
        st = self.net[s]
        st["left"] -= 1
        seq = self.seq
        self.seq += 1
        if st["type"] == "K":
            phys = self.ex._get_unused_physical_qubit()
            resp = LinkLayerOKTypeK(type=ReturnType.OK_K, create_id=0, logical_qubit_id=phys, directionality_flag=st["dir"],
                                    sequence_number=seq, purpose_id=st["purpose"], remote_node_id=st["remote"],
                                    goodness=0, goodness_time=0, bell_state=BellState(seq % 4))
        else:
            resp = LinkLayerOKTypeM(type=ReturnType.OK_M, create_id=0, measurement_outcome=seq % 2, measurement_basis=0,
                                    directionality_flag=st["dir"], sequence_number=seq, purpose_id=st["purpose"],
                                    remote_node_id=st["remote"], goodness=0, bell_state=BellState(seq % 4))
        if self.scn.get("q10"):
            import qlink_interface as q10
            common = dict(create_id=resp.create_id, directionality_flag=resp.directionality_flag, sequence_number=resp.sequence_number,
                          purpose_id=resp.purpose_id, remote_node_id=resp.remote_node_id, goodness=resp.goodness, bell_state=resp.bell_state)
            if st["type"] == "K":
                resp = q10.ResCreateAndKeep(logical_qubit_id=resp.logical_qubit_id, time_of_goodness=resp.goodness_time, **common)
            else:
                resp = q10.ResMeasureDirectly(measurement_outcome=resp.measurement_outcome, measurement_basis=q10.MeasurementBasis(0), **common)
        try:
            self.ex._handle_epr_response(resp)
        except Exception as exc:
            self.herr = True
            self.herr_msg = f"{type(exc).__name__}: {str(exc).splitlines()[0]}"[:200]

    def retry(self):
        try:
            self.ex._handle_pending_epr_responses()
        except Exception as exc:
            self.herr = True
            self.herr_msg = f"{type(exc).__name__}: {str(exc).splitlines()[0]}"[:200]

    # ---- projection ----------------------------------------------------
    def project(self):
        ex, scn = self.ex, self.scn
        regs = regfile(ex._registers[0])
        arrs = ex._app_arrays[0]._arrays
        def q(d):
            keys = sorted(k for k, v in d.items() if v)
            return [list(k) for k in keys], [[{"key": list(k), "qarr": (-1 if r.q_array_address is None else r.q_array_address),
                                               "res": r.ent_results_array_address, "tot": r.tot_pairs, "left": r.pairs_left} for r in d[k]] for k in keys]
        # The request queues are private bookkeeping. If a refactoring moved them, the observable part of the
        # state (arrays, unit module, used set, registers, pc, pending responses) still binds the run to the
        # specification; the queue comparison is then switched off for this trace instead of failing the rig.
        opaque = False
        try:
            ck, cq = q(ex._epr_create_requests)
            rk, rq = q(ex._epr_recv_requests)
        except AttributeError:
            opaque, ck, cq, rk, rq = True, [], [], [], []
        status = "fault" if self.fault else ("done" if self.finished else "run")
        return {
            "opaque": opaque,
            "regs": [opt(regs.get(r["r"])) for r in scn["regs"]],
            "arrs": [[opt(x) for x in arrs.get(a["a"], [])] for a in scn["arrs"]],
            "um": [(-1 if p is None else p) for p in ex._qubit_unit_modules[0]],
            "used": sorted(ex._used_physical_qubit_addresses),
            "pc": ex._program_counters.get(self.sub_id, 0) if not self.finished or self.fault else self._last_pc,
            "status": status, "ckeys": ck, "createQ": cq, "rkeys": rk, "recvQ": rq,
            "pending": [r.sequence_number for r in ex._pending_epr_responses], "herr": self.herr,
        }

    _last_pc = 0

    def apply(self, act):
        """Apply one action; returns the event (with post-state) or None if the action
        is not enabled / changes nothing (a blocked wait, an idle retry)."""
        pre = self.project()
        if act[0] == "step":
            self._last_pc = pre["pc"]
            r = self.step()
            if r == "blocked":
                # the scheduler resumed a waiting subroutine although nothing arrived: it has to find itself still
                # waiting (one such poll per waiting state is an event of the schedule; a second one in a row is not)
                if self.just_polled:
                    return None
                self.just_polled = True
                return {"a": "poll", "post": self.project()}
            self.just_polled = False
            if r == "recovered":
                ev = {"a": "recover"}
            elif r == "next-subroutine":
                ev = {"a": "finish"}
            elif r == "finished":
                self._last_pc = pre["pc"]
                ev = {"a": "finish"}
            else:
                ev = {"a": "step"}
        elif act[0] == "deliver":
            self.deliver(act[1])
            ev = {"a": "deliver", "s": act[1] + 1}
        else:
            self.retry()
            ev = {"a": "retry"}
        post = self.project()
        if act[0] == "retry" and post == pre:
            return None
        self.just_polled = False
        ev["post"] = post
        return ev

    just_polled = False

    def enabled(self):
        acts = []
        if self.herr:
            return acts
        if not self.finished or self.pending_recover:
            acts.append(("step",))
        acts += [("deliver", s) for s in self.deliverable()]
        if self.ex._pending_epr_responses:
            acts.append(("retry",))
        return acts


def explore_schedules(scn, max_depth=40, max_paths=4000):
    """Stateless DFS over ALL schedules of the real executor for one scenario,
    pruned by the projected state.  Returns the list of explored paths, each a
    list of events (action + projected post-state)."""
    paths, seen = [], set()
    import json as _json

    def replay(prefix):
        run = EprRun(scn)
        evs = []
        for a in prefix:
            evs.append(run.apply(a))
        return run, evs

    stack = [[]]
    edges = 0
    while stack and len(paths) < max_paths:
        prefix = stack.pop()
        run, evs = replay(prefix)
        if any(e is None for e in evs):
            continue
        key = _json.dumps([run.project(), run.finished, [s["left"] for s in run.net], run.just_polled], sort_keys=True)
        if prefix and key in seen:
            paths.append(evs)
            continue
        seen.add(key)
        acts = run.enabled() if len(prefix) < max_depth else []
        ext = []
        for a in acts:
            r2, e2 = replay(prefix + [a])
            if e2[-1] is not None:
                ext.append(a)
        if not ext:
            if len(prefix) < max_depth and evs:
                # nothing more can happen on the real executor: the schedule is complete, and the specification has to agree
                # that the run is over (a subroutine left waiting for ever ends here too)
                evs = evs + [{"a": "end", "post": evs[-1]["post"]}]
            paths.append(evs)
            continue
        edges += len(ext)
        for a in ext:
            stack.append(prefix + [a])
    return [p for p in paths if p], len(seen), edges


# --------------------------------------------------------------------------
# Controller rig (C13): real messages -> QNodeController -> Executor
# --------------------------------------------------------------------------
from netqasm.backend import messages as _M  # noqa: E402
from netqasm.backend.qnodeos import QNodeController  # noqa: E402
from netqasm.lang.instr.flavour import VanillaFlavour, NVFlavour  # noqa: E402


class VController(QNodeController):
    executor_kwargs: Dict[str, Any] = {}

    def __init__(self, name="verif", flavour=None, **kw):
        super().__init__(name=name, flavour=flavour or VanillaFlavour(), **kw)
        self.finished_ids: List[int] = []
        self.stopped = False

    @classmethod
    def _get_executor_class(cls, flavour=None):
        return VExecutor

    def stop(self):
        self.stopped = True

    def _mark_message_finished(self, msg_id, msg):
        self.finished_ids.append(msg_id)


CTRL_REGSET = [0, 1, 2, 3, 4, 5, 6, 7, 8, 9, 16, 17, 32, 33]


def ctrl_lib(a: int) -> Dict[str, List[Dict[str, Any]]]:
    I = lambda mn, *ops: {"mn": mn, "ops": list(ops)}
    R0, R1, R2, R3, C0, C1, Q0, Q1 = 0, 1, 2, 3, 16, 17, 32, 33
    return {
        "alloc0": [I("qalloc", Q0)], "alloc1": [I("qalloc", Q1)], "free0": [I("qfree", Q0)], "free1": [I("qfree", Q1)],
        "write": [I("set", R0, 10 + a), I("set", R1, 1), I("array", R1, 0), I("set", R2, 0), I("store", R0, 0, R2),
                  I("ret_reg", R0), I("ret_arr", 0)],
        "bump": [I("set", R3, 1), I("add", R0, R0, R3)],
        "gates": [I("h", Q0), I("h", Q1)],
        "keep1": [I("array", C1, 3), I("create_epr", 5, 6, 7, 8, 9), I("wait_all", 3, C0, C1)],
        "keepfree": [I("array", C1, 3), I("create_epr", 5, 6, 7, 8, 9), I("qfree", Q1), I("wait_all", 3, C0, C1)],
    }


class ControllerRun:
    def __init__(self):
        SharedMemoryManager.reset_memories()
        self.ctrl = VController(name="verif")
        self.ex: VExecutor = self.ctrl._executor  # type: ignore
        self.ex.meas_script = [1, 0, 1, 0]
        self.stack = RecordingStack()
        self.ctrl.network_stack = self.stack
        self.gens: Dict[int, Any] = {}
        self.stopping: Dict[int, Any] = {}     # stops in progress: app -> {"gen": handler generator, "um": unit module when the stop began}
        self.zombies: Dict[int, Any] = {}      # subroutines of applications that were stopped while suspended inside an instruction
        self.progname: Dict[int, str] = {}
        self.subid: Dict[int, int] = {}
        self.msg_id = 0
        clss = {c.mnemonic: c for c in isa.classes("vanilla")}
        shapes = {e["mn"]: e["shape"] for e in isa.extract_table()["vanilla"]}
        self._mk = lambda i: isa.build(clss[i["mn"]], shapes[i["mn"]], i["ops"])

    def _send(self, msg):
        """real bytes -> real deserialiser -> real handler generator"""
        raw = bytes(msg)
        m = _M.deserialize_host_msg(raw)
        self.msg_id += 1
        return self.ctrl.handle_netqasm_message(msg_id=self.msg_id, msg=m)

    def init(self, a, n):
        for _ in self._send(_M.InitNewAppMessage(app_id=a, max_qubits=n)):
            pass
        ex = self.ex
        for r, v in ((5, 1), (6, a), (7, 1), (8, 2), (9, 3), (16, 0), (17, 10), (32, 0), (33, 1)):
            ex._set_register(a, isa.reg(r), v)
        ex._app_arrays[a].init_new_array(1, 1)
        ex._app_arrays[a][1, 0] = 1
        ex._app_arrays[a].init_new_array(2, 20)
        ex._app_arrays[a][2, 0] = 0
        ex._app_arrays[a][2, 1] = 1

    def stop(self, a):
        for _ in self._send(_M.StopAppMessage(app_id=a)):
            pass
        self.gens.pop(a, None)

    def stop_begin(self, a):
        """the stop message is handled up to the first point where the handler yields (the reset of the first physical
        qubit it gives back): 'suspended', or 'finished' if it never yielded"""
        um = list(self.ex._qubit_unit_modules.get(a, []))
        g = self._send(_M.StopAppMessage(app_id=a))
        self.ex.log_clear = True
        mark = len(self.ex.gate_log)
        try:
            next(g)
        except StopIteration:
            self.gens.pop(a, None)
            return "finished"
        self.stopping[a] = {"gen": g, "um": um}
        self._given_back(a, mark)
        return "suspended"

    def _given_back(self, a, mark):
        # the qubits the stop has handed to the backend for a reset are no longer the application's
        for g_ in self.ex.gate_log[mark:]:
            if g_[0] == "clear":
                self.stopping[a]["um"] = [None if p == g_[3][0] else p for p in self.stopping[a]["um"]]

    def stop_step(self, a):
        mark = len(self.ex.gate_log)
        try:
            next(self.stopping[a]["gen"])
        except StopIteration:
            del self.stopping[a]
            self.gens.pop(a, None)
            return "finished"
        self._given_back(a, mark)
        return "suspended"

    def begin(self, a, p):
        sub = Subroutine(instructions=[self._mk(i) for i in ctrl_lib(a)[p]], app_id=a, netqasm_version=(0, 0))
        self.subid.pop(a, None)          # assigned by the executor when the generator first runs
        self.progname[a] = p
        self.gens[a] = self._send(_M.SubroutineMessage(subroutine=sub))

    def step(self, a, mid=False):
        """'stepped' | 'blocked' | 'finished' | 'fault' (| 'mid': suspended at a yield inside an instruction, only if asked for)"""
        g = self.gens[a]
        if a not in self.subid:
            self.subid[a] = self.ex._next_subroutine_id
        while True:
            try:
                y = next(g)
            except StopIteration:
                del self.gens[a]
                return "finished"
            except Exception as exc:
                del self.gens[a]
                self.last_fault = f"{type(exc).__name__}: {str(exc).splitlines()[0]}"[:160]
                return "fault"
            if y == STEP:
                return "stepped"
            if y == WAIT:
                return "blocked"
            if mid:
                return "mid"

    def abort(self, a, at_wait=False):
        """the application is stopped while its subroutine is suspended inside an instruction (a simulator hook yielded)
        or blocked in a wait: 'aborted', or what step() reports if the subroutine is not suspended there"""
        r = self.step(a, mid=True)
        if r != ("blocked" if at_wait else "mid"):
            return r
        self.zombies[a] = self.gens.pop(a)
        self.stop(a)
        return "aborted"

    def zombie(self, a):
        """the orphaned subroutine of a stopped application is resumed until it ends (normally it faults at once)"""
        g = self.zombies.pop(a)
        for _ in range(200):
            try:
                next(g)
            except StopIteration:
                return "finished"
            except Exception as exc:
                self.last_fault = f"{type(exc).__name__}: {str(exc).splitlines()[0]}"[:160]
                return "fault"
        return "running"

    def deliver(self, a, mode="alloc"):
        """mode 'alloc': the stack reserves the qubit through the executor's allocator (as SquidASM does);
        mode 'ext0'/'ext1': the stack itself picks the lowest / second lowest physical qubit that is not in
        use (only used when the response can be handled at once, so that no reservation is needed)."""
        if mode == "alloc":
            phys = self.ex._get_unused_physical_qubit()
        else:
            used = set(self.ex._used_physical_qubit_addresses)
            free = [p for p in range(len(used) + 2) if p not in used]
            phys = free[0] if mode == "ext0" else free[1]
        self.last_phys = phys
        resp = LinkLayerOKTypeK(type=ReturnType.OK_K, create_id=0, logical_qubit_id=phys, directionality_flag=0,
                                sequence_number=0, purpose_id=a, remote_node_id=1, goodness=0, goodness_time=0,
                                bell_state=BellState(0))
        self.ex._handle_epr_response(resp)

    def retry(self):
        self.ex._handle_pending_epr_responses()

    def project(self):
        ex = self.ex
        apps = sorted(set(self.ctrl._active_app_ids) | set(self.stopping))
        out_apps = []
        for a in (0, 1, 2):
            if a in self.stopping:
                # a stop in progress: the controller has forgotten the id and the unit module already; what the application
                # still holds are the qubits of its unit module (as it was when the stop began) not yet handed back for a reset
                if a not in ex._registers or a not in ex._shared_memories or a not in ex._app_arrays:
                    out_apps.append({"broken": True})
                    continue
                regs, sh = regfile(ex._registers[a]), ex._shared_memories[a]
                shregs = regfile(sh._registers)
                arrs, sharrs = ex._app_arrays[a]._arrays, sh._arrays._arrays
                out_apps.append({
                    "regs": [opt(regs.get(r)) for r in CTRL_REGSET], "shregs": [opt(shregs.get(r)) for r in CTRL_REGSET],
                    "arrs": [{"ex": x in arrs, "v": [opt(e) for e in arrs.get(x, [])]} for x in range(4)],
                    "sharrs": [{"ex": x in sharrs, "v": [opt(e) for e in sharrs.get(x, [])]} for x in range(4)],
                    "um": [(-1 if p is None else p) for p in self.stopping[a]["um"]],
                    "active": True, "pc": 0, "req": len(ex._epr_create_requests.get((1, a), [])) > 0,
                })
                continue
            if a not in apps:
                # state that survives for an unregistered application is a defect: expose it
                leftovers = [n for n, d in (("registers", ex._registers), ("arrays", ex._app_arrays), ("shared", ex._shared_memories),
                                            ("unit-module", ex._qubit_unit_modules)) if a in d]
                if SharedMemoryManager.get_shared_memory(ex._name, a) is not None:
                    leftovers.append("shared-memory-registry")
                out_apps.append({"none": True} if not leftovers else {"leftovers": leftovers})
                continue
            if a not in ex._registers or a not in ex._shared_memories or a not in ex._app_arrays or a not in ex._qubit_unit_modules \
                    or ex._shared_memories[a] is None or ex._registers[a] is None or ex._app_arrays[a] is None:
                out_apps.append({"broken": True})      # a registered application without (part of) its memory
                continue
            regs = regfile(ex._registers[a])
            sh = ex._shared_memories[a]
            shregs = regfile(sh._registers)
            arrs, sharrs = ex._app_arrays[a]._arrays, sh._arrays._arrays
            active = a in self.gens
            out_apps.append({
                "regs": [opt(regs.get(r)) for r in CTRL_REGSET], "shregs": [opt(shregs.get(r)) for r in CTRL_REGSET],
                "arrs": [{"ex": x in arrs, "v": [opt(e) for e in arrs.get(x, [])]} for x in range(4)],
                "sharrs": [{"ex": x in sharrs, "v": [opt(e) for e in sharrs.get(x, [])]} for x in range(4)],
                "um": [(-1 if p is None else p) for p in ex._qubit_unit_modules[a]],
                "active": active, "pc": ex._program_counters.get(self.subid.get(a), 0) if active else 0,
                "req": len(ex._epr_create_requests.get((1, a), [])) > 0,
            })
        return {"apps": apps, "used": sorted(ex._used_physical_qubit_addresses), "app": out_apps,
                "pend": [[r.purpose_id, r.logical_qubit_id] for r in ex._pending_epr_responses]}

    # ---- which actions does the specification allow here (mirrors Controller.tla's guards) ----
    def candidates(self, app_ids, um_sizes, split_stop=False):
        ex = self.ex
        apps = set(self.ctrl._active_app_ids)
        acts = []
        pend_apps = {r.purpose_id for r in ex._pending_epr_responses}
        for a in app_ids:
            if a in self.stopping:
                acts.append(("stopstep", a))
                continue
            if a in self.zombies:
                acts.append(("zombie", a))
            if a not in apps:
                if a not in self.zombies:          # (a new incarnation of the id while the old subroutine is still around is not explored)
                    acts += [("init", a, n) for n in um_sizes]
                continue
            active = a in self.gens
            has_req = len(ex._epr_create_requests.get((1, a), [])) > 0
            if not active:
                if not has_req and a not in pend_apps:
                    acts.append(("stop", a))
                    if split_stop and any(p is not None for p in ex._qubit_unit_modules[a]):
                        acts.append(("stopbegin", a))       # the stop is suspended while a physical qubit is being reset
                for p in ctrl_lib(a):
                    if p in ("keep1", "keepfree") and (has_req or a in pend_apps or len(ex._qubit_unit_modules[a]) < 2):
                        continue
                    acts.append(("begin", a, p))
            else:
                acts.append(("step", a))
                # the host may give up on an application whose subroutine is suspended inside a qfree (the reset of the
                # physical qubit takes time): offered when the next instruction is a qfree of an allocated qubit
                prog = ctrl_lib(a)[self.progname[a]]
                pc = ex._program_counters.get(self.subid.get(a), 0) if a in self.subid else 0
                if pc < len(prog) and prog[pc]["mn"] == "qfree":
                    um = ex._qubit_unit_modules[a]
                    v = prog[pc]["ops"][0] - 32
                    if v < len(um) and um[v] is not None:
                        acts.append(("abort", a))
                # ... or on one that is blocked waiting for entanglement (request outstanding / response waiting)
                if (has_req or a in pend_apps) and pc < len(prog) and prog[pc]["mn"] == "wait_all":
                    acts.append(("abortwait", a))
            if has_req and a not in pend_apps:
                acts.append(("deliver", a, "alloc"))
                um = ex._qubit_unit_modules[a]
                if len(um) > 1 and um[1] is None:        # the pair's virtual qubit (1) is free: handled at once
                    acts += [("deliver", a, "ext0"), ("deliver", a, "ext1")]
        if ex._pending_epr_responses:
            acts.append(("retry",))
        return acts

    def apply(self, act):
        pre = self.project()
        self.ex.log_clear = True
        mark = len(self.ex.gate_log)
        ev: Dict[str, Any] = {"a": act[0], "err": ""}
        try:
            if act[0] == "init":
                ev.update(app=act[1], n=act[2])
                self.init(act[1], act[2])
            elif act[0] == "stop":
                ev.update(app=act[1])
                self.stop(act[1])
            elif act[0] == "stopbegin":
                ev.update(app=act[1])
                if self.stop_begin(act[1]) == "finished":
                    ev["a"] = "stop"           # the handler never yielded: an ordinary stop
            elif act[0] == "stopstep":
                ev.update(app=act[1])
                self.stop_step(act[1])
            elif act[0] == "begin":
                ev.update(app=act[1], p=act[2])
                self.begin(act[1], act[2])
            elif act[0] == "step":
                ev.update(app=act[1])
                if self.step(act[1]) == "blocked":
                    return None
            elif act[0] in ("abort", "abortwait"):
                a_ = act[1]
                ev.update(app=a_, a="abort", outstanding=bool(len(self.ex._epr_create_requests.get((1, a_), [])) > 0
                                                             or any(r.purpose_id == a_ for r in self.ex._pending_epr_responses)))
                r = self.abort(a_, at_wait=(act[0] == "abortwait"))
                if r == "blocked":
                    return None
                if r != "aborted":
                    ev["a"] = "step"           # the subroutine was not suspended there: an ordinary step
                    ev.pop("outstanding")
            elif act[0] == "zombie":
                ev.update(app=act[1])
                self.zombie(act[1])
            elif act[0] == "deliver":
                ev.update(app=act[1], phys=-1)
                self.deliver(act[1], act[2] if len(act) > 2 else "alloc")
                ev["phys"] = self.last_phys
            else:
                self.retry()
        except Exception as exc:
            ev["err"] = f"{type(exc).__name__}: {str(exc).splitlines()[0]}"[:200]
        post = self.project()
        if act[0] == "retry" and post == pre and not ev["err"]:
            return None
        ev["post"] = post
        # which physical qubits the backend was asked to reset during this operation
        ev["cleared"] = [g[3][0] for g in self.ex.gate_log[mark:] if g[0] == "clear"]
        # ... and which physical qubits a gate instruction operated on
        ev["touched"] = [p_ for g in self.ex.gate_log[mark:] if g[0] == "h" for p_ in g[3] if p_ is not None]
        return ev


def controller_script(acts, app_ids=(0, 1, 2), um_sizes=(1, 2, 3, 4)):
    """a fixed schedule; an action the specification's guards do not offer at that point is skipped"""
    run = ControllerRun()
    evs = []
    for a in acts:
        if tuple(a) not in [tuple(x) for x in run.candidates(app_ids, um_sizes, split_stop=True)]:
            continue
        ev = run.apply(tuple(a))
        if ev is None:
            continue
        evs.append(ev)
        if ev["err"]:
            break
    return evs


def controller_walk(seed: int, length: int, app_ids=(0, 1), um_sizes=(1, 2)):
    import random as _r
    rng = _r.Random(seed)
    run = ControllerRun()
    evs = []
    for _ in range(length):
        acts = run.candidates(app_ids, um_sizes, split_stop=True)
        # bias towards progress: stepping active subroutines
        rng.shuffle(acts)
        acts.sort(key=lambda a: 0 if a[0] in ("step", "deliver", "retry", "zombie") and rng.random() < 0.6 else 1)
        ev = None
        for a in acts:
            ev = run.apply(a)
            if ev is not None:
                break
        if ev is None:
            break
        evs.append(ev)
        if ev["err"]:
            break
    return evs


# --------------------------------------------------------------------------
# SDK rig: real connection -> real message bytes -> VController -> VExecutor
# --------------------------------------------------------------------------
from netqasm.sdk.connection import BaseNetQASMConnection, DebugConnection, DebugNetworkInfo  # noqa: E402


class ControllerFault(Exception):
    pass


class Stuck(Exception):
    pass


class AutoLink:
    """Answers every outstanding request of the recording stack with scripted
    responses whenever the executor waits.  bell / outcome / basis scripts are
    consumed in pair order."""

    def __init__(self, ex: "VExecutor", stack: RecordingStack, bell=None, outcomes=None, remote_streams=None, fields=None, stepwise=False, mark=False,
                 qlink10=False):
        self.mark = mark                    # record every K delivery in the executor's gate log
        self.qlink10 = qlink10              # hand the executor qlink-interface 1.0 response objects (the documented conversion path)
        self.ex, self.stack = ex, stack
        self.stepwise = stepwise            # at most one response per wait (the link delivers pair after pair)
        self.bell = list(bell or [])
        self.outcomes = list(outcomes or [])
        self.served = 0                     # requests of the stack already answered
        self.seq = 0
        self.remote = list(remote_streams or [])     # [{remote, purpose, type, n}] initiated by the other side
        self.fields = fields                # optional callable(pair_index, kind) -> dict of extra response fields
        self.log: List[Any] = []

    def _resp(self, kind, dirflag, remote, purpose):
        i = self.seq
        self.seq += 1
        bell = BellState(self.bell[i] if i < len(self.bell) else 0)
        extra = self.fields(i, kind) if self.fields else {}
        if kind == "K":
            phys = extra["logical_qubit_id"] if "logical_qubit_id" in extra else self.ex._get_unused_physical_qubit()
            r = LinkLayerOKTypeK(type=ReturnType.OK_K, create_id=extra.get("create_id", 0), logical_qubit_id=phys,
                                 directionality_flag=dirflag, sequence_number=extra.get("sequence_number", i), purpose_id=purpose,
                                 remote_node_id=remote, goodness=extra.get("goodness", 0), goodness_time=extra.get("goodness_time", 0),
                                 bell_state=bell)
        else:
            out = self.outcomes[i] if i < len(self.outcomes) else 0
            r = LinkLayerOKTypeM(type=ReturnType.OK_M, create_id=extra.get("create_id", 0), measurement_outcome=out,
                                 measurement_basis=extra.get("measurement_basis", 0), directionality_flag=dirflag,
                                 sequence_number=extra.get("sequence_number", i), purpose_id=purpose, remote_node_id=remote,
                                 goodness=extra.get("goodness", 0), bell_state=bell)
        self.log.append(r)
        if kind == "K" and self.mark:
            # the delivery is part of the quantum history: pair i now lives on physical qubit phys
            self.ex.gate_log.append(("deliver", (i,), (int(bell.value),), (phys,)))
        if self.qlink10:
            import qlink_interface as q10
            common = dict(create_id=r.create_id, directionality_flag=r.directionality_flag, sequence_number=r.sequence_number,
                          purpose_id=r.purpose_id, remote_node_id=r.remote_node_id, goodness=r.goodness, bell_state=r.bell_state)
            if kind == "K":
                return q10.ResCreateAndKeep(logical_qubit_id=r.logical_qubit_id, time_of_goodness=r.goodness_time, **common)
            mb = r.measurement_basis.value if hasattr(r.measurement_basis, "value") else r.measurement_basis
            return q10.ResMeasureDirectly(measurement_outcome=r.measurement_outcome, measurement_basis=q10.MeasurementBasis(mb), **common)
        return r

    def on_wait(self) -> bool:
        progressed = False
        while self.served < len(self.stack.requests):
            rq = self.stack.requests[self.served]
            self.served += 1
            kind = "K" if rq.type == RequestType.K else "M"
            if self.stepwise:
                self.remote.insert(0, dict(remote=rq.remote_node_id, purpose=rq.purpose_id, type=kind, n=rq.number, dir=0))
                continue
            for _ in range(rq.number):
                self.ex._handle_epr_response(self._resp(kind, 0, rq.remote_node_id, rq.purpose_id))
                progressed = True
        for st in self.remote:
            while st["n"] > 0:
                st["n"] -= 1
                self.ex._handle_epr_response(self._resp(st["type"], st.get("dir", 1), st["remote"], st["purpose"]))
                progressed = True
                if self.stepwise:
                    break
            if self.stepwise and progressed:
                break
        if self.ex._pending_epr_responses:
            before = len(self.ex._pending_epr_responses)
            self.ex._handle_pending_epr_responses()
            progressed = progressed or len(self.ex._pending_epr_responses) != before
        return progressed


class VConnection(BaseNetQASMConnection):
    """The real SDK connection; every message goes as BYTES through the real
    deserialiser into the real controller and executor."""

    def __init__(self, app_name="alice", ctrl: Optional[VController] = None, nv=False, node_ids=None, successor=False, share_stack=False, **kwargs):
        if not (successor and ctrl is not None):       # (a successor: the next connection on the same controller, same process)
            SharedMemoryManager.reset_memories()
            BaseNetQASMConnection._app_ids.clear()
            BaseNetQASMConnection._app_names.clear()
        DebugConnection.node_ids = dict(node_ids) if node_ids else {"verif": 0, "bob": 1, "charlie": 2, "alice": 0}
        self.ctrl = ctrl or VController(name="verif", flavour=NVFlavour() if nv else VanillaFlavour())
        self.ex: VExecutor = self.ctrl._executor  # type: ignore
        if share_stack and isinstance(getattr(self.ctrl, "network_stack", None), RecordingStack):
            self.stack = self.ctrl.network_stack        # (a second application on the same node: one network stack)
        else:
            self.stack = RecordingStack()
            self.ctrl.network_stack = self.stack
        self.link: Optional[AutoLink] = None
        self.defer = False                   # keep the serialised messages instead of running them (a driver interleaves them)
        self.deferred: List[bytes] = []
        self.sent: List[bytes] = []
        self.subroutines: List[Any] = []
        self._msg_id = 0
        self.ex.step_mode = False
        super().__init__(app_name=app_name, node_name="verif", **kwargs)

    def _get_network_info(self):
        return DebugNetworkInfo

    def _commit_serialized_message(self, raw_msg, block=True, callback=None):
        self.sent.append(raw_msg)
        if self.defer:
            self.deferred.append(raw_msg)
            return
        msg = _M.deserialize_host_msg(raw_msg)
        self._msg_id += 1
        self.ex.exec_count, self.ex.exec_limit = 0, 100000
        gen = self.ctrl.handle_netqasm_message(msg_id=self._msg_id, msg=msg)
        idle = 0
        try:
            for y in gen:
                if y == WAIT:
                    ok = self.link.on_wait() if self.link else False
                    idle = 0 if ok else idle + 1
                    if idle > 3:
                        raise Stuck("the subroutine waits and the link has nothing more to deliver")
        except (Stuck, ScriptExhausted):
            raise
        except Exception as exc:
            raise ControllerFault(f"{type(exc).__name__}: {str(exc).splitlines()[0]}") from exc
        if callback is not None:
            callback()
