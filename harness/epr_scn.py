"""Scenarios for Epr.tla / Controller.tla and their rendering for the real executor."""
from __future__ import annotations
from typing import Any, Dict, List

R = lambda i: i            # R bank
Cb = lambda i: 16 + i      # C bank
Q = lambda i: 32 + i       # Q bank


def I(mn, *ops):
    return {"mn": mn, "ops": list(ops)}


def scenario(name: str, umsize: int, alloc: List[int], reqs: List[Dict[str, Any]], remote: List[Dict[str, Any]],
             body: List[Any], fix: str = "") -> Dict[str, Any]:
    """reqs[i]: role, remote, sock, type, n, virt (K).  body: list of
    ('req', i) | ('wait', i) | ('wait', i, lo_pair, hi_pair) | ('qfree', virt) | ('qalloc', virt)."""
    regs, arrs = [], []
    consts = {}

    def creg(v):
        if v not in consts:
            consts[v] = Cb(len(consts))
            regs.append({"r": consts[v], "v": v})
        return consts[v]

    qregs = {}

    def qreg(v):
        if v not in qregs:
            qregs[v] = Q(len(qregs))
            regs.append({"r": qregs[v], "v": v})
        return qregs[v]

    U = [0, 0]
    for i, rq in enumerate(reqs):
        base = 5 * i
        qa, aa, ra = 3 * i, 3 * i + 1, 3 * i + 2
        regs += [{"r": R(base), "v": rq["remote"]}, {"r": R(base + 1), "v": rq["sock"]}, {"r": R(base + 3), "v": aa}, {"r": R(base + 4), "v": ra}]
        if rq["type"] == "K":
            regs.append({"r": R(base + 2), "v": qa})
            arrs.append({"a": qa, "v": [[1, v] for v in rq["virt"]]})
        else:
            arrs.append({"a": qa, "v": []})
        args = [U] * 20
        args[0] = [1, 0 if rq["type"] == "K" else 1]
        args[1] = [1, rq["n"]]
        arrs.append({"a": aa, "v": args})
        arrs.append({"a": ra, "v": [U] * (10 * (rq["n"] + rq.get("room", 0)))})      # room: a results buffer larger than the request needs (create role)
    prog = []
    progs = []
    for b in body:
        if b[0] == "sub":                 # the subroutine ends here; the next one runs on the state it leaves
            progs.append(prog)
            prog = []
        elif b[0] == "nop":
            prog.append(I("set", Cb(15), 7))
        elif b[0] == "array":              # the results array of request b[1] is declared again (as a subroutine run again does)
            i = b[1]
            prog.append(I("array", creg(10 * (reqs[i]["n"] + reqs[i].get("room", 0))), 3 * i + 2))
        elif b[0] == "req":
            i = b[1]
            base = 5 * i
            if reqs[i]["role"] == "create":
                prog.append(I("create_epr", R(base), R(base + 1), R(base + 2), R(base + 3), R(base + 4)))
            else:
                prog.append(I("recv_epr", R(base), R(base + 1), R(base + 2), R(base + 4)))
        elif b[0] == "wait":
            i = b[1]
            lo, hi = (b[2], b[3]) if len(b) > 2 else (0, reqs[i]["n"])
            prog.append(I("wait_all", 3 * i + 2, creg(10 * lo), creg(10 * hi)))
        elif b[0] == "qfree":
            prog.append(I("qfree", qreg(b[1])))
        elif b[0] == "qalloc":
            prog.append(I("qalloc", qreg(b[1])))
    out = {"name": name, "umsize": umsize, "alloc": alloc, "regs": regs, "arrs": arrs, "prog": prog,
           "remote": [dict(remote=s["remote"], purpose=s["sock"], type=s["type"], n=s["n"]) for s in remote],
           "fix": fix, "reqs": reqs}
    if progs:
        out["progs"] = progs + [prog]
        out["prog"] = progs[0]
    return out


def K(role, remote, sock, n, virt, room=0):
    return dict(role=role, remote=remote, sock=sock, type="K", n=n, virt=virt, room=room)


def M(role, remote, sock, n, room=0):
    return dict(role=role, remote=remote, sock=sock, type="M", n=n, virt=[], room=room)


def scenarios(tier: str, fix: str = "") -> List[Dict[str, Any]]:
    S = []
    S.append(scenario("create-keep-2", 2, [], [K("create", 1, 0, 2, [0, 1])], [], [("req", 0), ("wait", 0)], fix))
    S.append(scenario("recv-keep-2-early", 2, [], [K("recv", 1, 0, 2, [0, 1])], [dict(remote=1, sock=0, type="K", n=2)],
                      [("req", 0), ("wait", 0)], fix))
    S.append(scenario("two-creates-same-socket", 2, [], [K("create", 1, 0, 1, [0]), K("create", 1, 0, 1, [1])], [],
                      [("req", 0), ("req", 1), ("wait", 0), ("wait", 1)], fix))
    S.append(scenario("create-M-and-recv-M-different-sockets", 1, [], [M("create", 1, 0, 2), M("recv", 1, 1, 1)],
                      [dict(remote=1, sock=1, type="M", n=1)], [("req", 0), ("req", 1), ("wait", 1), ("wait", 0)], fix))
    S.append(scenario("roles-mixed-same-key", 2, [], [K("create", 1, 0, 1, [0]), K("recv", 1, 0, 1, [1])],
                      [dict(remote=1, sock=0, type="K", n=1)], [("req", 0), ("req", 1), ("wait", 0), ("wait", 1)], fix))
    S.append(scenario("deferred-keep", 2, [0], [K("create", 1, 0, 1, [0])], [], [("req", 0), ("qfree", 0), ("wait", 0)], fix))
    S.append(scenario("deferred-keep-then-keep", 3, [0], [K("create", 1, 0, 1, [0]), K("create", 1, 0, 1, [1])], [],
                      [("req", 0), ("req", 1), ("qfree", 0), ("wait", 0), ("wait", 1)], fix))
    S.append(scenario("deferred-keep-then-measure-same-key", 2, [0], [K("create", 1, 0, 1, [0]), M("create", 1, 0, 1)], [],
                      [("req", 0), ("req", 1), ("qfree", 0), ("wait", 0), ("wait", 1)], fix))
    S.append(scenario("deferred-2-pair-keep", 3, [0], [K("create", 1, 0, 2, [0, 1])], [], [("req", 0), ("qfree", 0), ("wait", 0)], fix))
    S.append(scenario("recv-two-sockets-early", 1, [], [M("recv", 1, 0, 1), M("recv", 1, 1, 1)],
                      [dict(remote=1, sock=0, type="M", n=1), dict(remote=1, sock=1, type="M", n=1)],
                      [("req", 0), ("wait", 0), ("req", 1), ("wait", 1)], fix))
    S.append(scenario("recv-measure-2-then-other-socket-early", 1, [], [M("recv", 1, 1, 2), M("recv", 1, 0, 1)],
                      [dict(remote=1, sock=1, type="M", n=2), dict(remote=1, sock=0, type="M", n=1)],
                      [("req", 0), ("wait", 0), ("req", 1), ("wait", 1)], fix))
    S.append(scenario("two-remotes-same-socket-id", 2, [], [K("create", 1, 0, 1, [0]), K("create", 2, 0, 1, [1])], [],
                      [("req", 0), ("req", 1), ("wait", 0), ("wait", 1)], fix))
    S.append(scenario("wait-per-pair", 2, [], [K("create", 1, 0, 2, [0, 1])], [],
                      [("req", 0), ("wait", 0, 0, 1), ("qfree", 0), ("wait", 0, 1, 2)], fix))
    # two subroutines of one application: responses may arrive (and have to be kept) while an earlier subroutine
    # runs and finishes, before the subroutine that receives them has started
    S.append(scenario("recv-keep-in-second-subroutine-early", 2, [], [K("recv", 1, 0, 2, [0, 1])], [dict(remote=1, sock=0, type="K", n=2)],
                      [("nop",), ("nop",), ("sub",), ("req", 0), ("wait", 0)], fix))
    S.append(scenario("recv-measure-in-second-subroutine-early", 1, [], [M("recv", 1, 1, 1), M("create", 1, 0, 1)],
                      [dict(remote=1, sock=1, type="M", n=1)], [("req", 1), ("wait", 1), ("sub",), ("req", 0), ("wait", 0)], fix))
    # a create request whose results buffer has room for more pairs than it asks for, then a second request with the same key
    S.append(scenario("roomy-buffer-then-create-same-key", 3, [], [K("create", 1, 0, 1, [0], room=1), K("create", 1, 0, 1, [1])], [],
                      [("req", 0), ("req", 1), ("wait", 0), ("wait", 1)], fix))
    S.append(scenario("roomy-measure-buffer-then-create-same-key", 1, [], [M("create", 1, 0, 1, room=2), M("create", 1, 0, 2)], [],
                      [("req", 0), ("wait", 0), ("req", 1), ("wait", 1)], fix))
    # the virtual qubits of a request listed in non-ascending order, with the package's instruction logger switched on
    lg = scenario("keep-3-descending-ids-with-instruction-log", 3, [], [K("create", 1, 0, 3, [2, 0, 1])], [], [("req", 0), ("wait", 0)], fix)
    lg["instr_log"] = True
    S.append(lg)
    lg2 = scenario("recv-keep-2-descending-ids-early-with-instruction-log", 2, [], [K("recv", 1, 0, 2, [1, 0])], [dict(remote=1, sock=0, type="K", n=2)],
                   [("req", 0), ("wait", 0)], fix)
    lg2["instr_log"] = True
    S.append(lg2)
    # the link is ahead of the program: three responses of one request wait before the instruction has run
    S.append(scenario("recv-measure-3-early", 1, [], [M("recv", 1, 0, 3)], [dict(remote=1, sock=0, type="M", n=3)],
                      [("nop",), ("req", 0), ("wait", 0)], fix))
    # the same subroutine (declare the results array, request, wait) run twice by one application: the second wait may
    # only resume on the second request's results
    S.append(scenario("same-request-subroutine-twice", 1, [], [M("create", 1, 0, 1)], [],
                      [("array", 0), ("req", 0), ("wait", 0), ("sub",), ("array", 0), ("req", 0), ("wait", 0)], fix))
    # roles mixed on one key while a create response is deferred: the receive response behind it is for another role
    S.append(scenario("deferred-create-then-recv-same-key", 2, [0], [K("create", 1, 0, 1, [0]), M("recv", 1, 0, 1)],
                      [dict(remote=1, sock=0, type="M", n=1)], [("req", 0), ("req", 1), ("wait", 1), ("qfree", 0), ("wait", 0)], fix))
    # the same socket id towards two remote nodes, receive role: the response from the second node may arrive while only the
    # request for the first node is outstanding
    S.append(scenario("recv-two-remotes-same-socket-id-early", 2, [], [M("recv", 1, 0, 1), M("recv", 2, 0, 1)],
                      [dict(remote=1, sock=0, type="M", n=1), dict(remote=2, sock=0, type="M", n=1)],
                      [("req", 0), ("wait", 0), ("req", 1), ("wait", 1)], fix))
    S.append(scenario("recv-keep-two-remotes-same-socket-id-early", 2, [], [K("recv", 1, 0, 1, [0]), K("recv", 2, 0, 1, [1])],
                      [dict(remote=1, sock=0, type="K", n=1), dict(remote=2, sock=0, type="K", n=1)],
                      [("req", 0), ("wait", 0), ("req", 1), ("wait", 1)], fix))
    # the stack refuses the first request (too many pairs); the application's next subroutine asks again for fewer on the
    # same socket: nothing of the refused request may be left behind
    rj = [scenario("refused-request-then-retry", 3, [], [K("create", 1, 0, 3, [0, 1, 2]), K("create", 1, 0, 1, [1])], [],
                   [("req", 0), ("wait", 0), ("sub",), ("req", 1), ("wait", 1)], fix),
          scenario("refused-measure-request-then-retry-and-recv", 1, [], [M("create", 1, 0, 3), M("create", 1, 0, 2), M("recv", 1, 0, 1)],
                   [dict(remote=1, sock=0, type="M", n=1)], [("req", 0), ("wait", 0), ("sub",), ("req", 1), ("req", 2), ("wait", 1), ("wait", 2)], fix)]
    for x in rj:
        x["reject_over"] = 2
        x["recover"] = True
    S += rj
    # responses handed over as qlink-interface 1.0 objects (the conversion path): roles mixed, early arrivals
    q10 = [scenario("qlink10-roles-mixed-same-key", 2, [], [K("create", 1, 0, 1, [0]), K("recv", 1, 0, 1, [1])],
                    [dict(remote=1, sock=0, type="K", n=1)], [("req", 0), ("req", 1), ("wait", 0), ("wait", 1)], fix),
           scenario("qlink10-recv-measure-2-early-and-create", 1, [], [M("recv", 1, 1, 2), M("create", 1, 1, 1)],
                    [dict(remote=1, sock=1, type="M", n=2)], [("req", 0), ("req", 1), ("wait", 0), ("wait", 1)], fix)]
    for x in q10:
        x["q10"] = True
    S += q10
    # three responses pending at once: one that has to wait for its virtual qubit, one behind it in the same queue, and one of
    # another queue whose request expects a further pair
    S.append(scenario("deferred-2-pair-keep-and-2-pair-keep-other-socket", 4, [0], [K("create", 1, 0, 2, [0, 1]), K("create", 1, 1, 2, [2, 3])], [],
                      [("req", 0), ("req", 1), ("wait", 1), ("qfree", 0), ("wait", 0)], fix))
    if tier == "thorough":
        S.append(scenario("three-requests-3-2-1", 3, [], [K("create", 1, 0, 3, [0, 1, 2]), M("create", 1, 1, 2), M("recv", 1, 0, 1)],
                          [dict(remote=1, sock=0, type="M", n=1)],
                          [("req", 0), ("req", 1), ("req", 2), ("wait", 0), ("wait", 1), ("wait", 2)], fix))
        S.append(scenario("keep-3-reuse-after-free", 2, [], [K("create", 1, 0, 3, [0, 1, 0])], [],
                          [("req", 0), ("wait", 0, 0, 1), ("qfree", 0), ("wait", 0)], fix))
        S.append(scenario("recv-keep-3-early", 3, [], [K("recv", 1, 0, 3, [0, 1, 2])], [dict(remote=1, sock=0, type="K", n=3)],
                          [("req", 0), ("wait", 0)], fix))
    return S
