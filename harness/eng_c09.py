"""C09: SDK and controller agree on which virtual qubits exist."""
from __future__ import annotations

import copy
import itertools
import json
import random
import shutil
from concurrent.futures import ProcessPoolExecutor
from typing import Any, Dict, List

from . import common as C

ASSUME = [
    "a history is legal when it never keeps more than the budget alive (budget - 1 on NV hardware); the rig only generates legal histories (TLC re-checks the guards and reports an illegal history as a rig error)",
    "sequential / context forms use a body that measures the pair destructively (so that they need exactly one free slot)",
    "EPR requests are answered by the rig's link with Phi+ pairs as soon as the subroutine waits; recv-role pairs are offered from the start",
]


def gen(rng: random.Random, budget: int, nv: bool, length: int, two_qubit=True) -> List[Dict[str, Any]]:
    limit = budget - 1 if nv else budget
    live: List[int] = []
    nh = 0
    ev: List[Dict[str, Any]] = []
    since_flush = 0
    for _ in range(length):
        p = rng.random()
        free = limit - len(live)
        if p < 0.25 and free >= 1:
            nh += 1
            live.append(nh)
            ev.append({"a": "new", "h": nh})
        elif p < 0.4 and live:
            ev.append({"a": "gate", "h": rng.choice(live)})
        elif p < 0.45 and len(live) >= 2 and two_qubit:
            a, b = rng.sample(live, 2)
            ev.append({"a": "gate2", "h": a, "h2": b})
        elif p < 0.55 and live:
            ev.append({"a": "measI", "h": rng.choice(live)})
        elif p < 0.68 and live:
            h = live.pop(rng.randrange(len(live)))
            ev.append({"a": "measD", "h": h})
        elif p < 0.76 and live:
            h = live.pop(rng.randrange(len(live)))
            ev.append({"a": "free", "h": h})
        elif p < 0.86 and free >= 1:
            # NV hardware: single-pair requests only (multi-pair keep and contexts are known NV limitations, see directed())
            n = 1 if nv else rng.randrange(1, min(free, 3) + 1)
            hs = list(range(nh + 1, nh + n + 1))
            nh += n
            live += hs
            ev.append({"a": "keep", "role": rng.choice(["create", "recv"]), "hs": hs})
        elif p < 0.92 and free >= 1:
            # (NV contexts of more than one pair are a recorded finding: one pair there)
            form = rng.choice(["sequential", "context"]) if nv else rng.choice(["sequential", "context", "context-sequential"])
            n = (1 if nv else rng.randrange(1, min(free, 3) + 1)) if form == "context" else rng.choice([1, 2, 3])
            ev.append({"a": "seq", "role": rng.choice(["create", "recv"]), "n": n, "form": form})
        else:
            ev.append({"a": "flush"})
            since_flush = 0
            continue
        since_flush += 1
    ev.append({"a": "flush"})
    return ev


def directed() -> List[Dict[str, Any]]:
    D = []
    # allocate-and-free repeated beyond the budget
    for budget in (1, 2, 3):
        ev = []
        for r in range(budget + 3):
            ev += [{"a": "new", "h": r + 1}, {"a": "free", "h": r + 1}, {"a": "flush"}]
        D.append({"budget": budget, "nv": False, "transpile": False, "events": ev})
        ev = []
        for r in range(budget + 3):
            ev += [{"a": "new", "h": r + 1}, {"a": "measD", "h": r + 1}, {"a": "flush"}]
        D.append({"budget": budget, "nv": False, "transpile": False, "events": ev})
    # two successive create_context(number=3) on five qubits
    D.append({"budget": 5, "nv": False, "transpile": False,
              "events": [{"a": "seq", "role": "create", "n": 3, "form": "context"}, {"a": "flush"}, {"a": "seq", "role": "create", "n": 3, "form": "context"}, {"a": "flush"}]})
    # NV: q0 = Qubit; flush; q1 = Qubit; q1.measure()
    for tr in (False, True):
        D.append({"budget": 3, "nv": True, "transpile": tr,
                  "events": [{"a": "new", "h": 1}, {"a": "flush"}, {"a": "new", "h": 2}, {"a": "measD", "h": 2}, {"a": "flush"}]})
        D.append({"budget": 3, "nv": True, "transpile": tr,
                  "events": [{"a": "new", "h": 1}, {"a": "keep", "role": "create", "hs": [2]}, {"a": "flush"}, {"a": "measD", "h": 1}, {"a": "measD", "h": 2}, {"a": "flush"}]})
        D.append({"budget": 3, "nv": True, "transpile": tr,
                  "events": [{"a": "new", "h": 1}, {"a": "new", "h": 2}, {"a": "gate", "h": 1}, {"a": "measD", "h": 2}, {"a": "flush"}, {"a": "measD", "h": 1}, {"a": "flush"}]})
    # NV limitations that are known findings (kept here so that every run exercises them)
    D.append({"budget": 5, "nv": True, "transpile": False, "events": [{"a": "new", "h": 1}, {"a": "keep", "role": "create", "hs": [2, 3]}, {"a": "flush"}]})
    D.append({"budget": 5, "nv": True, "transpile": True, "events": [{"a": "new", "h": 1}, {"a": "keep", "role": "create", "hs": [2, 3]}, {"a": "flush"}]})
    D.append({"budget": 4, "nv": True, "transpile": True, "events": [{"a": "keep", "role": "create", "hs": [1]}, {"a": "new", "h": 2}, {"a": "new", "h": 3},
                                                                    {"a": "measI", "h": 2}, {"a": "gate2", "h": 2, "h2": 3}, {"a": "flush"}]})
    D.append({"budget": 5, "nv": True, "transpile": False, "events": [{"a": "seq", "role": "create", "n": 2, "form": "context"}, {"a": "flush"}]})
    D.append({"budget": 5, "nv": True, "transpile": True, "events": [{"a": "seq", "role": "create", "n": 2, "form": "context"}, {"a": "flush"}]})
    # keep with a fidelity constraint: attempts that take too long are cleaned up (their qubits freed) and repeated
    for nv, tr in ((False, False), (True, False), (True, True)):
        for role in ("create", "recv"):
            for n in (1, 2):
                for fail in ([], [0], [0, 1]):
                    for fid in (80, 100) if (n == 1 and len(fail) < 2) else (80,):        # (100: the largest value the parameter takes)
                        D.append({"budget": 5, "nv": nv, "transpile": tr, "events": [
                            {"a": "keep", "role": role, "hs": list(range(1, n + 1)), "fid": fid, "fail": fail}, {"a": "flush"},
                            {"a": "measD", "h": 1}, {"a": "flush"}]})
    # the body of a sequential post routine / context works on another live qubit before AND after the pair's qubit
    for nv, tr in ((False, False), (True, False), (True, True)):
        for role in ("create", "recv"):
            for form in ("sequential", "context", "context-sequential"):
                for n in (1, 2):
                    if nv and form != "sequential" and n > 1:
                        continue            # (NV contexts of more than one pair are a recorded finding of their own)
                    D.append({"budget": 3, "nv": nv, "transpile": tr, "events": [
                        {"a": "new", "h": 1}, {"a": "seq", "role": role, "n": n, "form": form, "with": 1}, {"a": "flush"},
                        {"a": "gate", "h": 1}, {"a": "measD", "h": 1}, {"a": "flush"}]})
    # contexts that generate their pairs one after the other: more pairs than free slots
    for role in ("create", "recv"):
        D.append({"budget": 3, "nv": False, "transpile": False, "events": [
            {"a": "new", "h": 1}, {"a": "seq", "role": role, "n": 3, "form": "context-sequential"}, {"a": "flush"}, {"a": "measD", "h": 1}, {"a": "flush"}]})
        D.append({"budget": 2, "nv": False, "transpile": False, "events": [
            {"a": "seq", "role": role, "n": 3, "form": "context-sequential", "with": 0}, {"a": "flush"}, {"a": "new", "h": 1}, {"a": "measD", "h": 1}, {"a": "flush"}]})
    # a self-contained subroutine (keep one pair, use it, measure it) compiled once and run twice
    for nv, tr in ((False, False), (True, False)):
        for role in ("create", "recv"):
            D.append({"budget": 3, "nv": nv, "transpile": tr, "events": [
                {"a": "keep", "role": role, "hs": [1]}, {"a": "gate", "h": 1}, {"a": "measD", "h": 1}, {"a": "recommit", "role": role, "n": 1},
                {"a": "new", "h": 2}, {"a": "measD", "h": 2}, {"a": "flush"}]})
    # a context whose body is refused part-way (the application catches the error and carries on); a qubit created just
    # before, not yet flushed
    for role in ("create", "recv"):
        for n in (1, 2):
            D.append({"budget": 3, "nv": False, "transpile": False, "events": [
                {"a": "new", "h": 1}, {"a": "seq", "role": role, "n": n, "form": "context", "rejected": True}, {"a": "flush"},
                {"a": "gate", "h": 1}, {"a": "new", "h": 2}, {"a": "measD", "h": 1}, {"a": "flush"}, {"a": "measD", "h": 2}, {"a": "flush"}]})
    D.append({"budget": 4, "nv": False, "transpile": False, "events": [
        {"a": "new", "h": 1}, {"a": "keep", "role": "create", "hs": [2, 3], "fid": 80, "fail": [0]}, {"a": "flush"},
        {"a": "gate2", "h": 1, "h2": 3}, {"a": "free", "h": 2}, {"a": "new", "h": 4}, {"a": "flush"}]})
    return D


def _run(item):
    """execute one history on the real SDK + controller"""
    from . import rig
    from netqasm.sdk.build_types import NVHardwareConfig
    from netqasm.sdk.epr_socket import EPRSocket
    from netqasm.sdk.qubit import Qubit
    from netqasm.sdk.transpile import NVSubroutineTranspiler
    i, case = item
    kw: Dict[str, Any] = {}
    if case["nv"] and not case["transpile"]:
        kw["hardware_config"] = NVHardwareConfig(case["budget"])
    if case["transpile"]:
        kw["compiler"] = NVSubroutineTranspiler
    sock = EPRSocket("bob")
    conn = rig.VConnection("alice", max_qubits=case["budget"], epr_sockets=[sock], nv=case["transpile"], **kw)
    conn.ex.meas_script = [0, 1] * 200
    nrecv = sum((len(e["hs"]) if e["a"] == "keep" else e["n"]) for e in case["events"] if e["a"] in ("keep", "seq") and e["role"] == "recv")
    attempt = {"k": 0, "n": 1, "fail": []}

    def fields(i, kind):
        # the duration ("goodness") of the LAST pair of an attempt decides whether the attempt is repeated
        a, pos = divmod(i - attempt.get("base", 0), attempt["n"])
        slow = a in attempt["fail"] and pos == attempt["n"] - 1
        return {"goodness": 90000 if slow else 100}

    conn.link = rig.AutoLink(conn.ex, conn.stack, remote_streams=[], fields=fields)
    handles: Dict[int, Any] = {}
    out = []
    dead = False
    for e in case["events"]:
        o = dict(e)
        o.update(err="", fault=False, active=[], alloc=[], liveids=[])
        o.setdefault("h", 0); o.setdefault("h2", 0); o.setdefault("hs", []); o.setdefault("n", 0); o.setdefault("role", ""); o.setdefault("form", "")
        if dead:
            break
        try:
            a = e["a"]
            if a == "new":
                handles[e["h"]] = Qubit(conn)
            elif a == "gate":
                handles[e["h"]].H()
            elif a == "gate2":
                handles[e["h"]].cnot(handles[e["h2"]])
            elif a == "measI":
                handles[e["h"]].measure(inplace=True)
            elif a == "measD":
                handles.pop(e["h"]).measure()
            elif a == "free":
                handles.pop(e["h"]).free()
            elif a == "keep" and e.get("fid"):
                n = len(e["hs"])
                tries = len(e["fail"]) + 1
                attempt.update(n=n, fail=list(e["fail"]), base=conn.link.seq)
                if e["role"] == "recv":
                    conn.link.remote.append(dict(remote=1, purpose=0, type="K", n=n * tries))
                    conn.link.stepwise = True
                kw2 = dict(min_fidelity_all_at_end=e["fid"], max_tries=tries + 1)
                qs = sock.create_keep(n, **kw2) if e["role"] == "create" else sock.recv_keep(n, **kw2)
                for h, q in zip(e["hs"], qs):
                    handles[h] = q
            elif a == "keep":
                n = len(e["hs"])
                if e["role"] == "recv":
                    conn.link.remote.append(dict(remote=1, purpose=0, type="K", n=n))
                qs = sock.create_keep(n) if e["role"] == "create" else sock.recv_keep(n)
                for h, q in zip(e["hs"], qs):
                    handles[h] = q
            elif a == "seq":
                n = e["n"]
                if e["role"] == "recv":
                    conn.link.remote.append(dict(remote=1, purpose=0, type="K", n=n))
                by = handles.get(e.get("with", 0))        # a live qubit of the application that the body also works on
                if e["form"] == "sequential":
                    def post(conn_, q, pair):
                        if by is not None:
                            by.X()
                        q.H()
                        q.measure()
                        if by is not None:
                            by.Z()
                    (sock.create_keep if e["role"] == "create" else sock.recv_keep)(n, post_routine=post, sequential=True)
                elif e.get("rejected"):
                    # the body makes an SDK call that is refused (the pair's qubit is measured twice); the application
                    # catches the error and carries on: the context still closes (pair generated, qubit measured)
                    rejected_ok = False
                    try:
                        with (sock.create_context(n) if e["role"] == "create" else sock.recv_context(n)) as (q, pair):
                            q.H()
                            q.measure()
                            q.measure()
                    except Exception:          # (QubitNotActiveError, or what reading the id of a future qubit raises)
                        rejected_ok = True
                    if not rejected_ok:
                        raise RuntimeError("rig: the second measurement of the pair's qubit was not refused")
                else:
                    kw_ = dict(sequential=True) if e["form"] == "context-sequential" else {}
                    with (sock.create_context(n, **kw_) if e["role"] == "create" else sock.recv_context(n, **kw_)) as (q, pair):
                        if by is not None:
                            by.X()
                        q.H()
                        q.measure()
                        if by is not None:
                            by.Z()
            elif a in ("flush", "recommit"):
                try:
                    if a == "recommit":
                        o["a"] = "flush"
                        # the pending operations are compiled once and the compiled subroutine is run twice (the documented
                        # way to repeat a subroutine); observed like a flush after the second run
                        sub_ = conn.compile()
                        sub_.instantiate(conn.app_id)
                        conn.commit_subroutine(sub_)
                        if e.get("role") == "recv":
                            conn.link.remote.append(dict(remote=1, purpose=0, type="K", n=e.get("n", 1)))
                        conn.commit_subroutine(sub_)
                    else:
                        conn.flush()
                except (rig.ControllerFault, rig.Stuck) as ex:
                    o["fault"] = True
                    o["exc"] = str(ex)[:200]
                    dead = True
                um = conn.ex._qubit_unit_modules.get(conn.app_id, [])
                o["alloc"] = [v for v, p in enumerate(um) if p is not None]
                o["active"] = [q.qubit_id for q in conn.active_qubits]
                o["liveids"] = [q.qubit_id for q in handles.values()]
        except Exception as ex:
            o["err"] = f"{type(ex).__name__}: {ex}"[:200]
            dead = True
        out.append(o)
    return {"id": i, "budget": case["budget"], "nv": case["nv"], "transpile": case["transpile"], "events": out}


def run(prop: str, tier: str) -> int:
    V = C.Verdicts(prop, tier)
    tmp = C.tmpdir()
    try:
        rng = random.Random(C.seed() * 467 + 8)
        cases = directed()
        n = 40 if tier == "quick" else 2500
        for budget in (1, 2, 3, 4, 5):
            for nv, tr in ((False, False), (False, True), (True, False), (True, True)):
                if nv and budget < 2:
                    continue
                # the builder switches to the NV hardware configuration whenever the NV transpiler is used
                eff_nv = nv or tr
                if eff_nv and budget < 2:
                    continue
                for _ in range(n // 4 if budget > 1 else n // 8):
                    cases.append({"budget": budget, "nv": eff_nv, "transpile": tr, "events": gen(rng, budget, eff_nv, rng.choice([6, 10, 16, 40]), two_qubit=not tr)})
        with ProcessPoolExecutor(max_workers=C.ncpu()) as pool:
            rows = list(pool.map(_run, [(i + 1, cse) for i, cse in enumerate(cases)], chunksize=8))
        res = C.run_tlc_sharded("Qubits", rows, tmp, shards=C.ncpu(), cfg="Qubits.cfg")
        bad = {}
        for v in res.verdicts:
            bad.setdefault(v[2], v)
        if {r["id"] for r in rows} - set(res.ok_ids) - set(bad):
            raise C.MachineryError("Qubits gave no verdict for some histories")
        nshr = 0
        for rid, v in sorted(bad.items(), key=lambda kv: len(cases[kv[0] - 1]["events"])):
            r = rows[rid - 1]
            if v[1] == "history-exceeds-budget":
                raise C.MachineryError(f"the rig generated an illegal history: {cases[rid - 1]}")
            e = r["events"][v[3] - 1]
            prefix = minimal_prefix(cases[rid - 1], v[3])
            if nshr < 12:
                nshr += 1
                small = shrink({**cases[rid - 1], "events": prefix}, v[1], tmp)
                prefix = small["events"]
            V.add(v[1], {"hardware": "nv" if r["nv"] else "generic", "transpiler": r["transpile"],
                         "history": [[x["a"] + ("-min-fidelity" if x.get("fid") else ""), x.get("h") or x.get("hs") or x.get("n") or 0, x.get("h2", 0) or x.get("form", "") or x.get("role", "")] for x in prefix]},
                  f"budget {r['budget']}, {'NV' if r['nv'] else 'generic'} hardware, transpiler {r['transpile']}: after {[(x['a'], x.get('h') or x.get('hs') or x.get('n')) for x in prefix]}: {v[1]}; "
                  f"active ids {e['active']} controller allocated {e['alloc']} live handles' ids {e['liveids']} {e.get('exc', '')} {e['err']}",
                  {"budget": r["budget"], "nv": r["nv"], "transpile": r["transpile"], "events": prefix})
        kinds = {}
        for r in rows:
            for e in r["events"]:
                kinds[e["a"]] = kinds.get(e["a"], 0) + 1
        cov = {
            "states": res.distinct, "transitions": res.generated, "traces_validated_against_impl": len(rows),
            "evaluations": len(rows), "distinct_nontrivial": len({json.dumps(c_) for c_ in cases if sum(1 for e in c_["events"] if e["a"] != "flush") >= 3}),
            "rule": "trace = legal history of qubit creation, gates, in-place and destructive measurement, free, EPR keep / sequential / context and flushes for budgets 1..5 x generic/NV hardware x transpiler off/on; non-trivial = >= 3 qubit operations",
            "samples": [cases[0], cases[-1]], "operations_by_kind": kinds, "exhaustive": False, "checker_cmd": res.cmd,
        }
        return V.finish("model_checking", cov, ASSUME)
    finally:
        shutil.rmtree(tmp, ignore_errors=True)


def minimal_prefix(case, k):
    return case["events"][:k]


def _drop(events, i):
    """events without event i and without later uses of the handles it introduced"""
    e = events[i]
    gone = set()
    if e["a"] == "new":
        gone = {e["h"]}
    elif e["a"] == "keep":
        gone = set(e["hs"])
    out = []
    for j, x in enumerate(events):
        if j == i:
            continue
        if x.get("h") in gone or x.get("h2") in gone:
            continue
        out.append(x)
    return out


def shrink(case, clause, tmp, rounds=25):
    cur = dict(case)
    for _ in range(rounds):
        ev = cur["events"]
        cands = []
        for i in range(len(ev)):
            e2 = _drop(ev, i)
            if e2 and e2[-1]["a"] == "flush":
                cands.append({**cur, "events": e2})
        if not cands:
            break
        with ProcessPoolExecutor(max_workers=C.ncpu()) as pool:
            rows = list(pool.map(_run, [(i + 1, c_) for i, c_ in enumerate(cands)], chunksize=4))
        res = C.run_tlc_sharded("Qubits", rows, tmp, shards=min(C.ncpu(), len(rows)), cfg="Qubits.cfg", tag="shr")
        failing = sorted({v[2] for v in res.verdicts if v[1] == clause and v[3] == len(cands[v[2] - 1]["events"])},
                         key=lambda i: len(cands[i - 1]["events"]))
        if not failing:
            break
        cur = cands[failing[0] - 1]
    # renumber handles in order of appearance
    ren: Dict[int, int] = {}
    def r(h):
        if h not in ren:
            ren[h] = len(ren) + 1
        return ren[h]
    out = []
    for e in cur["events"]:
        e = dict(e)
        if "hs" in e and e["a"] == "keep":
            e["hs"] = [r(h) for h in e["hs"]]
        if e.get("h"):
            e["h"] = r(e["h"])
        if e.get("h2"):
            e["h2"] = r(e["h2"])
        out.append(e)
    return {**cur, "events": out}


def pattern(prefix) -> List[str]:
    """order-preserving list of operation kinds, runs collapsed: the witness of a finding"""
    out: List[str] = []
    for e in prefix:
        a = e["a"] + (":" + e.get("form", "") if e["a"] == "seq" else "")
        if not out or out[-1] != a:
            out.append(a)
    return out


def replay_case(prop, case, tmp):
    row = _run((1, {k: case[k] for k in ("budget", "nv", "transpile", "events")}))
    res = C.run_tlc_sharded("Qubits", [row], tmp, shards=1, cfg="Qubits.cfg")
    return res.verdicts[0][1] if res.verdicts else None
