"""C07: NV gate decompositions equal the vanilla gates they replace."""
from __future__ import annotations

import json
import random
import shutil
from typing import Any, Dict, List, Optional

import numpy as np

from . import common as C
from . import isa

from netqasm.lang.instr import core, nv, vanilla
from netqasm.lang.operand import Immediate, Register
from netqasm.lang.encoding import RegisterName
from netqasm.lang.subroutine import Subroutine
from netqasm.runtime import settings
from netqasm.sdk.transpile import NVSubroutineTranspiler

ASSUME = [
    "a gate is a sequence of Pauli rotations exp(-i theta/2 P) with dyadic theta; equality up to global phase is equality of the normal form (Clifford frame + residual rotations), exact whenever the residual rotations commute (true for every decomposition in scope); otherwise the case is reported as inconclusive (exit 2), never as a violation",
    "electron = virtual id 0, carbons = ids 1 and 2; three qubits are modelled so that a borrowed electron must end in its prior state",
    "rotations with denominator exponent > 20 cannot be expanded in 32-bit TLC integers and must pass through literally",
    "the 'published matrix' clause compares numpy matrices (tolerance 1e-9, up to global phase) with the numeric value of the specification's symbolic denotation exported by TLC",
]

Q = lambda i: Register(RegisterName.Q, i)

ONE = {"x": vanilla.GateXInstruction, "y": vanilla.GateYInstruction, "z": vanilla.GateZInstruction, "h": vanilla.GateHInstruction,
       "k": vanilla.GateKInstruction, "s": vanilla.GateSInstruction, "t": vanilla.GateTInstruction}
ROT = {"rot_x": vanilla.RotXInstruction, "rot_y": vanilla.RotYInstruction, "rot_z": vanilla.RotZInstruction}
TWO = {"cnot": vanilla.CnotInstruction, "cphase": vanilla.CphaseInstruction, "mov": vanilla.MovInstruction}


Rr = lambda i: Register(RegisterName.R, i)
from netqasm.lang.instr.flavour import NVFlavour as _NVF  # noqa: E402
KEPT_NV = _NVF()


def transpile_gate(mn: str, ids: List[int], imm: Optional[List[int]], debug=False, unknown=False, context=""):
    """Real transpiler on `set Q0 a; [set Q1 b;] gate`.  Returns the emitted gate
    sequence with registers resolved to virtual qubit ids, as executed.
    unknown: the operands of a mov are R registers (values not known to the transpiler), as the SDK emits when it
    moves a fresh pair from the communication qubit into memory"""
    if unknown:
        instrs0: List[Any] = [core.SetInstruction(reg=Rr(1 - i), imm=Immediate(v)) for i, v in enumerate(ids)]
        instrs0.append(TWO[mn](reg0=Rr(1), reg1=Rr(0)))
        out0 = NVSubroutineTranspiler(Subroutine(instructions=instrs0, app_id=0), debug=debug).transpile()
        return resolve(out0.instructions)
    def gate_():
        if mn in ONE:
            return ONE[mn](reg=Q(0))
        if mn in ROT:
            return ROT[mn](reg=Q(0), imm0=Immediate(imm[0]), imm1=Immediate(imm[1]))
        return TWO[mn](reg0=Q(0), reg1=Q(1))
    instrs: List[Any] = [core.SetInstruction(reg=Q(i), imm=Immediate(v)) for i, v in enumerate(ids)]
    skip = 0
    if context == "earlier":
        # the same gate text appeared earlier in the subroutine, when the registers pointed at other qubits (the SDK
        # addresses every gate through Q0 / Q1): only the expansion of the LAST gate is judged
        other = [(v + 1) % 3 for v in ids] if len(ids) == 1 else ([1, 2] if 0 in ids else [0, 1] if mn != "mov" else [0, 2])
        pre = [core.SetInstruction(reg=Q(i), imm=Immediate(v)) for i, v in enumerate(other)] + [gate_()]
        skip = len(resolve(NVSubroutineTranspiler(Subroutine(instructions=list(pre), app_id=0), debug=debug).transpile().instructions))
        instrs = pre + instrs
    elif context == "classical":
        # classical registers with the same indices are written between the qubit registers and the gate
        instrs += [core.SetInstruction(reg=Register(RegisterName.R, 0), imm=Immediate(3 if ids[0] == 0 else 0)),
                   core.SetInstruction(reg=Register(RegisterName.C, 1), imm=Immediate(0 if len(ids) > 1 and ids[1] else 2)),
                   core.SetInstruction(reg=Register(RegisterName.M, 0), imm=Immediate(1))]
    instrs.append(gate_())
    sub = Subroutine(instructions=instrs, app_id=0)
    out = NVSubroutineTranspiler(sub, debug=debug).transpile()
    if context:
        return resolve(out.instructions)[skip:]
    if not debug and (len(ids) == 2 or (imm or [0])[0] % 3 == 0):
        # what the controller sees: the bytes, decoded with an NV flavour object that has been alive since the check started
        # (as a controller keeps one), after other flavour objects were created in the process
        from netqasm.lang.instr.flavour import VanillaFlavour
        from netqasm.lang.parsing import deserialize
        VanillaFlavour()
        try:
            raw = bytes(out)
        except ValueError:
            raw = None        # (a numerator scaled beyond 8 bits: the encoder refuses it, which is C16's business, not a wrong unitary)
        if raw is not None:
            out = deserialize(raw, flavour=KEPT_NV)
    return resolve(out.instructions)


def resolve(instructions) -> List[Dict[str, Any]]:
    regs: Dict[Any, int] = {}
    gates = []
    for ins in instructions:
        if isinstance(ins, core.SetInstruction):
            regs[ins.reg] = ins.imm.value
            continue
        if type(ins).__name__ == "DebugInstruction":
            continue
        if isinstance(ins, (core.SingleQubitInstruction,)):
            gates.append({"mn": ins.mnemonic, "qs": [regs[ins.reg] + 1], "imm": []})
        elif isinstance(ins, core.RotationInstruction):
            gates.append({"mn": ins.mnemonic, "qs": [regs[ins.reg] + 1], "imm": [ins.imm0.value, ins.imm1.value]})
        elif isinstance(ins, core.ControlledRotationInstruction):
            gates.append({"mn": ins.mnemonic, "qs": [regs[ins.reg0] + 1, regs[ins.reg1] + 1], "imm": [ins.imm0.value, ins.imm1.value]})
        elif isinstance(ins, core.TwoQubitInstruction):
            gates.append({"mn": ins.mnemonic, "qs": [regs[ins.reg0] + 1, regs[ins.reg1] + 1], "imm": []})
        else:
            raise ValueError(f"unexpected instruction in a gate expansion: {ins}")
    return gates


def cases(tier: str, rng: random.Random):
    rows = []
    def add(mn, ids, imm, kind="unitary", hw=False, unknown=False, context=""):
        src = [{"mn": mn, "qs": [i + 1 for i in ids], "imm": imm or []}]
        row = {"id": len(rows) + 1, "prop": "C07", "kind": kind, "src": src, "mov": [ids[0] + 1, ids[1] + 1] if kind == "mov" else [1, 1],
               "gate": mn, "ids": ids, "hw": hw, "err": ""}
        settings.set_is_using_hardware(hw)
        try:
            row["tgt"] = transpile_gate(mn, ids, imm, debug=(len(rows) % 5 == 0), unknown=unknown, context=context)
            if context:
                row["context"] = context
        except Exception as ex:
            row["tgt"] = []
            row["err"] = f"{type(ex).__name__}: {ex}"[:200]
        finally:
            settings.set_is_using_hardware(False)
        rows.append(row)
    for mn in ONE:
        for q in (0, 1, 2):
            add(mn, [q], None)
    for mn in ("cnot", "cphase"):
        for a in (0, 1, 2):
            for b in (0, 1, 2):
                if a != b:
                    add(mn, [a, b], None)
    for a, b in ((0, 1), (1, 0), (0, 2), (2, 0)):
        add("mov", [a, b], None, kind="mov")
    # the gate is not the first thing in its subroutine
    for ctx in ("earlier", "classical"):
        for mn in ONE:
            for q in (0, 1, 2):
                add(mn, [q], None, context=ctx)
        for mn in ("cnot", "cphase"):
            for a in (0, 1, 2):
                for b in (0, 1, 2):
                    if a != b:
                        add(mn, [a, b], None, context=ctx)
        for k, mn in enumerate(ROT):
            for q in (0, 1):
                add(mn, [q], [3 + k, 3], context=ctx)
    # operands the transpiler cannot know (R registers): documented to be the move from the communication qubit to memory
    for b in (1, 2):
        add("mov", [0, b], None, kind="mov", unknown=True)
    nd = [(n, d) for d in range(0, 9) for n in ({0, 1, 2, 3, 2**d, 2**(d + 1) - 1, 2**(d + 1), 255} if tier == "quick" else range(256))]
    nd += [(n, d) for d in (9, 16, 20) for n in (1, 3, 255)]
    nd += [(rng.randrange(256), rng.randrange(0, 21)) for _ in range(300 if tier == "quick" else 10000)]
    nd += [(1, 21), (255, 40), (128, 255), (6, 100), (0, 200)]            # tiny: must pass through literally
    for mn in ROT:
        for k, (n, d) in enumerate(sorted(set(nd))):
            add(mn, [k % 2], [n, d])
    # hardware angle normalisation: denominators 0..4, all numerators
    for mn in ROT:
        for d in range(5):
            for n in (range(256) if tier == "thorough" else list(range(0, 40)) + [63, 64, 127, 128, 254, 255]):
                add(mn, [(n + d) % 2], [n, d], hw=True)
    return rows


def pauli_matrix(x, z, ph):
    X = np.array([[0, 1], [1, 0]], dtype=complex)
    Z = np.array([[1, 0], [0, -1]], dtype=complex)
    m = np.array([[1]], dtype=complex)
    for xi, zi in zip(x, z):
        f = np.eye(2, dtype=complex)
        if xi:
            f = f @ X
        if zi:
            f = f @ Z
        m = np.kron(m, f)
    return (1j ** ph) * m


def rot_matrix(x, z, ph, th):
    P = pauli_matrix(x, z, ph)
    a = th * np.pi / 2**20
    return np.cos(a / 2) * np.eye(P.shape[0]) - 1j * np.sin(a / 2) * P


def same_up_to_phase(a, b, tol=1e-9):
    i = np.unravel_index(np.argmax(np.abs(b)), b.shape)
    if abs(a[i]) < tol:
        return False
    ph = b[i] / a[i]
    return abs(abs(ph) - 1) < 1e-6 and np.allclose(a * ph, b, atol=tol)


def _matrix_instances():
    samples = []
    insts = {}
    def add(obj, g):
        i = len(samples) + 1
        samples.append({"id": i, "g": g})
        insts[i] = obj
    r0, r1 = Q(0), Q(1)
    for mod in (vanilla, nv):
        for name in dir(mod):
            cls = getattr(mod, name)
            if not isinstance(cls, type) or not hasattr(cls, "mnemonic") or cls.__module__ != mod.__name__:
                continue
            mn = cls.mnemonic
            if issubclass(cls, core.SingleQubitInstruction):
                add(cls(reg=r0), {"mn": mn, "qs": [1], "imm": []})
            elif issubclass(cls, core.RotationInstruction):
                for n, d in ((1, 1), (3, 2), (5, 3), (1, 0), (7, 4), (24, 4), (31, 4), (255, 8), (77, 16), (255, 20),
                             (1, 21), (255, 31), (3, 32), (255, 40), (129, 63), (1, 64), (255, 65), (7, 100), (255, 255)):
                    add(cls(reg=r0, imm0=Immediate(n), imm1=Immediate(d)), {"mn": mn, "qs": [1], "imm": [n, d]})
            elif issubclass(cls, core.ControlledRotationInstruction):
                for n, d in ((1, 1), (3, 2), (8, 4), (24, 4), (5, 3), (255, 20), (3, 21), (255, 32), (1, 63), (255, 64), (9, 200)):
                    add(cls(reg0=r0, reg1=r1, imm0=Immediate(n), imm1=Immediate(d)), {"mn": mn, "qs": [1, 2], "imm": [n, d]})
            elif issubclass(cls, core.TwoQubitInstruction) and mn != "mov":
                add(cls(reg0=r0, reg1=r1), {"mn": mn, "qs": [1, 2], "imm": []})
    return samples, insts


def _eval_in_order(args):
    """(fresh process) request the published matrices in the given order; ids whose matrix is not the denotation"""
    order, Us = args
    _, insts = _matrix_instances()
    bad = []
    for i in order:
        try:
            M = np.array(insts[i].to_matrix(), dtype=complex)
        except Exception as ex:
            bad.append((i, f"raises {type(ex).__name__}: {ex}"))
            continue
        if M.shape != Us[i].shape or not same_up_to_phase(Us[i], M):
            bad.append((i, f"{insts[i]}: to_matrix() is not the operator the mnemonic denotes\nspec:\n{np.round(Us[i], 3)}\nrepo:\n{np.round(M, 3)}"))
    return bad


def published_matrices(V, tmp, tier="quick") -> int:
    """every instruction class of both flavours: to_matrix() vs the numeric value of Gates!Denote"""
    samples, insts = _matrix_instances()
    sp, op = f"{tmp}/samples.ndjson", f"{tmp}/denote.ndjson"
    C.write_ndjson(sp, samples)
    C.run_tlc("GatesExport", env={"VERIF_TRACES": sp, "VERIF_OUT": op}, workers=1)
    den = {r["id"]: r["rots"] for r in C.read_ndjson(op)}
    Us = {}
    for i, obj in insts.items():
        nq = len(samples[i - 1]["g"]["qs"])
        U = np.eye(2**nq, dtype=complex)
        imm = samples[i - 1]["g"]["imm"]
        for r in den[i]:
            th = r["th"]
            if imm and imm[1] > 20:
                # finer than the specification's angle unit (pi / 2^20): the axis is the specification's, the angle
                # n pi / 2^d is evaluated by the rig in floating point
                th = imm[0] * 2.0 ** (20 - imm[1])
            U = rot_matrix(r["x"][:nq], r["z"][:nq], r["ph"], th) @ U
        Us[i] = U
        try:
            M = np.array(obj.to_matrix(), dtype=complex)
        except Exception as ex:
            V.add("published-matrix-raises", {"class": f"{type(obj).__module__.split('.')[-1]}.{type(obj).__name__}"}, str(ex))
            continue
        if M.shape != U.shape or not same_up_to_phase(U, M):
            V.add("published-matrix-differs-from-denotation",
                  {"class": f"{type(obj).__module__.split('.')[-1]}.{type(obj).__name__}"},
                  f"{obj}: to_matrix() is not the operator the mnemonic denotes\nspec:\n{np.round(U, 3)}\nrepo:\n{np.round(M, 3)}")
        if nq == 2 and hasattr(obj, "to_matrix_target_only") and type(obj).__name__.startswith("ControlledRot"):
            # the target-only matrix is the rotation about the same axis
            ax = {"crot_x": ([1], [0], 0), "crot_y": ([1], [1], 1)}[obj.mnemonic]
            th = obj.imm0.value * 2 ** (20 - obj.imm1.value)
            T = rot_matrix(ax[0], ax[1], ax[2], th)
            if not same_up_to_phase(T, np.array(obj.to_matrix_target_only(), dtype=complex)):
                V.add("published-matrix-differs-from-denotation", {"class": f"nv.{type(obj).__name__}.target_only"}, f"{obj}")
    # ... of the instruction AS IT IS NOW: an instruction whose matrix was already requested is given another angle in place
    # (the operands have public setters; the transpilers rewrite instructions in place) or is copied and the copy changed
    import copy as _copy
    byclass: Dict[str, List[int]] = {}
    for i, obj in insts.items():
        if samples[i - 1]["g"]["imm"]:
            byclass.setdefault(type(obj).__module__ + type(obj).__name__, []).append(i)
    rewritten = 0
    for ids_ in byclass.values():
        for a_, b_ in zip(ids_, ids_[1:] + ids_[:1]):
            for how in ("in-place", "copy"):
                try:
                    src_ = insts[a_]
                    np.array(src_.to_matrix(), dtype=complex)                       # requested once with the old angle
                    tgt_ = src_ if how == "in-place" else _copy.copy(src_)
                    old_ = (tgt_.angle_num, tgt_.angle_denom)
                    tgt_.angle_num, tgt_.angle_denom = insts[b_].angle_num, insts[b_].angle_denom
                    M = np.array(tgt_.to_matrix(), dtype=complex)
                    if how == "in-place":
                        tgt_.angle_num, tgt_.angle_denom = old_
                except Exception as ex:
                    V.add("published-matrix-raises", {"class": f"{type(insts[a_]).__module__.split('.')[-1]}.{type(insts[a_]).__name__}", "after": "rewrite"}, str(ex))
                    continue
                rewritten += 1
                if M.shape != Us[b_].shape or not same_up_to_phase(Us[b_], M):
                    V.add("published-matrix-is-that-of-an-earlier-angle",
                          {"class": f"{type(insts[a_]).__module__.split('.')[-1]}.{type(insts[a_]).__name__}", "how": how},
                          f"{insts[a_]} was given the angle of {insts[b_]} ({how}) after its matrix had been requested: to_matrix() is not the operator of the new angle")
    published_matrices.rewritten = rewritten
    # the matrix of an instruction is a function of the instruction alone: the same comparison with the matrices
    # requested in other orders, each order in a process of its own (nothing computed earlier is around)
    import multiprocessing as mp
    ids = sorted(insts)
    one = [i for i in ids if len(samples[i - 1]["g"]["qs"]) == 1]
    two = [i for i in ids if len(samples[i - 1]["g"]["qs"]) == 2]
    orders = [list(reversed(ids)), one + two, two + one, list(reversed(one)) + two]
    rng = random.Random(C.seed() * 31 + 7)
    for _ in range(4 if tier == "quick" else 28):
        o = list(ids)
        rng.shuffle(o)
        orders.append(o)
    with mp.get_context("spawn").Pool(min(len(orders), C.ncpu())) as pool:
        results = pool.map(_eval_in_order, [(o, Us) for o in orders])
    for o, bad in zip(orders, results):
        for i, detail in bad:
            obj = insts[i]
            V.add("published-matrix-depends-on-evaluation-order",
                  {"class": f"{type(obj).__module__.split('.')[-1]}.{type(obj).__name__}"},
                  f"with the matrices requested in the order {[str(insts[j]) for j in o[:o.index(i) + 1]][-6:]} (last six): {detail}",
                  {"order": o, "instruction": str(obj)})
    published_matrices.orders = len(orders)
    return len(insts)


def run(prop: str, tier: str) -> int:
    V = C.Verdicts(prop, tier)
    tmp = C.tmpdir()
    try:
        rng = random.Random(C.seed() * 977 + 1)
        rows = cases(tier, rng)
        good = [r for r in rows if not r["err"]]
        for r in rows:
            if r["err"]:
                V.add("transpiler-raises", {"gate": r["gate"], "ids": r["ids"], "hw": r["hw"]}, r["err"])
        res = C.run_tlc_sharded("NvEquiv", good, tmp, shards=C.ncpu())
        by = {r["id"]: r for r in good}
        inconclusive = 0
        bad = {}
        for v in res.verdicts:
            bad.setdefault(v[2], v)
        for i, v in sorted(bad.items()):
            r = by[i]
            if v[1] == "INCONCLUSIVE":
                inconclusive += 1
                continue
            imm = r["src"][0]["imm"]
            V.add("decomposition-differs-from-gate",
                  {"gate": r["gate"], "placement": ["e" if q == 0 else "c" for q in r["ids"]], "hw": r["hw"], "what": v[1],
                   "angle": ("d<=4" if imm and imm[1] <= 4 else "d>4") if imm else ""},
                  f"{r['gate']} on virtual ids {r['ids']} {imm} (hardware mode {r['hw']}): emitted {[g['mn'] + str(g['qs']) + str(g['imm']) for g in r['tgt']]}", r)
        missing = set(by) - set(res.ok_ids)
        if missing:
            raise C.MachineryError(f"NvEquiv gave no result for {len(missing)} artefacts")
        if inconclusive:
            raise C.MachineryError(f"{inconclusive} artefacts could not be decided by the normal form (non-commuting residual rotations)")
        nmat = published_matrices(V, tmp, tier)
        # binding self-test: a mutated decomposition must be rejected
        src_probe = next((r for r in good if r["gate"] == "cnot" and r["ids"] == [1, 2] and r["id"] in res.ok_ids), None) or \
            next((r for r in good if r["id"] in res.ok_ids and any(g["mn"] == "rot_z" for g in r["tgt"])), None)
        if src_probe is None:
            if not V.has_new():
                raise C.MachineryError("binding self-test: no accepted expansion with a rot_z to mutate")
        else:
            probe = json.loads(json.dumps(src_probe))
            probe["id"] = 1
            for g in probe["tgt"]:
                if g["mn"] == "rot_z":
                    g["imm"][0] = (g["imm"][0] + 16) % 32
                    break
            r3 = C.run_tlc_sharded("NvEquiv", [probe], tmp, shards=1, tag="self")
            if not r3.verdicts:
                raise C.MachineryError("binding self-test: mutated expansion accepted")
        cov = {
            "programs": len(rows), "disagreements_checked": len(bad),
            "states": res.distinct, "transitions": res.generated,
            "evaluations": len(rows), "distinct_nontrivial": len({json.dumps([r["gate"], r["ids"], r["src"][0]["imm"], r["hw"]]) for r in good}),
            "rule": "artefact = (vanilla gate, placement over electron/carbons, (n,d), hardware flag) with the REAL transpiler's expansion; every artefact is non-trivial (a gate to preserve); distinct by value",
            "samples": [{k: rows[i][k] for k in ("gate", "ids", "src", "tgt", "hw")} for i in (0, 25, len(rows) - 1)],
            "published_matrices_compared": nmat, "matrix_evaluation_orders": 1 + published_matrices.orders, "matrices_after_in_place_rewrite": published_matrices.rewritten,
            "selftest": "carbon-carbon CNOT expansion with one rot_z numerator changed was rejected",
            "exhaustive": False, "checker_cmd": res.cmd,
        }
        return V.finish("translation_validation", cov, ASSUME)
    finally:
        shutil.rmtree(tmp, ignore_errors=True)
