"""C04: the executor implements the NetQASM classical semantics and faults precisely."""
from __future__ import annotations

import itertools
import json
import os
import random
import shutil
from concurrent.futures import ProcessPoolExecutor
from typing import Any, Dict, List

from . import common as C
from . import rig

ASSUME = [
    "situations the property does not list (arithmetic/branch on an undefined register, negative indices or jump targets, undefined array length) are 'unspecified' in spec/Machine.tla: the trace is accepted up to that point and not counted",
    "gates and measurements are simulator hooks: the rig's executor subclass resolves the virtual qubit through the real unit module (an instruction on an unallocated qubit faults) and takes outcomes from a script",
    "in-process return path: a returned array is the same list object as the controller's array, so the host's view follows later stores until the array is re-declared (modelled as sharrs[a].alias)",
    "register values stay far inside 32 bits (TLC integers)",
]

R0, R1, R2, R3, R4 = 0, 1, 2, 3, 4
C0, C1 = 16, 17
Q0, Q1 = 32, 33
M0, M1 = 48, 49


def I(mn, *ops):
    return {"mn": mn, "ops": list(ops)}


SETUP = [I("set", R0, 0), I("set", R1, 1), I("set", R2, -3), I("set", R3, 2),
         I("array", R3, 0), I("store", R1, 0, R0), I("set", Q0, 0), I("set", Q1, 1), I("qalloc", Q0)]
# after SETUP: R0=0 R1=1 R2=-3 R3=2, @0=[1,U], Q0=0 (allocated), Q1=1 (not allocated), R4/C0/M0 undefined


def alphabet(nlines: int) -> List[Dict[str, Any]]:
    A: List[Dict[str, Any]] = []
    regs = [R0, R1, R2, R3]
    for r in (R0, R4, C0):
        for v in (0, 5, -1):
            A.append(I("set", r, v))
    for mn in ("add", "sub"):
        for a, b in ((R1, R3), (R2, R1), (R0, R2)):
            A.append(I(mn, R4, a, b))
        A.append(I(mn, R1, R1, R3))
    for mn in ("addm", "subm"):
        for a, b, m in ((R1, R3, R3), (R2, R1, R3), (R1, R3, R0), (R1, R3, R2), (R1, R2, R3), (R4, R1, R0), (R0, R1, R1)):
            A.append(I(mn, R4, a, b, m))
    targets = sorted({0, nlines - 1, nlines, nlines + 3, len(SETUP)})
    for t in targets:
        A.append(I("jmp", t))
        for mn in ("bez", "bnz"):
            for r in (R0, R1):
                A.append(I(mn, r, t))
        for mn in ("beq", "bne", "blt", "bge"):
            for a, b in ((R0, R1), (R1, R0), (R1, R1), (R2, R0)):
                A.append(I(mn, a, b, t))
    for r in (R1, R2, R4):
        for a in (0, 1):
            for i in (R0, R1, R3, R4):
                A.append(I("store", r, a, i))
    for a in (0, 1):
        for i in (R0, R1, R3, R4):
            A.append(I("load", R4, a, i))
            A.append(I("undef", a, i))
            A.append(I("wait_single", a, i))
    A += [I("lea", R4, 0), I("lea", R0, 1), I("array", R3, 1), I("array", R3, 0), I("array", R1, 0), I("array", R0, 1)]
    for mn in ("wait_all", "wait_any"):
        for a in (0, 1):
            for s, e in ((R0, R1), (R0, R3), (R1, R1), (R0, R4), (R1, R3)):
                A.append(I(mn, a, s, e))
    for r in (R0, R2, R4, M0):
        A.append(I("ret_reg", r))
    A += [I("ret_arr", 0), I("ret_arr", 1)]
    for q in (Q0, Q1):
        A += [I("qalloc", q), I("qfree", q), I("init", q), I("h", q), I("meas", q, M0), I("rot_x", q, 3, 1)]
    A += [I("set", Q1, 2), I("set", Q1, 0), I("cnot", Q0, Q1), I("crot_x", Q0, Q1, 1, 2),
          I("meas_basis", Q0, M0, 1, 2, 3, 4), I("breakpoint", 0, 0)]
    return A


def case_of(cid, progs, umsize=2, meas=(1, 0, 1, 1, 0, 0, 1, 0)):
    regset = sorted({o for p in progs for i in p for k, o in zip(kinds(i["mn"]), i["ops"]) if k == "reg"})
    addrs = sorted({o for p in progs for i in p for k, o in zip(kinds(i["mn"]), i["ops"]) if k == "addr"} | {0, 1})
    return {"id": cid, "umsize": umsize, "meas": list(meas), "progs": progs, "regset": regset, "addrs": addrs}


_K = {
    "set": ["reg", "int"], "lea": ["reg", "addr"], "array": ["reg", "addr"], "store": ["reg", "addr", "reg"],
    "load": ["reg", "addr", "reg"], "undef": ["addr", "reg"], "wait_single": ["addr", "reg"],
    "wait_all": ["addr", "reg", "reg"], "wait_any": ["addr", "reg", "reg"], "jmp": ["int"],
    "bez": ["reg", "int"], "bnz": ["reg", "int"], "ret_reg": ["reg"], "ret_arr": ["addr"],
    "meas": ["reg", "reg"], "cnot": ["reg", "reg"], "cphase": ["reg", "reg"], "mov": ["reg", "reg"],
    "rot_x": ["reg", "imm", "imm"], "rot_y": ["reg", "imm", "imm"], "rot_z": ["reg", "imm", "imm"],
    "crot_x": ["reg", "reg", "imm", "imm"], "crot_y": ["reg", "reg", "imm", "imm"],
    "meas_basis": ["reg", "reg", "imm", "imm", "imm", "imm"], "breakpoint": ["imm", "imm"],
}
for _m in ("beq", "bne", "blt", "bge"):
    _K[_m] = ["reg", "reg", "int"]
for _m in ("add", "sub"):
    _K[_m] = ["reg", "reg", "reg"]
for _m in ("addm", "subm"):
    _K[_m] = ["reg", "reg", "reg", "reg"]
for _m in ("qalloc", "qfree", "init", "x", "y", "z", "h", "s", "k", "t"):
    _K[_m] = ["reg"]


def kinds(mn):
    return _K[mn]


def random_program(rng: random.Random, n: int) -> List[Dict[str, Any]]:
    regs = [R0, R1, R2, R3, R4, C0]
    prog: List[Dict[str, Any]] = []
    defined = set()
    for _ in range(n):
        pick = rng.random()
        def dr():
            return rng.choice(sorted(defined)) if defined and rng.random() < 0.9 else rng.choice(regs)
        if pick < 0.22 or len(defined) < 2:
            r = rng.choice(regs)
            prog.append(I("set", r, rng.choice([0, 1, 2, 3, 5, -1, -2, 7])))
            defined.add(r)
        elif pick < 0.34:
            r = rng.choice(regs)
            prog.append(I(rng.choice(["add", "sub"]), r, dr(), dr()))
            defined.add(r)
        elif pick < 0.42:
            r = rng.choice(regs)
            prog.append(I(rng.choice(["addm", "subm"]), r, dr(), dr(), dr()))
            defined.add(r)
        elif pick < 0.56:
            t = rng.choice([rng.randrange(0, n + 1), min(n, len(prog) + rng.randrange(1, 4)), n + 2])
            k = rng.random()
            if k < 0.2:
                prog.append(I("jmp", t))
            elif k < 0.5:
                prog.append(I(rng.choice(["bez", "bnz"]), dr(), t))
            else:
                prog.append(I(rng.choice(["beq", "bne", "blt", "bge"]), dr(), dr(), t))
        elif pick < 0.64:
            prog.append(I("array", dr(), rng.choice([0, 1, 2])))
        elif pick < 0.76:
            prog.append(I("store", dr(), rng.choice([0, 1, 2]), dr()))
        elif pick < 0.84:
            r = rng.choice(regs)
            prog.append(I("load", r, rng.choice([0, 1, 2]), dr()))
            defined.add(r)
        elif pick < 0.87:
            prog.append(I("undef", rng.choice([0, 1, 2]), dr()))
        elif pick < 0.90:
            prog.append(I(rng.choice(["ret_reg"]), dr()))
        elif pick < 0.92:
            prog.append(I("ret_arr", rng.choice([0, 1, 2])))
        elif pick < 0.94:
            r = rng.choice(regs)
            prog.append(I("lea", r, rng.choice([0, 1, 2])))
            defined.add(r)
        elif pick < 0.96:
            prog.append(I(rng.choice(["wait_all", "wait_any"]), rng.choice([0, 1]), dr(), dr()))
        else:
            q = rng.choice([Q0, Q1])
            prog.append(rng.choice([I("set", q, rng.choice([0, 1, 2])), I("qalloc", q), I("qfree", q), I("h", q),
                                    I("meas", q, rng.choice([M0, M1, R4])), I("rot_z", q, 1, 2), I("cnot", Q0, Q1)]))
    return prog


def _run_chunk(cases):
    return [rig.run_case(c) for c in cases]


def build_cases(tier: str) -> List[Dict[str, Any]]:
    cases: List[Dict[str, Any]] = []
    cid = itertools.count(1)
    # (1) systematic: SETUP followed by every 1-instruction and (a slice of) every 2-instruction suffix
    n1 = len(SETUP) + 1
    for a in alphabet(n1):
        cases.append(case_of(next(cid), [SETUP + [a]]))
    n2 = len(SETUP) + 2
    A2 = alphabet(n2)
    stride = 1 if tier == "thorough" else 9
    pairs = list(itertools.product(A2, A2))
    for a, b in pairs[:: stride]:
        cases.append(case_of(next(cid), [SETUP + [a, b]]))
    # (1c) the same systematic programs with the package's "running on hardware" setting on (values are then checked to fit
    #      the word width; the programs here use small values, so every step has to be what it is with the setting off)
    for k, c0 in enumerate(list(cases)):
        if k % (3 if len(c0["progs"][0]) == n1 else 17) == 0:
            cases.append(dict(case_of(next(cid), c0["progs"]), hw=True))
    # (1b) qubit allocation histories: every sequence of qalloc / qfree over three virtual ids (holes in the
    #      used set, re-allocation after a free, faults on double allocation / double free), also split over
    #      two subroutines of the same application
    Q2 = 34
    qpre = [I("set", Q0, 0), I("set", Q1, 1), I("set", Q2, 2)]
    qops = [I(mn, q) for mn in ("qalloc", "qfree") for q in (Q0, Q1, Q2)]
    for n in (3, 4) if tier == "quick" else (3, 4, 5):
        seqs = list(itertools.product(qops, repeat=n))
        for k, seq in enumerate(seqs[:: (1 if n < 5 else 3)]):
            body = list(seq) + [I("h", Q0)]
            if k % 2:
                cut = 1 + k % (n - 1)
                cases.append(case_of(next(cid), [qpre + body[:cut], body[cut:]], umsize=3))
            else:
                cases.append(case_of(next(cid), [qpre + body], umsize=3))
    # (2) two subroutines against the same application state: the second sees what the first left
    A1 = alphabet(1)
    rng = random.Random(C.seed() * 31 + 3)
    m = 1500 if tier == "thorough" else 300
    for _ in range(m):
        a, b, c = rng.choice(A1), rng.choice(A1), rng.choice(A1)
        cases.append(case_of(next(cid), [SETUP + [a], [b, c]]))
    # (2b) a series of short subroutines of the same length (different instructions) run one after the other by one
    #      application; each subroutine object is gone before the next one is made, as with subroutines arriving as messages
    for _ in range(m // 2):
        cases.append(case_of(next(cid), [SETUP + [rng.choice(A1)]] + [[rng.choice(A1), rng.choice(A1)] for _k in range(7)]))
    # (3) random programs, unstructured jumps
    m = 6000 if tier == "thorough" else 800
    for _ in range(m):
        n = rng.choice([4, 6, 8, 12, 20, 40])
        progs = [random_program(rng, n)]
        if rng.random() < 0.4:
            progs.append(random_program(rng, rng.choice([3, 6, 10])))
        cases.append(case_of(next(cid), progs, umsize=rng.choice([1, 2, 3])))
    return cases


def _replay_chunk(rows):
    """spec -> code: replay TLC's finished runs on the real executor."""
    out = []
    REGS = [0, 1, 2, 32, 48]
    for row in rows:
        case = {"id": 0, "umsize": 1, "meas": [1, 0], "progs": [row["prog"]], "regset": REGS, "addrs": [0]}
        t = rig.run_case(case, max_steps=3 * len(row["pcs"]) + 10)      # (hook yields of qfree count against the budget too)
        ex = [s for s in t["steps"] if s["kind"] == "exec"]
        n = len(row["pcs"])
        pre = [0] + [s["post"]["pc"] for s in ex]
        # spec step i consumed pc pcs[i]; the spec's LAST step may be the 'done' transition
        real_pcs = pre[:n]
        want_final = {
            "status": row["status"], "pc": row["pc"], "fline": row["fline"],
            "regs": [row["regs"][str(r)] for r in REGS], "shregs": [row["shregs"][str(r)] for r in REGS],
            "arr": row["arr"], "sharr": row["sharr"], "um": row["um"], "used": sorted(row["used"]),
        }
        if len(ex) < n:
            out.append((row, "fewer-steps", f"real executed {len(ex)} steps, spec {n}; real steps {[s['post']['status'] for s in ex]}"))
            continue
        post = ex[n - 1]["post"]
        got_final = {
            "status": post["status"], "pc": post["pc"], "fline": post["fline"],
            "regs": post["regs"], "shregs": post["shregs"],
            "arr": post["arrs"][0], "sharr": post["sharrs"][0], "um": post["um"], "used": post["used"],
        }
        if real_pcs != row["pcs"]:
            out.append((row, "pc-sequence", f"real pcs {real_pcs} spec pcs {row['pcs']}"))
        elif got_final != want_final:
            comp = next(k for k in want_final if want_final[k] != got_final[k])
            out.append((row, "final-" + comp, f"real {got_final[comp]} spec {want_final[comp]} ({ex[n-1].get('exc', '')})"))
    return out


def replay_spec_runs(V, tier) -> Dict[str, Any]:
    r = C.run_tlc("MachineMC", env={"VERIF_MODE": tier}, coverage=True, timeout=3000)
    if r.violated:
        raise C.MachineryError(f"MachineMC: invariants of the specification itself violated: {r.violated}\n{r.out[-1500:]}")
    rows = []
    for line in r.out.splitlines():
        if line.startswith('"{'):
            rows.append(json.loads(json.loads(line)))
    if min(r.coverage.get(a, 0) for a in ("Emit", "Start", "Step")) == 0 or not rows:
        raise C.MachineryError(f"vacuous MachineMC run {r.coverage}")
    n = C.ncpu()
    with ProcessPoolExecutor(max_workers=n) as pool:
        res = [x for ch in pool.map(_replay_chunk, [rows[i::n] for i in range(n)]) for x in ch]
    for row, clause, detail in res:
        last = row["prog"][row["pcs"][-1]]["mn"] if row["pcs"] and row["pcs"][-1] < len(row["prog"]) else "(end)"
        V.add("replay-diverges", {"what": clause, "instr": last, "spec_status": row["status"]},
              f"program {row['prog']}: {detail}", row)
    return {"mc_states": r.distinct, "mc_transitions": r.generated, "mc_runs_replayed": len(rows),
            "mc_action_coverage": r.coverage, "mc_sample": rows[len(rows) // 2], "mc_cmd": r.cmd,
            "mc_status_counts": {s: sum(1 for x in rows if x["status"] == s) for s in ("done", "fault", "wait", "run")}}


def run(prop: str, tier: str) -> int:
    V = C.Verdicts(prop, tier)
    tmp = C.tmpdir()
    try:
        mc = replay_spec_runs(V, tier)
        all_cases = build_cases(tier)
        n = C.ncpu()
        # in batches: the logged traces of the thorough tier do not fit in memory at once
        BATCH = 10000
        ok, unspec, nontriv = 0, 0, set()
        distinct = generated = ntraces = nsteps = 0
        probes, sample, cmd = [], [], ""
        for b0 in range(0, len(all_cases), BATCH):
            cases = all_cases[b0:b0 + BATCH]
            chunks = [cases[i::n] for i in range(n)]
            with ProcessPoolExecutor(max_workers=n) as pool:
                done = list(pool.map(_run_chunk, chunks))
            traces = [t for ch in done for t in ch]
            traces.sort(key=lambda t: t["id"])
            res = C.run_tlc_sharded("MachineTrace", traces, tmp, shards=n)
            by_id = {t["id"]: t for t in traces}
            for sid in res.ok_ids:
                ok += 1
                t = by_id[sid]
                if sum(1 for s in t["steps"] if s["kind"] == "exec") >= 3:
                    nontriv.add(json.dumps(t["progs"], sort_keys=True))
            for v in res.verdicts:
                clause, sid, k = v[1], v[2], v[3]
                t = by_id[sid]
                if clause == "unspecified":
                    unspec += 1
                    continue
                st = t["steps"][k - 1]
                prog = t["progs"][st["sub"] - 1]
                # the instruction that was being executed: pc of the previous step
                prev_pc = t["steps"][k - 2]["post"]["pc"] if k >= 2 and t["steps"][k - 2]["sub"] == st["sub"] and t["steps"][k - 2]["kind"] != "start" else 0
                if t["steps"][k - 2]["kind"] == "start" if k >= 2 else True:
                    prev_pc = 0
                instr = prog[prev_pc]["mn"] if 0 <= prev_pc < len(prog) else "(end)"
                V.add("step-leaves-specification", {"component": clause, "instr": instr, "real_status": st["post"]["status"]},
                      f"case {sid} step {k} (sub {st['sub']}, pc {prev_pc}: {prog[prev_pc] if 0 <= prev_pc < len(prog) else None}): "
                      f"spec and real state differ in {clause}; real post-state {json.dumps(st['post'])[:400]} {st.get('exc', '')}",
                      {"case": {k2: t[k2] for k2 in ("id", "umsize", "meas", "progs", "regset", "addrs")}, "step": k})
            missing = set(by_id) - set(res.ok_ids) - {v[2] for v in res.verdicts}
            if missing:
                raise C.MachineryError(f"MachineTrace gave no verdict for {len(missing)} cases, e.g. {sorted(missing)[:5]}")
            distinct += res.distinct
            generated += res.generated
            ntraces += len(traces)
            nsteps += sum(len(t["steps"]) for t in traces)
            cmd = res.cmd
            if not probes:
                probes = [json.loads(json.dumps(next(t for t in traces if len(t["steps"]) > 6 and t["id"] in res.ok_ids))),
                          json.loads(json.dumps(next(t for t in traces if len(t["steps"]) > 8 and t["id"] in res.ok_ids)))]
            sample += [{k2: t[k2] for k2 in ("id", "progs")} | {"steps": len(t["steps"])} for t in (traces[0], traces[len(traces) // 2])]
            del traces, by_id, done, res
        # binding self-test: corrupt one logged register value / skip one step
        probe, probe2 = probes
        probe["id"] = 1
        probe["steps"][4]["post"]["regs"][0] = [1, 424242]
        probe2["id"] = 2
        del probe2["steps"][3]
        r3 = C.run_tlc_sharded("MachineTrace", [probe, probe2], tmp, shards=1, tag="self")
        if len(r3.verdicts) != 2:
            raise C.MachineryError(f"binding self-test: corrupted traces accepted ({r3.verdicts})")
        sample = sample[:3]
        cov = {
            "states": distinct + mc["mc_states"], "transitions": generated + mc["mc_transitions"],
            "traces_validated_against_impl": ntraces + mc["mc_runs_replayed"], "evaluations": ntraces + mc["mc_runs_replayed"],
            "spec_to_code": mc,
            "distinct_nontrivial": len(nontriv),
            "rule": "case = application + 1..2 subroutines executed by the real executor one instruction at a time with the projected state logged after each; non-trivial = accepted end to end and >= 3 executed instructions; distinct by program text",
            "samples": sample,
            "accepted": ok, "ended_in_unspecified_situation": unspec,
            "total_steps_validated": nsteps,
            "selftest": "corrupted register value and skipped step both rejected by MachineTrace",
            "exhaustive": False, "checker_cmd": cmd,
        }
        return V.finish("model_checking", cov, ASSUME)
    finally:
        shutil.rmtree(tmp, ignore_errors=True)
