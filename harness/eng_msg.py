"""C15: host/controller messages survive serialisation."""
from __future__ import annotations

import json
import random
import shutil
from typing import Any, Dict, List

from . import common as C
from . import isa

from netqasm.backend import messages as M

ASSUME = [
    "the byte layout of messages is not part of the property: only deserialize(bytes(m)) = m is checked",
    "32-bit unsigned fields cross the TLC boundary as two 16-bit limbs",
    "field-wise boundary values; arrays up to length 3 (quick) / 4 (thorough) with every pattern of undefined entries, random arrays up to length 64",
]


def u32(l):
    return (l[0] << 16) | l[1]


def limbs(v):
    return [(v >> 16) & 0xFFFF, v & 0xFFFF]


def build(m: Dict[str, Any]):
    t = m["t"]
    if t == "InitNewApp":
        return M.InitNewAppMessage(app_id=u32(m["app_id"]), max_qubits=m["max_qubits"])
    if t == "OpenEPRSocket":
        return M.OpenEPRSocketMessage(app_id=u32(m["app_id"]), epr_socket_id=m["epr_socket_id"],
                                      remote_node_id=m["remote_node_id"],
                                      remote_epr_socket_id=m["remote_epr_socket_id"], min_fidelity=m["min_fidelity"])
    if t == "Subroutine":
        return M.SubroutineMessage(subroutine=bytes(m["payload"]))
    if t == "StopApp":
        return M.StopAppMessage(app_id=u32(m["app_id"]))
    if t == "Signal":
        return M.SignalMessage(signal=M.Signal(m["signal"]))
    if t == "Done":
        return M.MsgDoneMessage(msg_id=u32(m["msg_id"]))
    if t == "Error":
        return M.ErrorMessage(err_code=M.ErrorCode(m["err_code"]))
    if t == "ReturnReg":
        return M.ReturnRegMessage(register=isa.reg(m["register"]).cstruct, value=m["value"])
    if t == "ReturnArray":
        return M.ReturnArrayMessage(address=m["address"], values=[None if e[0] == 0 else e[1] for e in m["values"]])
    raise KeyError(t)


def project(obj) -> Dict[str, Any]:
    """Abstract form of a real (deserialised) message, read from its public fields."""
    if isinstance(obj, M.InitNewAppMessage):
        return {"t": "InitNewApp", "app_id": limbs(obj.app_id), "max_qubits": obj.max_qubits}
    if isinstance(obj, M.OpenEPRSocketMessage):
        return {"t": "OpenEPRSocket", "app_id": limbs(obj.app_id), "epr_socket_id": obj.epr_socket_id,
                "remote_node_id": obj.remote_node_id, "remote_epr_socket_id": obj.remote_epr_socket_id,
                "min_fidelity": obj.min_fidelity}
    if isinstance(obj, M.SubroutineMessage):
        return {"t": "Subroutine", "payload": list(obj.subroutine)}
    if isinstance(obj, M.StopAppMessage):
        return {"t": "StopApp", "app_id": limbs(obj.app_id)}
    if isinstance(obj, M.SignalMessage):
        return {"t": "Signal", "signal": obj.signal}
    if isinstance(obj, M.MsgDoneMessage):
        return {"t": "Done", "msg_id": limbs(obj.msg_id)}
    if isinstance(obj, M.ErrorMessage):
        return {"t": "Error", "err_code": obj.err_code}
    if isinstance(obj, M.ReturnRegMessage):
        r = obj.register
        return {"t": "ReturnReg", "register": (r.register_name % 4) * 16 + r.register_index, "value": obj.value}
    if isinstance(obj, M.ReturnArrayMessage):
        vals = []
        for v in obj.values:
            if v is None:
                vals.append([0, 0])
            elif isinstance(v, int) and not isinstance(v, bool):
                vals.append([1, v])
            else:
                vals.append([1, repr(v)])
        return {"t": "ReturnArray", "address": obj.address, "values": vals}
    return {"t": type(obj).__name__}


HOST = {"InitNewApp", "OpenEPRSocket", "Subroutine", "StopApp", "Signal"}


MODES = ("plain", "buffer-reused", "modified-after-a-first-serialisation", "numpy-integers")
FIXED = {"InitNewApp": ("app_id", "max_qubits"), "OpenEPRSocket": ("app_id", "epr_socket_id", "remote_node_id", "remote_epr_socket_id", "min_fidelity"),
         "StopApp": ("app_id",), "Done": ("msg_id",), "Error": ("err_code",), "ReturnReg": ("value",)}


def _other(m):
    """a different message of the same (fixed-size) type: every integer field changed"""
    o = json.loads(json.dumps(m))
    for f in FIXED[m["t"]]:
        o[f] = [o[f][0] ^ 1, o[f][1] ^ 0x55] if isinstance(o[f], list) else ((o[f] + 1) % 3 if f == "err_code" else (o[f] ^ 3) % 256 if f in ("max_qubits", "min_fidelity") else o[f] ^ 5)
    if m["t"] == "ReturnReg":
        o["register"] = (m["register"] + 21) % 64
    return o


def roundtrip(m: Dict[str, Any], mode: str = "plain") -> Dict[str, Any]:
    """deserialize(bytes(message)) in three situations a controller / host goes through:
    plain; the receive buffer is a writable one that is used again for the next frame before the message is read;
    the message object was serialised once before its fields were given their final values"""
    des = M.deserialize_host_msg if m["t"] in HOST else M.deserialize_return_msg
    if mode == "modified-after-a-first-serialisation" and m["t"] in FIXED:
        first = _other(m)
        if m["t"] == "ReturnReg":
            first["value"] = m["value"]        # only the embedded register differs: it is changed through the nested structure
        obj = build(first)
        _ = (bytes(obj), len(obj) if hasattr(obj, "__len__") else 0)
        for f in FIXED[m["t"]]:
            if first[f] != m[f]:
                setattr(obj, f, u32(m[f]) if isinstance(m[f], list) else m[f])
        if m["t"] == "ReturnReg":
            want = isa.reg(m["register"]).cstruct
            obj.register.register_name = want.register_name
            obj.register.register_index = want.register_index
        return project(des(bytes(obj)))
    if mode == "numpy-integers" and m["t"] == "ReturnArray":
        # the values a simulator backend hands over: numpy integers of several widths instead of builtin ints
        import numpy as np
        kinds = (np.int64, np.int32, np.int16, np.int8)
        vals = [None if e[0] == 0 else (kinds[j % 4](e[1]) if -(2 ** (63, 31, 15, 7)[j % 4]) <= e[1] < 2 ** (63, 31, 15, 7)[j % 4] else np.int64(e[1]))
                for j, e in enumerate(m["values"])]
        obj = M.ReturnArrayMessage(address=m["address"], values=vals)
        return project(des(bytes(obj)))
    obj = build(m)
    raw = bytes(obj)
    if mode == "buffer-reused" and m["t"] != "Subroutine":      # (the subroutine message takes bytes only)
        buf = bytearray(raw)
        back = des(buf)
        nxt = bytes(build(_other(m))) if m["t"] in FIXED else bytes(len(raw))
        buf[:] = (nxt + bytes(len(raw)))[:len(raw)]       # the next frame arrives in the same buffer
        return project(back)
    return project(des(raw))


def diff_field(a, b):
    if a.get("t") != b.get("t"):
        return "type"
    for k in a:
        if a[k] != b.get(k):
            return k
    return "?"


def witness(m, got):
    f = diff_field(m, got)
    w = {"t": m["t"], "field": f}
    if m["t"] == "ReturnArray" and f == "values":
        # minimal: which KIND of entry is not preserved
        kinds = set()
        gv = got.get("values", [])
        if len(gv) != len(m["values"]):
            kinds.add("length")
        else:
            for a, b in zip(m["values"], gv):
                if a != b:
                    kinds.add("undefined-entry" if a[0] == 0 else "negative-entry" if a[1] < 0 else "entry")
        w["entry"] = sorted(kinds)
    return w


def run(prop: str, tier: str) -> int:
    V = C.Verdicts(prop, tier)
    tmp = C.tmpdir()
    try:
        out = f"{tmp}/msgs.ndjson"
        r = C.run_tlc("MsgMC", env={"VERIF_OUT": out, "VERIF_MODE": tier}, coverage=True, workers=1)
        if r.violated:
            raise C.MachineryError(f"channel invariants failed in the specification: {r.violated}")
        if min(r.coverage.get(a, 0) for a in ("SendN", "Del")) == 0:
            raise C.MachineryError(f"vacuous TLC run {r.coverage}")
        univ = C.read_ndjson(out)
        nontriv = set()
        for row in univ:
            m = row["m"]
            for mode in MODES:
                try:
                    got = roundtrip(m, mode)
                except Exception as ex:
                    V.add("raises", dict({"t": m["t"]}, **({"mode": mode} if mode != "plain" else {})), f"{type(ex).__name__}: {ex} on {m} ({mode})", m)
                    break
                nontriv.add(json.dumps(m, sort_keys=True))
                if got != m:
                    V.add("delivered-differs", dict(witness(m, got), **({"mode": mode} if mode != "plain" else {})), f"sent {m} got {got} ({mode})", m)
                    break
        # code -> spec: random messages
        rng = random.Random(C.seed() * 104729 + 5)
        n = 600 if tier == "quick" else 8000
        rows = []
        def i32():
            return rng.choice([rng.randrange(-2**31, 2**31), rng.randrange(-5, 6), 2**31 - 1, -2**31])
        def u32v():
            return limbs(rng.choice([rng.randrange(2**32), rng.randrange(70000), 2**32 - 1, 65536, 65535]))
        # systematic sweep: every small value in every integer field (a value that happens to look like a length,
        # a type tag or a header must still be delivered as the value it is)
        sweep = []
        rng_small = range(0, 41)
        for v in rng_small:
            for w in (0, 1, 2, 4, 8, 16, 255):
                sweep.append({"t": "InitNewApp", "app_id": limbs(v), "max_qubits": w})
            sweep.append({"t": "StopApp", "app_id": limbs(v)})
            sweep.append({"t": "Done", "msg_id": limbs(v)})
            sweep.append({"t": "ReturnReg", "register": v % 64, "value": v})
            for w in (0, 1, 7, 16):
                sweep.append({"t": "OpenEPRSocket", "app_id": limbs(v), "epr_socket_id": w, "remote_node_id": (v + w) % 5, "remote_epr_socket_id": w % 3, "min_fidelity": (3 * v) % 256})
                sweep.append({"t": "OpenEPRSocket", "app_id": limbs(w), "epr_socket_id": v, "remote_node_id": 1, "remote_epr_socket_id": v, "min_fidelity": 100})
            sweep.append({"t": "ReturnArray", "address": v, "values": []})
            sweep.append({"t": "ReturnArray", "address": v * 2**24, "values": [[1, v]] * (v % 4)})
            sweep.append({"t": "Subroutine", "payload": [v] * 11})
        for i in range(n + len(sweep)):
            if i >= n:
                t = "sweep"
                m = sweep[i - n]
            else:
                t = rng.choice(sorted(HOST | {"Done", "Error", "ReturnReg", "ReturnArray", "ReturnArray"}))
            if t == "sweep":
                pass
            elif t == "InitNewApp":
                m = {"t": t, "app_id": u32v(), "max_qubits": rng.randrange(256)}
            elif t == "OpenEPRSocket":
                m = {"t": t, "app_id": u32v(), "epr_socket_id": i32(), "remote_node_id": i32(),
                     "remote_epr_socket_id": i32(), "min_fidelity": rng.randrange(256)}
            elif t == "Subroutine":
                m = {"t": t, "payload": [rng.randrange(256) for _ in range(rng.choice([0, 4, 11, 18, 39]))]}
            elif t == "StopApp":
                m = {"t": t, "app_id": u32v()}
            elif t == "Signal":
                m = {"t": t, "signal": 0}
            elif t == "Done":
                m = {"t": t, "msg_id": u32v()}
            elif t == "Error":
                m = {"t": t, "err_code": rng.randrange(3)}
            elif t == "ReturnReg":
                m = {"t": t, "register": rng.randrange(64), "value": i32()}
            else:
                ln = rng.choice([0, 1, 2, 5, 10, 33, 64])
                m = {"t": t, "address": i32(),
                     "values": [[0, 0] if rng.random() < 0.3 else [1, i32()] for _ in range(ln)]}
            row = {"id": i + 1, "sent": m, "err": "", "mode": MODES[i % len(MODES)] if i < n else "plain"}
            try:
                row["got"] = roundtrip(m, row["mode"])
            except Exception as ex:
                row["got"] = {"t": "none"}
                row["err"] = f"{type(ex).__name__}: {ex}"[:200]
            rows.append(row)
            nontriv.add(json.dumps(m, sort_keys=True))
        tp = f"{tmp}/trace.ndjson"
        C.write_ndjson(tp, rows)
        r2 = C.run_tlc("MsgTrace", env={"VERIF_TRACES": tp}, workers=1, coverage=True)
        if r2.distinct < 3 * len(rows):
            raise C.MachineryError("MsgTrace did not consume every record")
        byid = {row["id"]: row for row in rows}
        for v in r2.verdicts:
            row = byid[v[2]]
            extra = {"mode": row["mode"]} if row.get("mode", "plain") != "plain" else {}
            if v[1] == "raised":
                V.add("raises", dict({"t": row["sent"]["t"]}, **extra), row["err"], row)
            else:
                V.add("delivered-differs", dict(witness(row["sent"], row["got"]), **extra), f"sent {row['sent']} got {row['got']} ({row.get('mode')})", row)
        # binding self-test: a corrupted record must be rejected
        bad = json.loads(json.dumps(next(x for x in rows if x["sent"]["t"] == "ReturnReg" and not x["err"])))
        bad["id"] = 1
        bad["got"]["value"] = bad["got"]["value"] ^ 1
        bp = f"{tmp}/bad.ndjson"
        C.write_ndjson(bp, [bad])
        r3 = C.run_tlc("MsgTrace", env={"VERIF_TRACES": bp}, workers=1)
        if not any(v[1] == "delivered-differs" for v in r3.verdicts):
            raise C.MachineryError("binding self-test: corrupted record accepted by MsgTrace")
        cov = {
            "states": r.distinct + r2.distinct, "transitions": r.generated + r2.generated,
            "traces_validated_against_impl": len(univ) + len(rows),
            "evaluations": len(univ) + len(rows), "distinct_nontrivial": len(nontriv),
            "rule": "message = type x field values; TLC universe is field-wise boundary values and all undefined-patterns of short arrays; random messages add wide values and arrays to length 64; every message is non-trivial (has a payload to lose), distinct by value",
            "samples": [univ[0], univ[len(univ) // 2], rows[0], rows[1]],
            "universe": len(univ), "random_messages": len(rows), "situations": list(MODES),
            "tlc_action_coverage": {**r.coverage, **{"Trace" + k: v for k, v in r2.coverage.items()}},
            "selftest": "corrupted ReturnReg value rejected by MsgTrace",
            "exhaustive": False, "checker_cmd": r.cmd,
        }
        return V.finish("model_checking", cov, ASSUME)
    finally:
        shutil.rmtree(tmp, ignore_errors=True)
