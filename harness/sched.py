"""Deterministic statement-level scheduler for REAL threads running the real
thread-socket code (C18).

Every worker thread installs a trace function; whenever it is about to execute a
source line of socket_hub.py that touches state shared between threads (the
hub's sets, dicts, message lists, the lock, a callback invocation) it parks and
waits for the scheduler.  One scheduler step = the parked line plus all
following thread-local lines up to the next shared access (or the end of the
thread's script).  The hub's lock is replaced by a cooperative lock that never
blocks: the scheduler simply does not pick a thread whose next line acquires a
lock that is held.  Sleeps are zeroed, no wall-clock time enters a schedule."""
from __future__ import annotations

import inspect
import os
import re
import tempfile
import sys
import threading
from typing import Any, Callable, Dict, List, Optional, Tuple

from netqasm.sdk.classical_communication.thread_socket import socket as ts_socket
from netqasm.sdk.classical_communication.thread_socket import socket_hub as ts_hub

HUB_FILE = ts_hub.__file__
PRODUCTION_HUB = ts_socket.ThreadSocket._SOCKET_HUB      # what the package's sockets are bound to when the package is imported
# any attribute of the hub except its logger and the class constants, locals that alias shared containers,
# callback invocations, and operations on event / condition objects
SHARED = re.compile(r"self\._(?!logger\b|RECV_SLEEP_TIME\b|CONNECT_SLEEP_TIME\b)[a-z]\w*|\bmessages\b|\bpending\b|\bmethod\(|\b\w*(event|cond)\w*\.(set|clear|wait|notify\w*)\(")
LOCK_LINE = re.compile(r"with\s+self\._lock\s*:")


def shared_lines() -> Dict[Tuple[str, int], str]:
    """(function name, line number) -> stripped source text, for every line of the
    hub class that touches shared state.  Derived from the working tree's source."""
    out = {}
    src, start = inspect.getsourcelines(ts_hub._SocketHub)
    func = None
    for off, line in enumerate(src):
        m = re.match(r"\s+def (\w+)\(", line)
        if m:
            func = m.group(1)
            continue
        text = line.strip()
        if func in (None, "__init__") or not text or text.startswith("#") or text.startswith('"""') or text.startswith("f\"") or text.startswith('f"'):
            continue
        if SHARED.search(text) and not text.startswith("self._logger"):
            out[(func, start + off)] = text
    return out


class CoopLock:
    def __init__(self, sched: "Sched"):
        self.sched = sched
        self.holder: Optional[int] = None

    def __enter__(self):
        me = self.sched.current
        if self.holder is not None:
            raise RuntimeError(f"scheduler error: thread {me} acquires a lock held by {self.holder}")
        self.holder = me
        return self

    def __exit__(self, *a):
        self.holder = None
        return False

    # Lock API used by code that does not use `with`
    def acquire(self, *a, **k):
        self.__enter__()
        return True

    def release(self):
        self.holder = None


class CoopEvent:
    """threading.Event for a hub that blocks on events instead of polling: a wait on an unset event parks the
    worker until the scheduler sees the event set (a timed wait may always time out at once)."""

    def __init__(self, sched: "Sched"):
        self.sched = sched
        self._flag = False

    def set(self):
        self._flag = True

    def clear(self):
        self._flag = False

    def is_set(self):
        return self._flag

    isSet = is_set

    def wait(self, timeout=None):
        w = threading.current_thread()
        while not self._flag:
            if timeout is not None or not isinstance(w, Worker):
                return False
            w.blocked = self
            try:
                w.park(("<event-wait>", 0))
            finally:
                w.blocked = None
        return True


class Worker(threading.Thread):
    def __init__(self, sched: "Sched", tid: int, body: Callable[["Worker"], None]):
        super().__init__(daemon=True)
        self.sched, self.tid, self.body = sched, tid, body
        self.at: Optional[Tuple[str, int]] = None      # parked before this line
        self.done = False
        self.error: Optional[str] = None
        self.go = threading.Event()
        self.parked = threading.Event()
        self.abort = False
        self.blocked: Optional[CoopEvent] = None       # parked inside CoopEvent.wait

    # -- tracing ----------------------------------------------------------
    def _global(self, frame, event, arg):
        if event == "call" and frame.f_code.co_filename == HUB_FILE:
            return self._local
        return None

    def _local(self, frame, event, arg):
        if event == "line":
            key = (frame.f_code.co_name, frame.f_lineno)
            if key in self.sched.lines:
                # which socket the hub call is about is part of where the thread is (a thread with several sockets)
                sock = frame.f_locals.get("socket")
                self.ctx = list(getattr(sock, "key", ())) if sock is not None else []
                self.park(key)
        return self._local

    def park(self, key):
        if self.abort:
            raise SystemExit
        self.at = key
        self.go.clear()
        self.parked.set()
        self.go.wait()
        if self.abort:
            raise SystemExit
        self.at = None

    def run(self):
        sys.settrace(self._global)
        try:
            # park once before the script starts so that thread start order is a scheduling decision
            self.park(("<start>", 0))
            self.body(self)
        except SystemExit:
            pass
        except BaseException as ex:  # noqa
            self.error = f"{type(ex).__name__}: {ex}"
        finally:
            sys.settrace(None)
            self.done = True
            self.at = None
            self.parked.set()


class Sched:
    """Owns a fresh hub and the workers of one run."""

    def __init__(self, use_global: bool = False):
        self.use_global = use_global
        if hasattr(ts_hub, "Event"):
            # a hub that waits on threading.Event objects: make them cooperative before the hub creates any
            ts_hub.Event = lambda: CoopEvent(self)  # type: ignore
        if use_global:
            # the hub the package's sockets use in production (a module-level object), after the package's own reset
            ts_socket.ThreadSocket._SOCKET_HUB = PRODUCTION_HUB       # (an earlier run of this process may have bound a private hub)
            ts_hub.reset_socket_hub()
            self.hub = ts_socket.ThreadSocket._SOCKET_HUB
        else:
            self.hub = ts_hub._SocketHub()
        self.hub.__class__._CONNECT_SLEEP_TIME = 0
        self.hub.__class__._RECV_SLEEP_TIME = 0
        self.lock = CoopLock(self)
        self.hub._lock = self.lock  # type: ignore
        # garbage collection of a socket calls disconnect at an uncontrolled moment: not part of a schedule
        ts_socket.ThreadSocket.__del__ = lambda self_: None  # type: ignore
        self.lines = shared_lines()
        self.workers: Dict[int, Worker] = {}
        self.current: Optional[int] = None
        self.history: List[Dict[str, Any]] = []        # API-level events in real-time (= schedule) order

    def add(self, tid: int, body: Callable[[Worker], None]):
        w = Worker(self, tid, body)
        self.workers[tid] = w
        w.start()
        w.parked.wait(5)

    def runnable(self) -> List[int]:
        out = []
        for tid, w in sorted(self.workers.items()):
            if w.done:
                continue
            text = self.lines.get(w.at, "") if w.at else ""
            if LOCK_LINE.search(text) and self.lock.holder is not None and self.lock.holder != tid:
                continue
            if w.blocked is not None and not w.blocked.is_set():
                continue
            out.append(tid)
        return out

    def step(self, tid: int) -> None:
        w = self.workers[tid]
        self.current = tid
        w.parked.clear()
        w.go.set()
        if not w.parked.wait(10):
            raise RuntimeError(f"scheduler: thread {tid} did not park within 10 s (at {w.at})")
        self.current = None

    def position(self, tid: int):
        w = self.workers[tid]
        if w.done:
            return ["done", 0, ""]
        return [w.at[0], w.at[1], self.lines.get(w.at, ""), getattr(w, "ctx", [])] if w.at else ["?", 0, ""]

    def shutdown(self):
        for w in self.workers.values():
            if not w.done:
                w.abort = True
                w.go.set()
        for w in self.workers.values():
            w.join(2)

    def log(self, **ev):
        self.history.append(ev)


# --------------------------------------------------------------------------
# endpoint scripts
# --------------------------------------------------------------------------

class CbSocket(ts_socket.ThreadSocket):
    """Callback-mode endpoint: records what its callbacks receive (they run in the SENDER's thread)."""
    sink: Any = None

    def recv_callback(self, msg):
        self.sink("cb", self.key, msg)

    def conn_lost_callback(self):
        self.sink("lost", self.key, None)


def make_body(sched: Sched, tid: int, ep: Dict[str, Any]):
    """ep = {name, remote, id, cb, script: [[op, arg]...]}"""

    def body(w: Worker):
        sock = None

        def sink(kind, key, msg):
            sched.log(t=sched.current if sched.current is not None else tid, ev=kind, key=list(key), msg=msg)

        api = ep.get("api", "plain")
        running: List[str] = []
        api0 = ep.get("api", "plain")
        for n, (op, arg) in enumerate(ep["script"]):
            # "send:structured" etc.: this one operation goes through another public entry point of the same socket
            op, _, over = op.partition(":")
            api = over or api0
            sched.log(t=tid, ev="call", op=op, arg=arg, n=n)
            res: Any = "ok"
            try:
                if op == "connect":
                    cls = CbSocket if ep["cb"] else ts_socket.ThreadSocket
                    if ep["cb"]:
                        CbSocket.sink = staticmethod(sink)
                    if ep["cb"] == "storage":
                        # the package's own storing callback socket
                        class StoreSocket(ts_socket.StorageThreadSocket):
                            def recv_callback(self_, msg):
                                sink("cb", self_.key, msg)
                                super().recv_callback(msg)

                            def conn_lost_callback(self_):
                                sink("lost", self_.key, None)
                        cls = StoreSocket
                    if ep["cb"] == "answer":
                        # the ping-pong pattern: the callback (running in the SENDER's thread) answers through its own socket;
                        # that nested send is logged as a call of pseudo-thread tid + 2, which owns the same endpoint key
                        class AnswerSocket(CbSocket):
                            def recv_callback(self_, msg):
                                sink("cb", self_.key, msg)
                                sched.log(t=tid + 2, ev="call", op="send", arg="re:" + msg, n=0)
                                r_ = "ok"
                                try:
                                    self_.send("re:" + msg)
                                except ConnectionError:
                                    r_ = "<connerr>"
                                sched.log(t=tid + 2, ev="ret", op="send", res=r_, n=0)
                        cls = AnswerSocket
                    if not sched.use_global:
                        ts_socket.ThreadSocket._SOCKET_HUB = sched.hub
                    kw_ = {}
                    if ep.get("comm_log"):
                        # the package's communication log switched on for this socket (documented to be a pure observer)
                        from netqasm.sdk.config import LogConfig
                        d_ = os.path.join(os.environ.get("VERIF_COMMLOG_DIR") or tempfile.gettempdir(), f"commlog_{os.getpid()}")
                        os.makedirs(d_, exist_ok=True)
                        kw_["log_config"] = LogConfig(comm_log_dir=d_)
                    if ep["cb"] == "storage":
                        sock = cls(ep["name"], ep["remote"], socket_id=ep["id"], **kw_)
                    else:
                        sock = cls(ep["name"], ep["remote"], socket_id=ep["id"], use_callbacks=bool(ep["cb"]), **kw_)
                    if not sched.use_global:
                        sock._SOCKET_HUB = sched.hub
                elif op == "connectp":
                    # the endpoint opens a NEW plain (polling) socket with the same key (after it closed its first one)
                    if not sched.use_global:
                        ts_socket.ThreadSocket._SOCKET_HUB = sched.hub
                    w.old_socks = getattr(w, "old_socks", []) + [sock]
                    sock = ts_socket.ThreadSocket(ep["name"], ep["remote"], socket_id=ep["id"], use_callbacks=False)
                    if not sched.use_global:
                        sock._SOCKET_HUB = sched.hub
                elif op == "cbflag":
                    sock.use_callbacks = (arg == "on")        # on a connected socket this is only a flag
                elif op == "bconnect":
                    # a broadcast channel: one socket per listed remote behind a single receive
                    from netqasm.sdk.classical_communication.thread_socket.broadcast_channel import ThreadBroadcastChannel
                    if not sched.use_global:
                        ts_socket.ThreadSocket._SOCKET_HUB = sched.hub
                    sock = ThreadBroadcastChannel(ep["name"], list(ep["remotes"]), socket_id=ep["id"])
                elif op == "brecv":
                    remote, msg = sock.recv(block=True)
                    res = f"{list(ep['remotes']).index(remote) + 1}:{msg}"
                elif op == "send":
                    # the three public entry points of a socket are the same channel operation
                    if api == "silent":
                        sock.send_silent(arg)
                    elif api == "structured":
                        from netqasm.sdk.classical_communication.message import StructuredMessage
                        sock.send_structured(StructuredMessage(header="h", payload=arg))
                    elif api == "structured-running-list":
                        # the payload is a list the sender keeps extending and sending again: what is received is the content
                        # at the time of each send (the logged message is that snapshot)
                        from netqasm.sdk.classical_communication.message import StructuredMessage
                        running.append(arg.split("+")[-1])
                        sock.send_structured(StructuredMessage(header="h", payload=running))
                    else:
                        sock.send(arg)
                elif op in ("recv", "recvnb"):
                    fn = {"silent": "recv_silent", "structured": "recv_structured", "structured-running-list": "recv_structured"}.get(api, "recv")
                    try:
                        res = getattr(sock, fn)(block=(op == "recv"))
                        res = getattr(res, "payload", res)
                        if isinstance(res, (list, tuple)):
                            res = "+".join(res)
                    except RuntimeError:
                        if op == "recv":
                            raise
                        res = "<empty>"
                elif op == "disconnect":
                    sched.hub.disconnect(sock)
                elif op == "stored":
                    # what a storing socket holds (its public accessor if it has one)
                    res = "".join(str(m_) + "|" for m_ in list(getattr(sock, "storage", None) or getattr(sock, "_storage")))
            except ConnectionError:
                res = "<connerr>"
            sched.log(t=tid, ev="ret", op=op, res=res, n=n)
        # keep the socket alive until the run is over (its __del__ disconnects)
        w.sock = sock

    return body


def snapshot(sched: Sched) -> Dict[str, Any]:
    h = sched.hub
    return {
        "open": sorted(map(list, h._open_sockets)), "remote": sorted(map(list, h._remote_sockets)),
        "msgs": sorted([list(k), list(v)] for k, v in h._messages.items() if v),
        "rcb": sorted(map(list, h._recv_callbacks)), "lcb": sorted(map(list, h._conn_lost_callbacks)),
        "lock": sched.lock.holder,
        "pos": [sched.position(t) for t in sorted(sched.workers)],
        "hist": len(sched.history),
    }


def run_schedule(scenario: List[Dict[str, Any]], schedule: List[int]):
    """Execute one schedule (list of thread ids) from scratch on fresh real threads.
    Returns (sched, snapshots after each step) - caller must call sched.shutdown()."""
    if isinstance(scenario, dict):
        # two phases on the package's own hub with its reset function in between: phase 1 runs to its end under a fixed
        # alternating schedule, then reset_socket_hub(), then the endpoints of phase 2 follow `schedule`
        s = Sched(use_global=True)
        ph1, ph2 = scenario["phases"]
        for tid, ep in enumerate(ph1, start=1):
            s.add(tid, make_body(s, tid, ep))
        n = 0
        while s.runnable() and n < 400:
            run = s.runnable()
            s.step(run[n % len(run)])
            n += 1
        s.log(t=0, ev="reset")
        ts_hub.reset_socket_hub()
        s.hub = ts_socket.ThreadSocket._SOCKET_HUB
        s.hub._lock = s.lock  # type: ignore
        for tid, ep in enumerate(ph2, start=len(ph1) + 1):
            s.add(tid, make_body(s, tid, ep))
    else:
        s = Sched()
        for tid, ep in enumerate(scenario, start=1):
            s.add(tid, make_body(s, tid, ep))
    snaps = []
    for tid in schedule:
        s.step(tid)
        snaps.append(snapshot(s))
    return s, snaps


def explore(scenario: List[Dict[str, Any]], max_depth: int = 80, max_nodes: int = 20000):
    """Stateless DFS over all schedules of the real threads, pruned by (shared
    state, thread positions, per-thread results).  Returns one path per distinct
    outcome (terminal / depth-bounded) plus, from the explored state graph, a
    path to a state from which NO schedule lets all threads finish."""
    import json as _j
    seen: Dict[str, List[int]] = {}
    succ: Dict[str, set] = {}
    final: Dict[str, str] = {}
    out = []
    stack: List[Tuple[List[int], Optional[str]]] = [([], None)]
    nodes = 0
    while stack and nodes < max_nodes:
        prefix, parent = stack.pop()
        s, snaps = run_schedule(scenario, prefix)
        nodes += 1
        try:
            snap = snapshot(s)
            per_thread = {}
            for e in s.history:
                per_thread.setdefault(e["t"], []).append([e.get("ev"), e.get("op"), e.get("res"), e.get("msg")])
            key = _j.dumps([{k: v for k, v in snap.items() if k != "hist"}, per_thread], sort_keys=True, default=str)
            if parent is not None:
                succ.setdefault(parent, set()).add(key)
            run = s.runnable()
            errs = [w.error for w in s.workers.values() if w.error]
            if errs:
                out.append({"schedule": prefix, "history": list(s.history), "final": snap, "end": "error:" + errs[0]})
                final[key] = "error"
                continue
            if key in seen:
                continue
            seen[key] = prefix
            if not run:
                alldone = all(w.done for w in s.workers.values())
                out.append({"schedule": prefix, "history": list(s.history), "final": snap, "end": "done" if alldone else "deadlock"})
                final[key] = "done" if alldone else "deadlock"
                continue
            if len(prefix) >= max_depth:
                out.append({"schedule": prefix, "history": list(s.history), "final": snap, "end": "depth"})
                final[key] = "depth"
                continue
            for t in reversed(run):
                stack.append((prefix + [t], key))
        finally:
            s.shutdown()
    truncated = bool(stack)
    # states from which some schedule finishes (or whose future was not fully explored)
    good = {k for k, v in final.items() if v in ("done", "depth", "error")}
    if truncated:
        good |= {p for _, p in stack if p}
    pred: Dict[str, set] = {}
    for a, bs in succ.items():
        for b in bs:
            pred.setdefault(b, set()).add(a)
    work = list(good)
    while work:
        x = work.pop()
        for p in pred.get(x, ()):
            if p not in good:
                good.add(p)
                work.append(p)
    doomed = [k for k in seen if k not in good and final.get(k) != "deadlock"]
    if doomed:
        k = min(doomed, key=lambda x: len(seen[x]))
        s, _ = run_schedule(scenario, seen[k])
        try:
            out.append({"schedule": seen[k], "history": list(s.history), "final": snapshot(s), "end": "doomed",
                        "positions": [s.position(t) for t in sorted(s.workers)]})
        finally:
            s.shutdown()
    return out, {"nodes": nodes, "states": len(seen), "truncated": truncated, "doomed_states": len(doomed)}
