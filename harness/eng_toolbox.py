"""C20: toolbox circuits implement their documented operators."""
from __future__ import annotations

import itertools
import json
import math
import random
import shutil
from typing import Any, Dict, List

import numpy as np

from . import common as C
from . import rig
from .eng_angle import case as angle_case
from .eng_nv import pauli_matrix, rot_matrix, same_up_to_phase

from netqasm.sdk.qubit import Qubit
from netqasm.sdk.toolbox.gates import t_inverse, toffoli_gate
from netqasm.sdk.toolbox.measurements import parity_meas
from netqasm.sdk.toolbox.state_prep import set_qubit_state

ASSUME = [
    "operator identities are decided exactly by the Pauli-rotation normal form (valid for every input state, which is stronger than sampling basis and random states)",
    "parity_meas: the measured observable is pulled back to the initial frame and must equal +P (ancilla in |0>); the post-measurement condition is stated on the Heisenberg images of the data generators",
    "the pipeline is SDK -> real message bytes -> real controller -> rig executor (gate log with scripted measurement outcomes) instead of a state-vector backend",
    "set_qubit_state: structure exactly (rot_y steps then rot_z steps on that qubit), angles by C19's fixed-point predicate with the builder's default tolerance 1e-4",
]

UNIT = 1 << 20


def zstring(nq, S):
    return {"x": [0] * nq, "z": [1 if k in S else 0 for k in range(1, nq + 1)], "ph": 0}


def prot(p, th):
    return {"mn": "pauli_rot", "qs": [], "imm": [], "p": p, "th": th}


def G(mn, *qs):
    return {"mn": mn, "qs": list(qs), "imm": [], "p": {"x": [], "z": [], "ph": 0}, "th": 0}


def toffoli_reference(c1, c2, t, nq=3):
    ref = [G("h", t)]
    for r in (1, 2, 3):
        for S in itertools.combinations((c1, c2, t), r):
            ref.append(prot(zstring(nq, set(S)), (UNIT // 4) if r % 2 == 1 else -(UNIT // 4)))
    ref.append(G("h", t))
    return ref


def gate_rows(log, phys_to_q) -> List[Dict[str, Any]]:
    out = []
    for mn, virt, imm, phys in log:
        if mn in ("init",):
            continue
        out.append({"mn": mn, "qs": [phys_to_q[p] for p in phys], "imm": list(imm) if mn != "meas" else [],
                    "p": {"x": [], "z": [], "ph": 0}, "th": 0})
    return out


def sanity_reference():
    """machinery check: the reference circuit really is the Toffoli matrix (numpy, up to phase)"""
    U = np.eye(8, dtype=complex)
    H = np.array([[1, 1], [1, -1]]) / math.sqrt(2)
    Ht = np.kron(np.eye(4), H)
    U = Ht @ U
    for r in (1, 2, 3):
        for S in itertools.combinations((1, 2, 3), r):
            z = zstring(3, set(S))
            U = rot_matrix(z["x"], z["z"], 0, (UNIT // 4) if r % 2 == 1 else -(UNIT // 4)) @ U
    U = Ht @ U
    T = np.eye(8, dtype=complex)
    T[6, 6] = T[7, 7] = 0
    T[6, 7] = T[7, 6] = 1
    if not same_up_to_phase(U, T):
        raise C.MachineryError("the Toffoli reference of the specification is not the Toffoli matrix")


def run(prop: str, tier: str) -> int:
    V = C.Verdicts(prop, tier)
    tmp = C.tmpdir()
    try:
        sanity_reference()
        rng = random.Random(C.seed() * 53 + 9)
        eq_rows: List[Dict[str, Any]] = []
        # ---- Toffoli, every assignment of roles to three qubits, with bystander gates before/after
        for perm in itertools.permutations((0, 1, 2)):
            conn = rig.VConnection("alice")
            qs = [Qubit(conn) for _ in range(3)]
            toffoli_gate(qs[perm[0]], qs[perm[1]], qs[perm[2]])
            conn.flush()
            phys = {q.qubit_id: None for q in qs}
            log = conn.ex.gate_log
            p2q = {p: p + 1 for p in range(3)}
            eq_rows.append({"id": len(eq_rows) + 1, "prop": "C20", "kind": "unitary", "mov": [1, 1], "what": "toffoli", "roles": list(perm),
                            "src": toffoli_reference(perm[0] + 1, perm[1] + 1, perm[2] + 1), "tgt": gate_rows(log, p2q)})
        # ---- T inverse
        for k in (0, 1):
            conn = rig.VConnection("alice")
            qs = [Qubit(conn) for _ in range(2)]
            t_inverse(qs[k])
            conn.flush()
            eq_rows.append({"id": len(eq_rows) + 1, "prop": "C20", "kind": "unitary", "mov": [1, 1], "what": "t_inverse", "roles": [k],
                            "src": [prot({"x": [0, 0, 0], "z": [1 if j == k else 0 for j in range(3)], "ph": 0}, -(UNIT // 4))],
                            "tgt": gate_rows(conn.ex.gate_log, {p: p + 1 for p in range(3)})})
        # ---- the same circuits directly after an SDK conditional whose body ends in a gate on the circuit's first qubit,
        #      in the same subroutine, with the branch taken and not taken (another qubit was measured in place just before)
        for perm in itertools.permutations((0, 1, 2)):
            for outcome in (0, 1):
                conn = rig.VConnection("alice")
                conn.ex.meas_script = [outcome]
                qs = [Qubit(conn) for _ in range(3)]
                conn.flush()
                mark = len(conn.ex.gate_log)
                tq = qs[perm[2]]                                   # toffoli_gate starts with H on the target
                m = qs[perm[0]].measure(inplace=True)
                with m.if_eq(1):
                    tq.X()
                toffoli_gate(qs[perm[0]], qs[perm[1]], qs[perm[2]])
                conn.flush()
                log = conn.ex.gate_log[mark:]
                k = next(i for i, g in enumerate(log) if g[0] == "meas")
                src = ([G("x", perm[2] + 1)] if outcome else []) + toffoli_reference(perm[0] + 1, perm[1] + 1, perm[2] + 1)
                eq_rows.append({"id": len(eq_rows) + 1, "prop": "C20", "kind": "unitary", "mov": [1, 1], "what": "toffoli-after-conditional", "roles": list(perm) + [outcome],
                                "src": src, "tgt": gate_rows(log[k + 1:], {p: p + 1 for p in range(3)})})
        for k_ in (0, 1):
            for outcome in (0, 1):
                conn = rig.VConnection("alice")
                conn.ex.meas_script = [outcome]
                qs = [Qubit(conn) for _ in range(2)]
                conn.flush()
                mark = len(conn.ex.gate_log)
                m = qs[1 - k_].measure(inplace=True)
                with m.if_eq(1):
                    qs[k_].X()
                t_inverse(qs[k_])
                conn.flush()
                log = conn.ex.gate_log[mark:]
                k = next(i for i, g in enumerate(log) if g[0] == "meas")
                eq_rows.append({"id": len(eq_rows) + 1, "prop": "C20", "kind": "unitary", "mov": [1, 1], "what": "t_inverse-after-conditional", "roles": [k_, outcome],
                                "src": ([G("x", k_ + 1)] if outcome else []) + [prot({"x": [0, 0, 0], "z": [1 if j == k_ else 0 for j in range(3)], "ph": 0}, -(UNIT // 4))],
                                "tgt": gate_rows(log[k + 1:], {p: p + 1 for p in range(3)})})
        res = C.run_tlc_sharded("NvEquiv", eq_rows, tmp, shards=4)
        bad = {}
        for v in res.verdicts:
            bad.setdefault(v[2], v)
        for i, v in sorted(bad.items()):
            r = eq_rows[i - 1]
            if v[1] == "INCONCLUSIVE":
                raise C.MachineryError(f"normal form inconclusive for {r['what']} {r['roles']}")
            V.add("circuit-differs-from-documented-operator", {"what": r["what"], "how": v[1]},
                  f"{r['what']} with roles {r['roles']}: executed {[g['mn'] + str(g['qs']) for g in r['tgt']]}", r)
        if len(res.ok_ids) != len(eq_rows):
            raise C.MachineryError("NvEquiv gave no result for some toolbox circuits")
        states, trans = res.distinct, res.generated

        # ---- parity_meas: all signed Pauli strings over I X Y Z of length 1..3
        prow = []
        for n in (1, 2, 3):
            for letters in itertools.product("IXYZ", repeat=n):
                for neg in (False, True):
                    for outcome in ((0, 1) if tier == "thorough" or n < 3 else (rng.randrange(2),)):
                        conn = rig.VConnection("alice")
                        conn.ex.meas_script = [outcome]
                        conn.ex.log_clear = True
                        # virtual ids in allocation order, or (second outcome / every other string) ids 1..n so that the
                        # ancilla gets virtual id 0 on the LAST physical qubit: virtual and physical numbering differ
                        sparse = outcome == 1 or (len(prow) % 2 == 1)
                        qs = [Qubit(conn, virtual_address=k + 1) for k in range(n)] if sparse else [Qubit(conn) for _ in range(n)]
                        conn.flush()
                        mark = len(conn.ex.gate_log)
                        bases = ("-" if neg else "") + "".join(letters)
                        try:
                            m = parity_meas(qs, bases)
                            conn.flush()
                        except Exception as ex:
                            V.add("parity-meas-raises", {"bases": bases}, f"{type(ex).__name__}: {ex}")
                            continue
                        full = conn.ex.gate_log[mark:]
                        log = [g for g in full if g[0] != "clear"]
                        nonid = [c for c in letters if c != "I"]
                        got = int(m) if not isinstance(m, int) else m
                        want = (outcome if nonid else 0) ^ (1 if neg else 0)
                        if got != want:
                            V.add("parity-outcome-wrong", {"bases_shape": f"{'-' if neg else '+'}{len(nonid)}-of-{n}"},
                                  f"parity_meas({bases}) returned {got}, measured bit {outcome}, expected {want}")
                        if not nonid:
                            if any(g[0] != "init" for g in log):
                                V.add("identity-string-touches-qubits", {"bases": bases}, f"gates {log}")
                            continue
                        meas = [k for k, g in enumerate(log) if g[0] == "meas"]
                        if len(meas) != 1:
                            V.add("parity-meas-measurement-count", {"bases": bases}, f"{len(meas)} measurements in {log}")
                            continue
                        p2q = {p: p + 1 for p in range(n)}
                        p2q[n] = 4                                  # the ancilla, if any, is the next physical qubit
                        for p in range(n + 1, 6):
                            p2q[p] = 4
                        k = meas[0]
                        prow.append({"id": len(prow) + 1, "letters": list(letters), "neg": neg, "bases": bases, "sparse_ids": sparse,
                                     "cleared": [p2q[g[3][0]] for g in full if g[0] == "clear"],
                                     "meas_qubit": p2q[log[k][3][0]], "pre": gate_rows(log[:k], p2q), "post": gate_rows(log[k + 1:], p2q)})
        # several parity measurements one after the other (same and different qubits, one subroutine or separate flushes): every
        # returned handle keeps reporting the parity of ITS measurement
        nseq = 0
        for s1, s2 in (("ZI", "-XI"), ("-ZI", "XI"), ("IZ", "-IZ"), ("ZI", "IX"), ("-X", "Z"), ("Y", "-Y")):
            for o1, o2 in ((0, 1), (1, 0), (1, 1)):
                for split in (False, True):
                    conn = rig.VConnection("alice")
                    conn.ex.meas_script = [o1, o2]
                    qs = [Qubit(conn) for _ in range(len(s1.lstrip("-")))]
                    try:
                        m1 = parity_meas(qs, s1)
                        if split:
                            conn.flush()
                        m2 = parity_meas(qs, s2)
                        conn.flush()
                        got = (int(m1), int(m2))
                    except Exception as ex:
                        V.add("parity-meas-raises", {"bases": f"{s1} then {s2}"}, f"{type(ex).__name__}: {ex}")
                        continue
                    nseq += 1
                    want = (o1 ^ int(s1.startswith("-")), o2 ^ int(s2.startswith("-")))
                    if got != want:
                        V.add("parity-outcome-wrong", {"bases_shape": "two single-letter measurements in a row", "same_qubit": s1.lstrip("-").index(next(c_ for c_ in s1.lstrip("-") if c_ != "I")) == s2.lstrip("-").index(next(c_ for c_ in s2.lstrip("-") if c_ != "I"))},
                              f"parity_meas({s1}) then parity_meas({s2}){' (separate flushes)' if split else ''}: measured bits {(o1, o2)}, handles read {got}, expected {want}")
        resp = C.run_tlc_sharded("ParityCheck", prow, tmp, shards=C.ncpu())
        badp = {}
        for v in resp.verdicts:
            badp.setdefault(v[2], v)
        for i, v in sorted(badp.items()):
            r = prow[i - 1]
            nonid = [c for c in r["letters"] if c != "I"]
            lead_i = r["letters"][0] == "I"
            V.add("parity-meas-" + v[1], {"weight": len(nonid), "length": len(r["letters"]), "identity_before_letter": lead_i or ("I" in r["letters"][:-1] and r["letters"][-1] != "I")},
                  f"parity_meas({r['bases']}): pre {[g['mn'] + str(g['qs']) for g in r['pre']]} measure qubit {r['meas_qubit']} post {[g['mn'] + str(g['qs']) for g in r['post']]}", r)
        if len(resp.ok_ids) + len(badp) != len(prow):
            raise C.MachineryError("ParityCheck gave no verdict for some strings")
        states += resp.distinct
        trans += resp.generated

        # ---- set_qubit_state on a (theta, phi) grid + random, incl. negative angles
        arow = []
        grid = [(t, p) for t in (0.0, math.pi / 2, math.pi, 1.0, 2.5) for p in (0.0, math.pi / 2, -math.pi / 2, 3 * math.pi / 2, math.pi, 0.7)]
        grid += [(rng.uniform(0, math.pi), rng.uniform(-2 * math.pi, 2 * math.pi)) for _ in range(20 if tier == "quick" else 2000)]
        # polar angles outside the textbook range [0, pi]: the documented state cos(theta/2)|0> + e^{i phi} sin(theta/2)|1> is defined for them too
        grid += [(t, p) for t in (4.0, 3 * math.pi / 2, -0.5, 7.0, 2 * math.pi - 0.3, -math.pi / 2, 2 * math.pi + 1.0) for p in (0.0, 0.7, -math.pi / 2)]
        grid += [(rng.uniform(-2 * math.pi, 4 * math.pi), rng.uniform(-2 * math.pi, 2 * math.pi)) for _ in range(20 if tier == "quick" else 300)]
        for theta, phi in grid:
            conn = rig.VConnection("alice")
            conn.ex.meas_script = [0]
            q0 = Qubit(conn)
            q = Qubit(conn)
            conn.flush()
            mark = len(conn.ex.gate_log)
            after_if = len(arow) % 3 == 2
            if after_if:
                # directly after a conditional (not taken) whose body ends in a gate on the same qubit
                m = q0.measure(inplace=True)
                with m.if_eq(1):
                    q.X()
            set_qubit_state(q, phi=phi, theta=theta)
            conn.flush()
            log = [g for g in conn.ex.gate_log[mark:] if g[0] != "meas"]
            names = [g[0] for g in log]
            ok_struct = all(g[3] == (1,) for g in log) and set(names) <= {"rot_y", "rot_z"} and names == sorted(names)
            if not ok_struct:
                V.add("set-qubit-state-structure", {"gates": sorted(set(names))}, f"theta={theta} phi={phi}: {log}")
                continue
            ys = [g[2] for g in log if g[0] == "rot_y"]
            zs = [g[2] for g in log if g[0] == "rot_z"]
            arow.append(dict(angle_case(len(arow) + 1, "C20", theta, 1e-4, ys), which="theta", theta=theta, phi=phi))
            arow.append(dict(angle_case(len(arow) + 1, "C20", phi, 1e-4, zs), which="phi", theta=theta, phi=phi))
        resa = C.run_tlc_sharded("AngleTrace", arow, tmp, shards=4)
        for v in resa.verdicts:
            r = arow[v[2] - 1]
            V.add("set-qubit-state-angle", {"which": r["which"], "sign": "negative" if float(r["angle"]) < 0 else "non-negative", "how": v[1]},
                  f"set_qubit_state(theta={r['theta']}, phi={r['phi']}): {r['which']} realised by steps {r['steps']}", r)
        states += resa.distinct
        trans += resa.generated
        # binding self-test: a Toffoli with one T dropped must be rejected
        probe = json.loads(json.dumps(eq_rows[0])); probe["id"] = 1
        k = next(i for i, g in enumerate(probe["tgt"]) if g["mn"] == "t")
        del probe["tgt"][k]
        r3 = C.run_tlc_sharded("NvEquiv", [probe], tmp, shards=1, tag="self")
        if not r3.verdicts:
            raise C.MachineryError("binding self-test: Toffoli log with one T gate removed was accepted")
        n = len(eq_rows) + len(prow) + len(arow)
        cov = {
            "programs": n, "disagreements_checked": len(bad) + len(badp) + len(resa.verdicts),
            "states": states, "transitions": trans, "evaluations": n, "distinct_nontrivial": len(eq_rows) + len({r["bases"] for r in prow}) + len(arow),
            "rule": "artefact = executed gate/measure log of one toolbox call made through the real SDK -> controller pipeline: Toffoli for all 6 role assignments, t_inverse, parity_meas for every signed Pauli string of length 1..3 (both outcomes), set_qubit_state on a (theta, phi) grid + random incl. negative angles",
            "samples": [{"what": "toffoli", "roles": eq_rows[0]["roles"], "executed": [g["mn"] + str(g["qs"]) for g in eq_rows[0]["tgt"]]},
                        {"bases": prow[len(prow) // 2]["bases"], "pre": [g["mn"] + str(g["qs"]) for g in prow[len(prow) // 2]["pre"]]}],
            "parity_strings": len({r["bases"] for r in prow}), "selftest": "Toffoli log with one T removed rejected",
            "exhaustive": False, "checker_cmd": res.cmd,
        }
        return V.finish("translation_validation", cov, ASSUME)
    finally:
        shutil.rmtree(tmp, ignore_errors=True)
