---------------------------- MODULE MC_QubitPool ----------------------------
(* Apalache wrapper: 3 applications, unit modules of up to 4 qubits, 14 physical qubits. *)
(*   apalache-mc check --init=Init    --inv=IndInv --length=0 MC_QubitPool.tla           *)
(*   apalache-mc check --init=IndInit --inv=IndInv --length=1 MC_QubitPool.tla           *)
(*   apalache-mc check --init=IndInit --inv=UsedIsMapped --length=0 MC_QubitPool.tla     *)
EXTENDS Integers, FiniteSets
\* @type: Set(Int);
Apps == {0, 1, 2}
\* @type: Set(Int);
VIds == {0, 1, 2, 3}
\* @type: Set(Int);
Phys == 0..13
VARIABLES
  \* @type: Set(Int);
  apps,
  \* @type: Int -> Int;
  size,
  \* @type: Int -> (Int -> Int);
  um,
  \* @type: Set(Int);
  used,
  \* @type: Set(Int);
  resv
INSTANCE QubitPool
(* any state that satisfies the invariant: the typing conjunct comes first so that Apalache can enumerate it *)
IndInit ==
  /\ apps \in SUBSET Apps /\ used \in SUBSET Phys /\ resv \in SUBSET Phys
  /\ size \in [Apps -> 0..4]
  /\ um \in [Apps -> [VIds -> Phys \cup {-1}]]
  /\ IndInv
=============================================================================
