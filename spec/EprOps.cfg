SPECIFICATION Spec
INVARIANT Report
INVARIANT Done
CHECK_DEADLOCK FALSE
