----------------------------- MODULE MachineMC -----------------------------
(***************************************************************************)
(* spec -> code for C04.  TLC builds every program of up to N instructions *)
(* over an instruction alphabet (arbitrary, unstructured jump targets),    *)
(* runs it on Machine with a step bound and checks the machine's own       *)
(* invariants in every state.  Each finished run (done / fault / wait /    *)
(* step bound) is printed as one JSON line: the program, the sequence of   *)
(* program-counter values and the final state, for replay on the real      *)
(* executor.  Runs that reach an unspecified situation are not exported.   *)
(***************************************************************************)
EXTENDS Machine, TLC, Json, IOUtils

N == IF IOEnv.VERIF_MODE = "thorough" THEN 4 ELSE 3
MaxSteps == 14
I(mn, ops) == [mn |-> mn, ops |-> ops]
R0 == 0  R1 == 1  R2 == 2  Q0 == 32  M0 == 48
Targets == 0..N
Small ==
  { I("set", <<R0, 0>>), I("set", <<R0, 2>>), I("set", <<R1, 1>>), I("set", <<R1, -1>>), I("set", <<Q0, 0>>),
    I("add", <<R0, R0, R1>>), I("sub", <<R1, R0, R1>>), I("addm", <<R0, R0, R1, R0>>), I("subm", <<R1, R1, R0, R0>>),
    I("array", <<R0, 0>>), I("store", <<R1, 0, R0>>), I("store", <<R1, 0, R1>>), I("load", <<R2, 0, R1>>),
    I("undef", <<0, R1>>), I("lea", <<R2, 0>>), I("ret_reg", <<R1>>), I("ret_reg", <<R2>>), I("ret_arr", <<0>>),
    I("qalloc", <<Q0>>), I("qfree", <<Q0>>), I("h", <<Q0>>), I("meas", <<Q0, M0>>), I("ret_reg", <<M0>>),
    I("wait_all", <<0, R1, R0>>), I("wait_single", <<0, R1>>) }
Branches ==
  { I("jmp", <<t>>) : t \in Targets } \cup
  { I(mn, <<R1, t>>) : mn \in {"bez", "bnz"}, t \in Targets } \cup
  { I(mn, <<R0, R1, t>>) : mn \in {"beq", "blt", "bge", "bne"}, t \in Targets }
Alphabet == IF IOEnv.VERIF_MODE = "thorough" THEN Small \cup { b \in Branches : b.mn \in {"jmp", "bnz", "blt"} }
            ELSE Small \cup { b \in Branches : b.mn \in {"jmp", "bnz", "blt"} /\ b.ops[Len(b.ops)] \in {0, N} }

VARIABLES prog, phase, m, pcs
vars == <<prog, phase, m, pcs>>
Init == prog = << >> /\ phase = "emit" /\ pcs = << >> /\ m = NewMachine({0}, 1, <<1, 0>>)
Emit(i) == phase = "emit" /\ Len(prog) < N /\ prog' = Append(prog, i) /\ UNCHANGED <<phase, m, pcs>>
Start == phase = "emit" /\ Len(prog) >= 1 /\ phase' = "run" /\ UNCHANGED <<prog, m, pcs>>
Step == /\ phase = "run" /\ m.status = "run" /\ Len(pcs) < MaxSteps
        /\ m' = StepSub(m, prog) /\ pcs' = Append(pcs, m.pc) /\ UNCHANGED <<prog, phase>>
Next == (\E i \in Alphabet : Emit(i)) \/ Start \/ Step
Spec == Init /\ [][Next]_vars

Finished == phase = "run" /\ (m.status \in {"done", "fault", "wait"} \/ (m.status = "run" /\ Len(pcs) = MaxSteps))
(* ---- invariants of the machine itself, over every program ---- *)
QubitInv == Injective(m) /\ UsedIsMapped(m)
PcInv == m.pc >= 0
FaultFreezes == m.status = "fault" => m.fline = m.pc
(* a faulting step changes nothing but the status *)
FaultAtomic == [][ (m'.status = "fault" /\ m.status = "run") =>
                    [m' EXCEPT !.status = "run", !.fline = -1, !.fkind = ""] = m ]_vars
SharedOnlyByRet == [][ (phase = "run" /\ m'.shregs # m.shregs) => prog[m.pc + 1].mn = "ret_reg" ]_vars
Export == ~Finished \/
  PrintT(ToJson([prog |-> prog, pcs |-> pcs, status |-> m.status, fline |-> m.fline, pc |-> m.pc,
                 regs |-> [r \in {R0, R1, R2, Q0, M0} |-> m.regs[r]], shregs |-> [r \in {R0, R1, R2, Q0, M0} |-> m.shregs[r]],
                 arr |-> m.arrs[0], sharr |-> [ex |-> m.sharrs[0].ex, v |-> m.sharrs[0].v],
                 um |-> m.um, used |-> m.used, fkind |-> m.fkind]))
=============================================================================
