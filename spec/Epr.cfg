SPECIFICATION Spec
VIEW view
INVARIANT NoHandlerError
INVARIANT ConsumedOnce
INVARIANT ConsumedByOwner
INVARIANT QueuesSane
INVARIANT Retired
INVARIANT Accounting
PROPERTY NoOverwrite
PROPERTY WaitSound
PROPERTY Terminates
PROPERTY Drained
CHECK_DEADLOCK FALSE
