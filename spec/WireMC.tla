------------------------------ MODULE WireMC ------------------------------
(***************************************************************************)
(* Model-checking wrapper for C01 / C02 (and the vector source for C16 and *)
(* C17).  TLC                                                              *)
(*  1. compares the instruction table EXTRACTED from the working tree      *)
(*     (IOEnv.VERIF_TABLE, written by the rig through reflection) with the *)
(*     pinned table and checks opcode / mnemonic injectivity per flavour;  *)
(*  2. enumerates the field-wise operand vectors of every class of every   *)
(*     flavour and runs each through the three-step machine                *)
(*        ir --Encode--> wire --Decode--> back                             *)
(*     under the spec's own encoder/decoder;                               *)
(*  3. writes every vector with the bytes the specification demands to     *)
(*     IOEnv.VERIF_OUT so that the rig can replay them on the real encoder *)
(*     and decoder.                                                        *)
(* Verdicts are total: a failing vector prints one VERDICT line and TLC    *)
(* carries on; the invariants proper are the ones that hold of the format  *)
(* itself.                                                                 *)
(***************************************************************************)
EXTENDS Wire, TLC, Json, IOUtils, SequencesExt

Extracted == JsonDeserialize(IOEnv.VERIF_TABLE)
Mode == IOEnv.VERIF_MODE            \* "quick" | "thorough"

FlavourSeq == <<"vanilla", "nv", "reids">>

(* ---- table-level obligations ------------------------------------------ *)
(* C02: every published entry is present, with its opcode and shape.       *)
TableDiffs(f) ==
  { <<"C02", "table", f, e.mn, e.op, e.shape>> :
      e \in { x \in RangeOf(Pinned[f]) : ~ \E y \in RangeOf(Extracted[f]) : y = x } }
(* C01: per flavour no two instructions share an opcode or a mnemonic.     *)
TableClashes(f) ==
  { <<"C01", "opcode-clash", f, c[1], c[2], c[3]>> : c \in Clashes(Extracted[f]) } \cup
  { <<"C01", "mnemonic-clash", f, c[1], c[2], c[3]>> : c \in NameClashes(Extracted[f]) }
TableVerdicts == UNION { TableDiffs(f) \cup TableClashes(f) : f \in Flavours }

(* ---- vectors ---------------------------------------------------------- *)
Pow2(k) == 2 ^ k
IntDom == {0, 1, -1, MaxInt, MinInt, 16909060, 2130706433, -16909060, 255, 256, 65535, 65536}
          \cup { Pow2(k) : k \in 1..30 } \cup { 0 - Pow2(k) : k \in 1..30 }
          \cup { Pow2(k) - 1 : k \in 2..30 }
Dom(k) == CASE k = "reg" -> 0..63
            [] k = "imm" -> 0..255
            [] k = "int" -> IntDom
Base(k, p) == CASE k = "reg" -> (7 + 11 * p) % 64
                [] k = "imm" -> 3 + 17 * p
                [] k = "int" -> 16909060 + 16843009 * p

(* The table used for enumeration is the extracted one (so a class added   *)
(* in the working tree is exercised too).  n indexes the table.            *)
VecsOf(f) ==
  LET T == Extracted[f] IN
  UNION { LET ks == Shapes[T[n].shape] IN
          IF ks = << >> THEN { [fl |-> f, n |-> n, mn |-> T[n].mn, ops |-> << >>] }
          ELSE UNION { { [fl |-> f, n |-> n, mn |-> T[n].mn,
                          ops |-> [p \in DOMAIN ks |-> IF p = j THEN x ELSE Base(ks[p], p)]] :
                         x \in Dom(ks[j]) } : j \in DOMAIN ks }
        : n \in DOMAIN T }
Vecs == SetToSeq(UNION { VecsOf(f) : f \in Flavours })

EncEntry(e, ops) == Pad(<<e.op>> \o EncOps(Shapes[e.shape], ops))
(* The bytes the published format demands for vector v: opcode and shape   *)
(* from the pinned table when the mnemonic is published.                   *)
Entry(v) == LET x == Extracted[v.fl][v.n] IN
            IF HasName(Pinned[v.fl], v.mn) /\ ByName(Pinned[v.fl], v.mn).shape = x.shape
            THEN ByName(Pinned[v.fl], v.mn) ELSE x
SpecBytes(v) == EncEntry(Entry(v), v.ops)
(* What a decoder for this flavour makes of those bytes: it dispatches     *)
(* through the id map of the pinned table (later entries override).        *)
SpecBack(v) == Dec(Pinned[v.fl], SpecBytes(v))

(* ---- streams ---------------------------------------------------------- *)
Alphabet == << [mn |-> "qalloc",     ops |-> <<37>>],
               [mn |-> "meas",       ops |-> <<33, 50>>],
               [mn |-> "rot_x",      ops |-> <<34, 3, 200>>],
               [mn |-> "crot_x",     ops |-> <<32, 35, 255, 1>>],
               [mn |-> "meas_basis", ops |-> <<36, 51, 1, 2, 4, 8>>],
               [mn |-> "add",        ops |-> <<1, 2, 3>>],
               [mn |-> "addm",       ops |-> <<4, 5, 6, 15>>],
               [mn |-> "jmp",        ops |-> <<65536>>],
               [mn |-> "breakpoint", ops |-> <<1, 0>>],
               [mn |-> "beq",        ops |-> <<0, 17, 7>>],
               [mn |-> "set",        ops |-> <<16, -2>>],
               [mn |-> "store",      ops |-> <<9, 2, 10>>],
               [mn |-> "array",      ops |-> <<11, 300>>],
               [mn |-> "undef",      ops |-> <<MaxInt, 12>>],
               [mn |-> "wait_all",   ops |-> <<5, 13, 14>>],
               [mn |-> "ret_arr",    ops |-> <<MinInt>>],
               [mn |-> "create_epr", ops |-> <<1, 2, 3, 4, 63>>] >>
AppIds == {0, 1, 255, 256, 65535}
Vers == {<<0,0>>, <<0,1>>, <<10,255>>, <<255,3>>}
A == 1..Len(Alphabet)
Short == { << >> } \cup { <<a>> : a \in A } \cup { <<a, b>> : a, b \in A }
Long == { <<a, b, c>> : a, b, c \in A }
Streams == SetToSeq(
  { [ver |-> v, app |-> ap, instrs |-> [k \in DOMAIN s |-> Alphabet[s[k]]]] :
       v \in Vers, ap \in AppIds, s \in Short } \cup
  { [ver |-> <<0, 1>>, app |-> 513, instrs |-> [k \in DOMAIN s |-> Alphabet[s[k]]]] :
       s \in IF Mode = "thorough" THEN Long ELSE { l \in Long : l[1] = l[3] } })

(* ---- export ----------------------------------------------------------- *)
ASSUME PrintT(<<"EXPORT", "vectors", Len(Vecs), "streams", Len(Streams)>>)
ASSUME ndJsonSerialize(IOEnv.VERIF_OUT,
         [n \in DOMAIN Vecs |-> [id |-> n, fl |-> Vecs[n].fl, n |-> Vecs[n].n, mn |-> Vecs[n].mn,
                                 ops |-> Vecs[n].ops, bytes |-> SpecBytes(Vecs[n])]])
ASSUME ndJsonSerialize(IOEnv.VERIF_OUT2,
         [n \in DOMAIN Streams |-> [id |-> n, sub |-> Streams[n], bytes |-> EncSub(Pinned["nv"], Streams[n])]])
ASSUME \A t \in TableVerdicts : PrintT(<<"VERDICT">> \o t)

(* ---- the machine ------------------------------------------------------ *)
VARIABLES kind,    \* "vec" | "stream"
          id,      \* index into Vecs / Streams
          stage,   \* "ir" | "wire" | "back"
          wire,    \* bytes
          back     \* decoded value
vars == <<kind, id, stage, wire, back>>

Init == /\ stage = "ir" /\ wire = << >> /\ back = << >>
        /\ \/ kind = "vec" /\ id \in DOMAIN Vecs
           \/ kind = "stream" /\ id \in DOMAIN Streams

Encode == /\ stage = "ir" /\ stage' = "wire"
          /\ wire' = IF kind = "vec" THEN SpecBytes(Vecs[id]) ELSE EncSub(Pinned["nv"], Streams[id])
          /\ UNCHANGED <<kind, id, back>>
Decode == /\ stage = "wire" /\ stage' = "back"
          /\ back' = IF kind = "vec" THEN Dec(Pinned[Vecs[id].fl], wire)
                     ELSE DecSub(Pinned["nv"], wire)
          /\ UNCHANGED <<kind, id, wire>>
(* An instruction object that was already encoded may be modified in place *)
(* (the transpiler and the label pass do) and encoded again: the second    *)
(* encoding is that of the new value.                                      *)
Mutate == /\ stage = "back" /\ kind = "vec" /\ id + 1 \in DOMAIN Vecs
          /\ Vecs[id + 1].fl = Vecs[id].fl /\ Vecs[id + 1].n = Vecs[id].n
          /\ id' = id + 1 /\ stage' = "ir" /\ wire' = << >> /\ back' = << >>
          /\ UNCHANGED kind
Next == Encode \/ Decode \/ Mutate
Spec == Init /\ [][Next]_vars

(* Invariants of the format itself. *)
LengthInv == stage # "ir" =>
               IF kind = "vec" THEN Len(wire) = CommandBytes
               ELSE Len(wire) = MetaBytes + CommandBytes * Len(Streams[id].instrs)
BytesInv == \A n \in DOMAIN wire : wire[n] \in 0..255
StreamInv == (stage = "back" /\ kind = "stream") => back = Streams[id]
FramingInv == (stage = "wire" /\ kind = "stream") => DecSubOK(Pinned["nv"], wire)
CodecInv == /\ \A r \in 0..63 : ByteReg(RegByte(r)) = r
            /\ \A x \in IntDom : BytesInt(IntBytes(x)) = x
(* C01 at the level of the published table: total verdict, one line per    *)
(* failing vector.                                                         *)
RoundTripVerdict ==
  (stage = "back" /\ kind = "vec") =>
     \/ back = [mn |-> Vecs[id].mn, ops |-> Vecs[id].ops]
     \/ PrintT(<<"VERDICT", "C01", "spec-roundtrip", Vecs[id].fl, Vecs[id].mn, id, back.mn>>)
=============================================================================
