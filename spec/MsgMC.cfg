SPECIFICATION Spec
INVARIANT IntactInv
INVARIANT FifoInv
CHECK_DEADLOCK FALSE
