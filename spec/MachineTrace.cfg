SPECIFICATION Spec
INVARIANT QubitInv
INVARIANT Report
INVARIANT Done
CHECK_DEADLOCK FALSE
