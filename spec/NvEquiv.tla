------------------------------ MODULE NvEquiv ------------------------------
(***************************************************************************)
(* Artefact validation for C07 (and the operator identities of C20): each  *)
(* record of IOEnv.VERIF_TRACES holds two gate sequences over qubits       *)
(* 1..NQ: `src` (a vanilla gate, or a reference circuit) and `tgt` (what   *)
(* the real transpiler / toolbox emitted, as executed).  TLC computes the  *)
(* normal form of both and compares: equal normal forms <=> equal unitary  *)
(* up to global phase (borrowed qubits included: they must end with the    *)
(* identity frame).  kind = "mov": the state-transfer condition instead.   *)
(***************************************************************************)
EXTENDS Gates, TLC, Json, IOUtils

Cases == ndJsonDeserialize(IOEnv.VERIF_TRACES)
VARIABLES id, stage, nfs, nft
vars == <<id, stage, nfs, nft>>
Case == Cases[id]
Init == id \in DOMAIN Cases /\ stage = "start" /\ nfs = NF0 /\ nft = NF0
EvalSrc == stage = "start" /\ stage' = "src" /\ nfs' = NormalForm(Case.src) /\ UNCHANGED <<id, nft>>
EvalTgt == stage = "src" /\ stage' = "both" /\ nft' = NormalForm(Case.tgt) /\ UNCHANGED <<id, nfs>>
Next == EvalSrc \/ EvalTgt
Spec == Init /\ [][Next]_vars

(* tiny-denominator rotations (d > 20) cannot be expanded: they must pass through literally *)
Tiny(i) == i.imm # << >> /\ i.imm[2] > A
RECURSIVE Halve(_, _)
Halve(n, d) == IF n = 0 THEN <<0, 0>> ELSE IF n % 2 = 0 /\ d > 0 THEN Halve(n \div 2, d - 1) ELSE <<n, d>>
TinyOK == LET s == Case.src  t == Case.tgt IN
          Len(s) = 1 /\ Len(t) = 1 /\ s[1].mn = t[1].mn /\ s[1].qs = t[1].qs /\ Halve(s[1].imm[1], s[1].imm[2]) = Halve(t[1].imm[1], t[1].imm[2])

(* MOV src -> dst onto a target stabilised by +Z: with C the emitted circuit,          *)
(*   C Z_t C^dagger  must act trivially on the transferred state: the frame images of *)
(*   X_s, Z_s (pulled back) must be X_t, Z_t up to Paulis supported on the old        *)
(*   location, which is left in a Z-stabilised state.                                  *)
(* D holds C^dagger Q C; transfer s -> t means  C^dagger X_t C = X_s * (Z_t or I),     *)
(*   C^dagger Z_t C = Z_s * (Z_t or I)   with sign +, and no residual rotations.       *)
MovOK ==
  LET s == Case.mov[1]  t == Case.mov[2]  D == nft.D
      OnlyZt(p, base) == \E e \in {0, 1} : p = Mul(base, IF e = 1 THEN PZ(t) ELSE Id)
  IN /\ nft.L = << >>
     /\ OnlyZt(D[t], PX(s)) /\ OnlyZt(D[NQ + t], PZ(s))

Verdict ==
  stage # "both" \/
  IF \E i \in DOMAIN Case.src : Tiny(Case.src[i])
  THEN TinyOK \/ PrintT(<<"VERDICT", Case.prop, "tiny-angle-not-passed-through", id>>)
  ELSE IF Case.kind = "mov"
  THEN MovOK \/ PrintT(<<"VERDICT", Case.prop, "mov-does-not-transfer-the-state", id>>)
  ELSE \/ nfs = nft
       \/ ~(Conclusive(nfs) /\ Conclusive(nft)) /\ PrintT(<<"VERDICT", Case.prop, "INCONCLUSIVE", id>>)
       \/ (Conclusive(nfs) /\ Conclusive(nft)) /\
            PrintT(<<"VERDICT", Case.prop,
                     IF nfs.D # nft.D /\ nfs.L = nft.L THEN "clifford-part-differs"
                     ELSE IF nfs.D = nft.D THEN "rotation-angle-or-axis-differs" ELSE "different-unitary", id>>)
Done == stage # "both" \/ PrintT(<<"OK", id>>)
=============================================================================
