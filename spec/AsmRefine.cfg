SPECIFICATION Spec
INVARIANT Report
INVARIANT Done
INVARIANT Static
CHECK_DEADLOCK FALSE
