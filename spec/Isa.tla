------------------------------- MODULE Isa -------------------------------
(***************************************************************************)
(* The NetQASM instruction-set table, PINNED at the base commit: this is   *)
(* "the published instruction table" of property C02.  Every deployed      *)
(* controller reads these opcodes; the working tree's table is extracted   *)
(* by reflection at check time and compared with this one (C02) and        *)
(* checked for injectivity per flavour (C01).                              *)
(*                                                                         *)
(* An instruction is [mn |-> mnemonic, ops |-> <<int, ...>>].              *)
(* Operand values are abstract integers whose kind comes from the shape:   *)
(*   "reg" : 0..63, register number = bank*16 + index (bank R0 C1 Q2 M3)   *)
(*   "imm" : 0..255 (8-bit immediate)                                      *)
(*   "int" : -2^31 .. 2^31-1 (32-bit integer, array address)               *)
(* An array entry @a[r] is the two operands <<a, r>>; a slice @a[r:s] the  *)
(* three operands <<a, r, s>> (kinds int, reg, reg).                       *)
(***************************************************************************)
EXTENDS Naturals, Integers, Sequences, FiniteSets

Shapes ==
  [ NoOp        |-> << >>,
    Reg         |-> <<"reg">>,
    RegReg      |-> <<"reg","reg">>,
    RegImmImm   |-> <<"reg","imm","imm">>,
    RegRegImmImm|-> <<"reg","reg","imm","imm">>,
    RegRegImm4  |-> <<"reg","reg","imm","imm","imm","imm">>,
    RegRegReg   |-> <<"reg","reg","reg">>,
    RegRegRegReg|-> <<"reg","reg","reg","reg">>,
    Imm         |-> <<"int">>,
    ImmImm      |-> <<"imm","imm">>,
    RegRegImm   |-> <<"reg","reg","int">>,
    RegImm      |-> <<"reg","int">>,
    RegEntry    |-> <<"reg","int","reg">>,
    RegAddr     |-> <<"reg","int">>,
    ArrayEntry  |-> <<"int","reg">>,
    ArraySlice  |-> <<"int","reg","reg">>,
    Addr        |-> <<"int">>,
    Reg5        |-> <<"reg","reg","reg","reg","reg">> ]

ShapeNames == DOMAIN Shapes

(* The same shapes as the assembly text groups them: an array entry is one *)
(* textual operand @a[r] (two abstract operands), a slice @a[r:s] three.   *)
Groups ==
  [ NoOp        |-> << >>,
    Reg         |-> <<"reg">>,
    RegReg      |-> <<"reg","reg">>,
    RegImmImm   |-> <<"reg","num","num">>,
    RegRegImmImm|-> <<"reg","reg","num","num">>,
    RegRegImm4  |-> <<"reg","reg","num","num","num","num">>,
    RegRegReg   |-> <<"reg","reg","reg">>,
    RegRegRegReg|-> <<"reg","reg","reg","reg">>,
    Imm         |-> <<"num">>,
    ImmImm      |-> <<"num","num">>,
    RegRegImm   |-> <<"reg","reg","num">>,
    RegImm      |-> <<"reg","num">>,
    RegEntry    |-> <<"reg","entry">>,
    RegAddr     |-> <<"reg","addr">>,
    ArrayEntry  |-> <<"entry">>,
    ArraySlice  |-> <<"slice">>,
    Addr        |-> <<"addr">>,
    Reg5        |-> <<"reg","reg","reg","reg","reg">> ]
GroupWidth(g) == CASE g = "entry" -> 2 [] g = "slice" -> 3 [] OTHER -> 1

E(mn, op, sh) == [mn |-> mn, op |-> op, shape |-> sh]

(* Core instructions, in the order of CORE_INSTRUCTIONS. *)
CoreTable == <<
  E("qalloc", 1, "Reg"),        E("init", 2, "Reg"),
  E("array", 3, "RegAddr"),     E("set", 4, "RegImm"),
  E("store", 5, "RegEntry"),    E("load", 6, "RegEntry"),
  E("undef", 7, "ArrayEntry"),  E("lea", 8, "RegAddr"),
  E("jmp", 9, "Imm"),           E("bez", 10, "RegImm"),
  E("bnz", 11, "RegImm"),       E("beq", 12, "RegRegImm"),
  E("bne", 13, "RegRegImm"),    E("blt", 14, "RegRegImm"),
  E("bge", 15, "RegRegImm"),    E("add", 16, "RegRegReg"),
  E("sub", 17, "RegRegReg"),    E("addm", 18, "RegRegRegReg"),
  E("subm", 19, "RegRegRegReg"),E("meas", 32, "RegReg"),
  E("meas_basis", 41, "RegRegImm4"),
  E("create_epr", 33, "Reg5"),  E("recv_epr", 34, "RegRegRegReg"),
  E("wait_all", 35, "ArraySlice"), E("wait_any", 36, "ArraySlice"),
  E("wait_single", 37, "ArrayEntry"), E("qfree", 38, "Reg"),
  E("ret_reg", 39, "Reg"),      E("ret_arr", 40, "Addr"),
  E("breakpoint", 100, "ImmImm") >>

VanillaTable == <<
  E("x", 20, "Reg"), E("y", 21, "Reg"), E("z", 22, "Reg"), E("h", 23, "Reg"),
  E("s", 24, "Reg"), E("k", 25, "Reg"), E("t", 26, "Reg"),
  E("rot_x", 27, "RegImmImm"), E("rot_y", 28, "RegImmImm"), E("rot_z", 29, "RegImmImm"),
  E("cnot", 30, "RegReg"), E("cphase", 31, "RegReg"), E("mov", 41, "RegReg") >>

NVTable == <<
  E("rot_x", 27, "RegImmImm"), E("rot_y", 28, "RegImmImm"), E("rot_z", 29, "RegImmImm"),
  E("crot_x", 30, "RegRegImmImm"), E("crot_y", 31, "RegRegImmImm") >>

ReidsTable == << >>

Flavours == {"vanilla", "nv", "reids"}

Pinned == [ vanilla |-> CoreTable \o VanillaTable,
            nv      |-> CoreTable \o NVTable,
            reids   |-> CoreTable \o ReidsTable ]

(***************************************************************************)
(* Generic operations over a table T (a sequence of entries), so that the  *)
(* same definitions apply to the pinned table and to the table extracted   *)
(* from the working tree.                                                  *)
(***************************************************************************)
RangeOf(s) == {s[i] : i \in DOMAIN s}

(* The decoder's map opcode -> entry is built the way the implementation   *)
(* builds it: later entries override earlier ones.                         *)
LastSuch(T, P(_)) == LET I == {i \in DOMAIN T : P(T[i])} IN
                 T[CHOOSE i \in I : \A j \in I : j <= i]
ById(T, op)   == LastSuch(T, LAMBDA e : e.op = op)
ByName(T, mn) == LastSuch(T, LAMBDA e : e.mn = mn)
HasOp(T, op)  == \E i \in DOMAIN T : T[i].op = op
HasName(T, mn)== \E i \in DOMAIN T : T[i].mn = mn

OpcodeInjective(T)   == \A i, j \in DOMAIN T : i # j => T[i].op # T[j].op
MnemonicInjective(T) == \A i, j \in DOMAIN T : i # j => T[i].mn # T[j].mn
(* pairs that clash, for reporting *)
Clashes(T) == { <<T[p[1]].op, T[p[1]].mn, T[p[2]].mn>> :
                  p \in { q \in (DOMAIN T) \X (DOMAIN T) : q[1] < q[2] /\ T[q[1]].op = T[q[2]].op } }
NameClashes(T) == { <<T[p[1]].mn, T[p[1]].op, T[p[2]].op>> :
                  p \in { q \in (DOMAIN T) \X (DOMAIN T) : q[1] < q[2] /\ T[q[1]].mn = T[q[2]].mn } }

Kinds(T, mn) == Shapes[ByName(T, mn).shape]

(* operand ranges *)
MinInt == -2147483647 - 1
MaxInt == 2147483647
KindOK(k, v) == CASE k = "reg" -> v \in 0..63
                  [] k = "imm" -> v \in 0..255
                  [] k = "int" -> v >= MinInt /\ v <= MaxInt
WellFormed(T, i) == /\ HasName(T, i.mn)
                    /\ Len(i.ops) = Len(Kinds(T, i.mn))
                    /\ \A j \in DOMAIN i.ops : KindOK(Kinds(T, i.mn)[j], i.ops[j])
=============================================================================
