SPECIFICATION Spec
INVARIANT NeverSilentlyAltered
CHECK_DEADLOCK FALSE
