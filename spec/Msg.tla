-------------------------------- MODULE Msg --------------------------------
(***************************************************************************)
(* Host <-> controller messages (property C15).  A message is a record     *)
(* with a type tag t and the fields of that type in their declared widths: *)
(*   u8  : 0..255          u32 : <<hi16, lo16>> limbs (TLC ints are 32-bit)*)
(*   i32 : -2^31..2^31-1   reg : 0..63 (as in Isa)                         *)
(*   optional int (array entry): <<0, 0>> = undefined, <<1, v>> = v        *)
(* The byte layout of messages is NOT part of the property; the channel    *)
(* only promises that what is delivered is what was sent.                  *)
(***************************************************************************)
EXTENDS Naturals, Integers, Sequences, FiniteSets

MinI == -2147483647 - 1
MaxI == 2147483647

U8 == 0..255
U16 == 0..65535
IsU32(x) == x[1] \in U16 /\ x[2] \in U16
IsI32(x) == x >= MinI /\ x <= MaxI
Undef == <<0, 0>>
Def(v) == <<1, v>>
IsOpt(e) == e = Undef \/ (e[1] = 1 /\ IsI32(e[2]))

HostTypes == {"InitNewApp", "OpenEPRSocket", "Subroutine", "StopApp", "Signal"}
ReturnTypes == {"Done", "Error", "ReturnReg", "ReturnArray"}

WellFormed(m) ==
  CASE m.t = "InitNewApp"    -> IsU32(m.app_id) /\ m.max_qubits \in U8
    [] m.t = "OpenEPRSocket" -> /\ IsU32(m.app_id) /\ IsI32(m.epr_socket_id) /\ IsI32(m.remote_node_id)
                                /\ IsI32(m.remote_epr_socket_id) /\ m.min_fidelity \in U8
    [] m.t = "Subroutine"    -> \A i \in DOMAIN m.payload : m.payload[i] \in U8
    [] m.t = "StopApp"       -> IsU32(m.app_id)
    [] m.t = "Signal"        -> m.signal \in U8
    [] m.t = "Done"          -> IsU32(m.msg_id)
    [] m.t = "Error"         -> m.err_code \in U8
    [] m.t = "ReturnReg"     -> m.register \in 0..63 /\ IsI32(m.value)
    [] m.t = "ReturnArray"   -> IsI32(m.address) /\ \A i \in DOMAIN m.values : IsOpt(m.values[i])

(* The channel: a FIFO of messages in flight per direction. *)
VARIABLES sent, inflight, received
cvars == <<sent, inflight, received>>
ChanInit == sent = << >> /\ inflight = << >> /\ received = << >>
Send(m) == /\ WellFormed(m)
           /\ sent' = Append(sent, m) /\ inflight' = Append(inflight, m) /\ UNCHANGED received
Deliver == /\ inflight # << >>
           /\ received' = Append(received, Head(inflight)) /\ inflight' = Tail(inflight)
           /\ UNCHANGED sent
(* C15 *)
Intact == /\ Len(received) <= Len(sent)
          /\ \A i \in DOMAIN received : received[i] = sent[i]
=============================================================================
