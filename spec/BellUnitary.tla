----------------------------- MODULE BellUnitary -----------------------------
(***************************************************************************)
(* Property C10 when the subroutine is compiled for NV hardware by the NV  *)
(* transpiler: the executed operations are native NV gates (a move is a    *)
(* sequence of controlled rotations), so corrections cannot be recognised  *)
(* gate by gate.  The statement is made on unitaries instead.              *)
(*                                                                         *)
(* Two runs of the same request on the same script, except for the Bell    *)
(* states: REF with every pair in Phi+, ACT with the Bell states of the    *)
(* case.  A pair delivered in Bell state b is (P_b (x) I) Phi+, so ACT     *)
(* started from Phi+ pairs is ACT's operations with the Pauli P_b inserted *)
(* where pair i is delivered.  "Each kept qubit ends up in Phi+ with its   *)
(* partner, the correction goes to pair i's qubit and to no other, and it  *)
(* is in place when the application first operates on the qubit" is then:  *)
(*   - REF and ACT have the same non-unitary events (init, measurement     *)
(*     with outcome, qfree) in the same order, and                         *)
(*   - between two events the operations of REF and of ACT-with-insertions *)
(*     are the same unitary up to a global phase on ALL physical qubits    *)
(*     (Pauli-rotation normal form of module Pauli).                       *)
(* REF itself must do nothing that depends on the expectation: with every  *)
(* pair in Phi+ the run that expects Phi+ and the run that does not        *)
(* execute the same operations.  Without the expectation (or for a         *)
(* creator) ACT must execute exactly REF's operations.                     *)
(***************************************************************************)
EXTENDS Gates, TLC, Json, IOUtils
Cases == ndJsonDeserialize(IOEnv.VERIF_TRACES)

PHI_PLUS == 0   PSI_PLUS == 1   PSI_MINUS == 2   PHI_MINUS == 3
BX(b) == b \in {PSI_PLUS, PSI_MINUS}
BZ(b) == b \in {PHI_MINUS, PSI_MINUS}

G(mn, qs) == [mn |-> mn, qs |-> qs, imm |-> << >>]
(* one logged operation -> gate records; a delivery becomes the Pauli of its Bell state (ACT) or nothing (REF);   *)
(* a vanilla mov (generic hardware) is the exchange of the two qubits                                            *)
Expand(g, withBell) ==
  CASE g.mn = "deliver" -> IF withBell THEN (IF BX(g.imm[1]) THEN <<G("x", g.qs)>> ELSE << >>) \o (IF BZ(g.imm[1]) THEN <<G("z", g.qs)>> ELSE << >>)
                           ELSE << >>
    [] g.mn = "mov" -> <<G("cnot", g.qs), G("cnot", <<g.qs[2], g.qs[1]>>), G("cnot", g.qs)>>
    [] OTHER -> <<g>>
RECURSIVE ExpandAll(_, _)
ExpandAll(s, wb) == IF s = << >> THEN << >> ELSE Expand(Head(s), wb) \o ExpandAll(Tail(s), wb)

IsEvent(g) == g.mn \in {"init", "meas", "qfree"}
RECURSIVE Events(_)
Events(s) == IF s = << >> THEN << >> ELSE (IF IsEvent(Head(s)) THEN <<Head(s)>> ELSE << >>) \o Events(Tail(s))
RECURSIVE Segments(_)
Segments(s) ==
  IF s = << >> THEN << << >> >>
  ELSE LET rest == Segments(Tail(s)) IN
       IF IsEvent(Head(s)) THEN << << >> >> \o rest ELSE <<(<<Head(s)>> \o rest[1])>> \o Tail(rest)
Plain(s) == SelectSeq(s, LAMBDA g : g.mn # "deliver")

Verdict(c) ==
  IF c.err # "" THEN "not-judged"
  ELSE IF c.fault THEN (IF c.faultcorr THEN "correction-on-no-qubit" ELSE "not-judged")
  ELSE IF Plain(c.refon) # Plain(c.refoff) THEN "reference-run-depends-on-the-expectation"
  ELSE IF ~(c.expect /\ c.role = "recv") THEN
       (IF Plain(c.act) # Plain(c.refoff) THEN "corrected-although-not-expected" ELSE "ok")
  ELSE LET r == ExpandAll(c.refon, FALSE)  a == ExpandAll(c.act, TRUE)
           rs == Segments(r)  as == Segments(a) IN
       IF Events(r) # Events(a) \/ Len(rs) # Len(as) THEN "quantum-events-differ"
       ELSE IF \E j \in DOMAIN rs : NormalForm(rs[j]) # NormalForm(as[j]) THEN "pair-not-in-phi-plus"
       ELSE "ok"

VARIABLES id, k, verdict
vars == <<id, k, verdict>>
Init == id \in DOMAIN Cases /\ k = 0 /\ verdict = "running"
Next == verdict = "running" /\ k = 0 /\ k' = 1 /\ verdict' = Verdict(Cases[id]) /\ UNCHANGED id
Spec == Init /\ [][Next]_vars
Report == verdict \in {"running", "ok"} \/ PrintT(<<"VERDICT", "C10", verdict, id, k, "">>)
Done == verdict # "ok" \/ PrintT(<<"OK", id>>)
=============================================================================
