---------------------------- MODULE GatesExport ----------------------------
(* Exports the symbolic denotation (Gates!Denote) of sample instructions so  *)
(* that the rig can compare it NUMERICALLY with the matrices the repository *)
(* publishes for its instruction classes (the one numeric clause of C07).   *)
EXTENDS Gates, TLC, Json, IOUtils
Samples == ndJsonDeserialize(IOEnv.VERIF_TRACES)
ASSUME ndJsonSerialize(IOEnv.VERIF_OUT,
   [n \in DOMAIN Samples |-> [id |-> Samples[n].id, rots |-> [j \in DOMAIN Denote(Samples[n].g) |->
        [x |-> Denote(Samples[n].g)[j].p.x, z |-> Denote(Samples[n].g)[j].p.z, ph |-> Denote(Samples[n].g)[j].p.ph,
         th |-> Denote(Samples[n].g)[j].th]]]])
VARIABLE v
Init == v = 0
Next == UNCHANGED v
=============================================================================
