----------------------------- MODULE AngleTrace -----------------------------
(* Artefact validation for C19 (and the angle clause of C20): each record    *)
(* holds x = angle/pi mod 2 and tol/pi as limbs and the steps the REAL       *)
(* function returned; TLC evaluates Angle!Accept.                            *)
EXTENDS Angle, TLC, Json, IOUtils
Cases == ndJsonDeserialize(IOEnv.VERIF_TRACES)
VARIABLES id, stage
vars == <<id, stage>>
Init == id \in DOMAIN Cases /\ stage = "in"
Check == stage = "in" /\ stage' = "out" /\ UNCHANGED id
Spec == Init /\ [][Check]_vars
C == Cases[id]
Verdict == stage # "out" \/
  IF ~Encodable(C.steps) THEN PrintT(<<"VERDICT", C.prop, "step-not-encodable", id>>)
  ELSE IF ~Within(C.x, C.tol, C.steps) THEN PrintT(<<"VERDICT", C.prop, "outside-tolerance", id>>)
  ELSE PrintT(<<"OK", id>>)
(* sanity of the fixed-point arithmetic itself *)
ArithOK == /\ Term(1, 0) = <<1, 0, 0, 0>> /\ Term(3, 1) = <<1, 16384, 0, 0>> /\ Term(255, 8) = <<0, 32640, 0, 0>>
           /\ Add(Term(1, 1), Term(1, 1)) = <<1, 0, 0, 0>> /\ Add(Term(1, 0), Term(1, 0)) = ZeroL
           /\ Dist(Term(1, 45), ZeroL) = <<0, 0, 0, 1>> /\ Dist(ZeroL, Term(1, 45)) = <<0, 0, 0, 1>>
           /\ Dist(<<1, 32767, 32767, 32767>>, ZeroL) = <<0, 0, 0, 1>>
           /\ Term(1, 30) = <<0, 0, 1, 0>> /\ Term(1, 15) = <<0, 1, 0, 0>> /\ Term(2, 46) = ZeroL
ASSUME ArithOK
=============================================================================
