SPECIFICATION Spec
CONSTANT NQ = 6
INVARIANT Report
INVARIANT Done
CHECK_DEADLOCK FALSE
