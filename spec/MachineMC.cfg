SPECIFICATION Spec
INVARIANT QubitInv
INVARIANT PcInv
INVARIANT FaultFreezes
INVARIANT Export
PROPERTY FaultAtomic
PROPERTY SharedOnlyByRet
CHECK_DEADLOCK FALSE
