SPECIFICATION Spec
CONSTANTS
  AppIds = {0, 1}
  UMSizes = {1, 2}
  MaxDepth = 14
CONSTRAINT Bound
INVARIANT Inj
INVARIANT Acc
INVARIANT AccQuiet
INVARIANT NoAppClean
INVARIANT ReRegister
PROPERTY Isolation
PROPERTY StopReleases
CHECK_DEADLOCK FALSE
