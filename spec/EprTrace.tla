------------------------------ MODULE EprTrace ------------------------------
(***************************************************************************)
(* code -> spec for C12.  A trace is one SCHEDULE that was forced on the   *)
(* real executor for scenario IOEnv.VERIF_SCN: a sequence of               *)
(*    step | poll | deliver(s) | retry | finish | recover | end            *)
(* with the projected real state logged after each action.  Every event    *)
(* must be the corresponding Epr action AND lead to the logged state; the  *)
(* Epr invariants are evaluated in every state of every trace.             *)
(***************************************************************************)
EXTENDS Epr

Traces == ndJsonDeserialize(IOEnv.VERIF_TRACES)
VARIABLES id, k, verdict
tvars == <<vars, id, k, verdict>>
Tr == Traces[id].events

QProj(q) == [i \in DOMAIN q |-> [key |-> q[i].key, qarr |-> q[i].qarr, res |-> q[i].res, tot |-> q[i].tot, left |-> q[i].left]]
(* the real executor keeps one list per key; compare per key, keys in the order logged *)
ByKeys(q, keys) == [i \in DOMAIN keys |-> QProj(ForKey(q, keys[i]))]
Proj(ev) ==
  [ regs |-> [i \in DOMAIN Scn.regs |-> m.regs[Scn.regs[i].r]],
    arrs |-> [i \in DOMAIN Scn.arrs |-> m.arrs[Scn.arrs[i].a].v],
    um |-> m.um, used |-> m.used, pc |-> m.pc,
    status |-> IF m.status = "wait" THEN "run" ELSE m.status,
    createQ |-> ByKeys(createQ, ev.post.ckeys), recvQ |-> ByKeys(recvQ, ev.post.rkeys),
    pending |-> [i \in DOMAIN pending |-> pending[i].seq], herr |-> herr ]
Logged(ev) ==
  [ regs |-> ev.post.regs, arrs |-> ev.post.arrs, um |-> ev.post.um,
    used |-> { ev.post.used[i] : i \in DOMAIN ev.post.used }, pc |-> ev.post.pc, status |-> ev.post.status,
    createQ |-> ev.post.createQ, recvQ |-> ev.post.recvQ, pending |-> ev.post.pending, herr |-> ev.post.herr,
    opaque |-> ev.post.opaque ]      \* the rig could not see the private request queues: they are not compared
Diff(a, b) ==
  IF a.herr # b.herr THEN "handler-error"
  ELSE IF a.pending # b.pending THEN "pending-responses"
  ELSE IF ~b.opaque /\ a.createQ # b.createQ THEN "create-queue"
  ELSE IF ~b.opaque /\ a.recvQ # b.recvQ THEN "recv-queue"
  ELSE IF a.arrs # b.arrs THEN "arrays"
  ELSE IF a.um # b.um THEN "unit-module"
  ELSE IF a.used # b.used THEN "used-physical-qubits"
  ELSE IF a.regs # b.regs THEN "registers"
  ELSE IF a.pc # b.pc THEN "pc"
  ELSE IF a.status # b.status THEN "status"
  ELSE ""

TInit == Init /\ id \in DOMAIN Traces /\ k = 0 /\ verdict = "running"
Act(ev) == CASE ev.a = "step"    -> Step
             [] ev.a = "poll"    -> Poll
             [] ev.a = "end"     -> (m.status \in {"done", "fault", "unspec"} \/ herr) /\ UNCHANGED vars   \* nothing more can happen
             [] ev.a = "finish"  -> Finish
             [] ev.a = "recover" -> Recover
             [] ev.a = "retry"   -> RunHandler(pending) /\ UNCHANGED <<net, nreq, seqc, sub>>
             [] ev.a = "deliver" -> Deliver(ev.s)
TNext == /\ verdict = "running" /\ k < Len(Tr)
         /\ k' = k + 1 /\ UNCHANGED id
         /\ \/ /\ ENABLED Act(Tr[k + 1]) /\ Act(Tr[k + 1])
               /\ verdict' = "check"
            \/ /\ ~ENABLED Act(Tr[k + 1]) /\ UNCHANGED vars
               /\ verdict' = "not-enabled:" \o Tr[k + 1].a
(* the comparison happens in the state after the action *)
TCheck == /\ verdict = "check" /\ UNCHANGED <<vars, id, k>>
          /\ verdict' = LET d == Diff(Proj(Tr[k]), Logged(Tr[k])) IN
                        IF d # "" THEN d ELSE IF k = Len(Tr) THEN "ok" ELSE "running"
TSpec == TInit /\ [][TNext \/ TCheck]_tvars

Report == verdict \in {"running", "check", "ok"} \/ PrintT(<<"VERDICT", "C12", verdict, id, k, "">>)
Done == verdict # "ok" \/ PrintT(<<"OK", id>>)
(* property-level invariants, evaluated along every real schedule *)
InvReport(name, ok) == ok \/ PrintT(<<"VERDICT", "C12", name, id, k, "invariant">>)
PropInv == /\ InvReport("handler-raised", NoHandlerError)
           /\ InvReport("consumed-twice", ConsumedOnce)
           /\ InvReport("consumed-by-wrong-request", ConsumedByOwner)
           /\ InvReport("request-retired-at-wrong-time", Retired /\ QueuesSane)
           /\ InvReport("qubit-accounting", Accounting)
=============================================================================
