------------------------------ MODULE Machine ------------------------------
(***************************************************************************)
(* The NetQASM machine as the base executor is meant to implement it       *)
(* (property C04): registers, arrays, host-visible shared memory, the      *)
(* qubit unit module and the set of physical qubits in use, one program    *)
(* counter per subroutine, precise faults.                                 *)
(*                                                                         *)
(* A machine state is ONE record m so that the semantics is a function     *)
(* Exec(m, instr) that other modules (Controller, Epr, AsmRefine,          *)
(* NvRefine) reuse for several applications / several machines at once.    *)
(*                                                                         *)
(* Values are optional integers: Undef = <<0,0>>, Def(v) = <<1,v>>.        *)
(* Instructions are [mn |-> mnemonic, ops |-> <<...>>] as in Isa; a        *)
(* register operand is its number 0..63 (bank*16+index).                   *)
(***************************************************************************)
EXTENDS Naturals, Integers, Sequences, FiniteSets

Undef == <<0, 0>>
Def(v) == <<1, v>>
IsDef(x) == x[1] = 1
Val(x) == x[2]
None == -1                       \* unit-module slot not mapped

NoArray == [ex |-> FALSE, v |-> << >>]
NoShared == [ex |-> FALSE, alias |-> FALSE, v |-> << >>]

RegDom == 0..69    \* 0..63 architectural; 64..69 ghost registers of source-level semantics (Asm)
(* m.regs   : [RegDom -> Opt]           m.arrs  : [Addrs -> [ex, v : Seq(Opt)]]      *)
(* m.shregs : [0..63 -> Opt]           m.sharrs: [Addrs -> [ex, alias, v]]          *)
(* m.um     : Seq(None or phys)        m.used  : SUBSET Nat                         *)
(* m.pc, m.status in {"run","done","fault","wait","unspec"}, m.fline, m.fkind       *)
(* m.meas   : remaining scripted measurement outcomes; m.qlog : quantum events      *)
NewMachine(addrs, umsize, meas) ==
  [ regs |-> [r \in RegDom |-> Undef], arrs |-> [a \in addrs |-> NoArray],
    shregs |-> [r \in RegDom |-> Undef], sharrs |-> [a \in addrs |-> NoShared],
    um |-> [i \in 1..umsize |-> None], used |-> {},
    pc |-> 0, status |-> "run", fline |-> -1, fkind |-> "",
    meas |-> meas, qlog |-> << >> ]

Fault(m, kind)  == [m EXCEPT !.status = "fault", !.fline = m.pc, !.fkind = kind]
Unspec(m, why)  == [m EXCEPT !.status = "unspec", !.fkind = why]
Waiting(m)      == [m EXCEPT !.status = "wait"]
Adv(m)          == [m EXCEPT !.pc = m.pc + 1, !.status = "run"]

R(m, r) == m.regs[r]
SetReg(m, r, v) == [m EXCEPT !.regs[r] = Def(v)]

HasArr(m, a) == a \in DOMAIN m.arrs /\ m.arrs[a].ex
(* write the whole content of array a; the host's view follows if the array was returned *)
PutArr(m, a, newv) ==
  [m EXCEPT !.arrs[a].v = newv,
            !.sharrs[a].v = IF m.sharrs[a].ex /\ m.sharrs[a].alias THEN newv ELSE @]

MinUnused(used) == CHOOSE p \in 0..Cardinality(used) : p \notin used /\ \A q \in 0..Cardinality(used) : q \notin used => p <= q

(* ---- array entry resolution: index register -> index, with the faults of the executor ---- *)
(* returns [ok, m (faulted if ~ok), idx] *)
EntryIndex(m, ireg) ==
  IF ~IsDef(R(m, ireg)) THEN [ok |-> FALSE, m |-> Fault(m, "index-undefined"), idx |-> 0]
  ELSE IF Val(R(m, ireg)) < 0 THEN [ok |-> FALSE, m |-> Unspec(m, "negative-index"), idx |-> 0]
  ELSE [ok |-> TRUE, m |-> m, idx |-> Val(R(m, ireg))]

Replace(s, i, x) == [s EXCEPT ![i] = x]

(* ------------------------------------------------------------------------ *)
ExecSet(m, o)  == Adv(SetReg(m, o[1], o[2]))
ExecLea(m, o)  == Adv(SetReg(m, o[1], o[2]))

ExecArray(m, o) ==                      \* array n @a
  IF ~IsDef(R(m, o[1])) THEN Unspec(m, "array-length-undefined")
  ELSE IF Val(R(m, o[1])) < 0 THEN Unspec(m, "array-length-negative")
  ELSE IF o[2] \notin DOMAIN m.arrs THEN Unspec(m, "address-outside-model")
  ELSE Adv([m EXCEPT !.arrs[o[2]] = [ex |-> TRUE, v |-> [i \in 1..Val(R(m, o[1])) |-> Undef]],
                     !.sharrs[o[2]].alias = FALSE])   \* a new list: the host keeps the old one

ExecStore(m, o) ==                      \* store r @a[i]
  IF ~IsDef(R(m, o[1])) THEN Fault(m, "store-undefined")
  ELSE LET e == EntryIndex(m, o[3]) IN
       IF ~e.ok THEN e.m
       ELSE IF ~HasArr(m, o[2]) THEN Fault(m, "no-array")
       ELSE IF e.idx >= Len(m.arrs[o[2]].v) THEN Fault(m, "index-out-of-range")
       ELSE Adv(PutArr(m, o[2], Replace(m.arrs[o[2]].v, e.idx + 1, R(m, o[1]))))

ExecLoad(m, o) ==                       \* load r @a[i]
  LET e == EntryIndex(m, o[3]) IN
  IF ~e.ok THEN e.m
  ELSE IF ~HasArr(m, o[2]) THEN Fault(m, "load-undefined")     \* reported as an undefined entry
  ELSE IF e.idx >= Len(m.arrs[o[2]].v) THEN Fault(m, "index-out-of-range")
  ELSE IF ~IsDef(m.arrs[o[2]].v[e.idx + 1]) THEN Fault(m, "load-undefined")
  ELSE Adv(SetReg(m, o[1], Val(m.arrs[o[2]].v[e.idx + 1])))

ExecUndef(m, o) ==                      \* undef @a[i]
  LET e == EntryIndex(m, o[2]) IN
  IF ~e.ok THEN e.m
  ELSE IF ~HasArr(m, o[1]) THEN Fault(m, "no-array")
  ELSE IF e.idx >= Len(m.arrs[o[1]].v) THEN Fault(m, "index-out-of-range")
  ELSE Adv(PutArr(m, o[1], Replace(m.arrs[o[1]].v, e.idx + 1, Undef)))

ExecArith(m, mn, o) ==                  \* add/sub r0 r1 r2
  IF ~IsDef(R(m, o[2])) \/ ~IsDef(R(m, o[3])) THEN Unspec(m, "arith-undefined")
  ELSE LET a == Val(R(m, o[2]))  b == Val(R(m, o[3])) IN
       Adv(SetReg(m, o[1], IF mn = "add" THEN a + b ELSE a - b))

ExecArithMod(m, mn, o) ==               \* addm/subm r0 r1 r2 r3
  IF IsDef(R(m, o[4])) /\ Val(R(m, o[4])) < 1 THEN Fault(m, "modulus")
  ELSE IF ~IsDef(R(m, o[4])) \/ ~IsDef(R(m, o[2])) \/ ~IsDef(R(m, o[3])) THEN Unspec(m, "arith-undefined")
  ELSE LET a == Val(R(m, o[2]))  b == Val(R(m, o[3]))  md == Val(R(m, o[4])) IN
       Adv(SetReg(m, o[1], (IF mn = "addm" THEN a + b ELSE a - b) % md))   \* TLA+ % : result in 0..md-1

Goto(m, t) == IF t < 0 THEN Unspec(m, "negative-target") ELSE [m EXCEPT !.pc = t, !.status = "run"]
ExecJmp(m, o) == Goto(m, o[1])
ExecBranch1(m, mn, o) ==                \* bez/bnz r L
  IF ~IsDef(R(m, o[1])) THEN Unspec(m, "branch-undefined")
  ELSE LET a == Val(R(m, o[1])) IN
       IF (mn = "bez" /\ a = 0) \/ (mn = "bnz" /\ a # 0) THEN Goto(m, o[2]) ELSE Adv(m)
ExecBranch2(m, mn, o) ==                \* beq/bne/blt/bge r0 r1 L
  IF ~IsDef(R(m, o[1])) \/ ~IsDef(R(m, o[2])) THEN Unspec(m, "branch-undefined")
  ELSE LET a == Val(R(m, o[1]))  b == Val(R(m, o[2]))
           c == CASE mn = "beq" -> a = b [] mn = "bne" -> a # b [] mn = "blt" -> a < b [] mn = "bge" -> a >= b
       IN IF c THEN Goto(m, o[3]) ELSE Adv(m)

(* ---- qubits ---- *)
Virt(m, qreg) == Val(R(m, qreg))
Allocated(m, v) == v >= 0 /\ v < Len(m.um) /\ m.um[v + 1] # None

ExecQAlloc(m, o) ==
  IF ~IsDef(R(m, o[1])) THEN Fault(m, "qubit-register-undefined")
  ELSE LET v == Virt(m, o[1]) IN
       IF v < 0 THEN Unspec(m, "negative-virtual-id")
       ELSE IF v >= Len(m.um) THEN Fault(m, "outside-unit-module")
       ELSE IF m.um[v + 1] # None THEN Fault(m, "already-allocated")
       ELSE LET p == MinUnused(m.used) IN
            Adv([m EXCEPT !.um[v + 1] = p, !.used = @ \cup {p}])
ExecQFree(m, o) ==
  IF ~IsDef(R(m, o[1])) THEN Unspec(m, "qubit-register-undefined")
  ELSE LET v == Virt(m, o[1]) IN
       IF v < 0 THEN Unspec(m, "negative-virtual-id")
       ELSE IF v >= Len(m.um) THEN Fault(m, "outside-unit-module")
       ELSE IF m.um[v + 1] = None THEN Fault(m, "not-allocated")
       ELSE Adv([m EXCEPT !.um[v + 1] = None, !.used = @ \ {m.um[v + 1]}])

(* quantum events: the simulator hook sees the virtual ids; an instruction on   *)
(* an unallocated qubit faults (as on any simulator that resolves positions).   *)
QubitsOK(m, regs) == \A i \in DOMAIN regs : IsDef(R(m, regs[i])) /\ Allocated(m, Virt(m, regs[i]))
ExecGate(m, mn, qregs, imms) ==
  IF \E i \in DOMAIN qregs : ~IsDef(R(m, qregs[i])) THEN Unspec(m, "qubit-register-undefined")
  ELSE IF ~QubitsOK(m, qregs) THEN Fault(m, "not-allocated")
  ELSE Adv([m EXCEPT !.qlog = Append(@, <<mn, [i \in DOMAIN qregs |-> Virt(m, qregs[i])], imms>>)])
ExecMeas(m, o) ==                       \* meas q m
  IF ~IsDef(R(m, o[1])) THEN Unspec(m, "qubit-register-undefined")
  ELSE IF ~Allocated(m, Virt(m, o[1])) THEN Fault(m, "not-allocated")
  ELSE IF m.meas = << >> THEN Unspec(m, "script-exhausted")
  ELSE Adv([SetReg(m, o[2], Head(m.meas)) EXCEPT !.meas = Tail(m.meas),
               !.qlog = Append(m.qlog, <<"meas", <<Virt(m, o[1])>>, <<Head(m.meas)>>>>)])

(* ---- returning values to the host ---- *)
ExecRetReg(m, o) == IF ~IsDef(R(m, o[1])) THEN Fault(m, "ret-undefined")
                    ELSE Adv([m EXCEPT !.shregs[o[1]] = R(m, o[1])])
ExecRetArr(m, o) == IF ~HasArr(m, o[1]) THEN Fault(m, "no-array")
                    ELSE Adv([m EXCEPT !.sharrs[o[1]] = [ex |-> TRUE, alias |-> TRUE, v |-> m.arrs[o[1]].v]])

(* ---- waits ---- *)
SliceIdx(m, sreg, ereg, len) ==        \* Python slice semantics for 0 <= s, e
  LET s == Val(R(m, sreg))  e == Val(R(m, ereg))
      lo == IF s > len THEN len ELSE s
      hi == IF e > len THEN len ELSE e
  IN  IF hi <= lo THEN {} ELSE (lo + 1)..hi
ExecWaitSlice(m, mn, o) ==              \* wait_all / wait_any @a[s:e]
  IF ~IsDef(R(m, o[2])) \/ ~IsDef(R(m, o[3])) THEN Fault(m, "index-undefined")
  ELSE IF Val(R(m, o[2])) < 0 \/ Val(R(m, o[3])) < 0 THEN Unspec(m, "negative-index")
  ELSE IF ~HasArr(m, o[1]) THEN Fault(m, "no-array")
  ELSE LET I == SliceIdx(m, o[2], o[3], Len(m.arrs[o[1]].v))
           ready == IF mn = "wait_all" THEN \A i \in I : IsDef(m.arrs[o[1]].v[i])
                    ELSE \E i \in I : IsDef(m.arrs[o[1]].v[i])
       IN IF ready THEN Adv(m) ELSE Waiting(m)
ExecWaitSingle(m, o) ==                 \* wait_single @a[i]
  LET e == EntryIndex(m, o[2]) IN
  IF ~e.ok THEN e.m
  ELSE IF ~HasArr(m, o[1]) THEN Waiting(m)                 \* a missing array reads as "not yet defined"
  ELSE IF e.idx >= Len(m.arrs[o[1]].v) THEN Fault(m, "index-out-of-range")
  ELSE IF IsDef(m.arrs[o[1]].v[e.idx + 1]) THEN Adv(m) ELSE Waiting(m)

SingleQubitGates == {"init", "x", "y", "z", "h", "s", "k", "t"}
TwoQubitGates == {"cnot", "cphase", "mov"}
Rotations == {"rot_x", "rot_y", "rot_z"}
CRotations == {"crot_x", "crot_y"}
Classical == {"set", "lea", "array", "store", "load", "undef", "add", "sub", "addm", "subm",
              "jmp", "bez", "bnz", "beq", "bne", "blt", "bge", "ret_reg", "ret_arr",
              "wait_all", "wait_any", "wait_single", "qalloc", "qfree"}

Exec(m, i) ==
  LET mn == i.mn  o == i.ops IN
  CASE mn = "set"   -> ExecSet(m, o)
    [] mn = "lea"   -> ExecLea(m, o)
    [] mn = "array" -> ExecArray(m, o)
    [] mn = "store" -> ExecStore(m, o)
    [] mn = "load"  -> ExecLoad(m, o)
    [] mn = "undef" -> ExecUndef(m, o)
    [] mn \in {"add", "sub"}   -> ExecArith(m, mn, o)
    [] mn \in {"addm", "subm"} -> ExecArithMod(m, mn, o)
    [] mn = "jmp"   -> ExecJmp(m, o)
    [] mn \in {"bez", "bnz"} -> ExecBranch1(m, mn, o)
    [] mn \in {"beq", "bne", "blt", "bge"} -> ExecBranch2(m, mn, o)
    [] mn = "qalloc" -> ExecQAlloc(m, o)
    [] mn = "qfree"  -> ExecQFree(m, o)
    [] mn \in SingleQubitGates -> ExecGate(m, mn, <<o[1]>>, << >>)
    [] mn \in TwoQubitGates    -> ExecGate(m, mn, <<o[1], o[2]>>, << >>)
    [] mn \in Rotations        -> ExecGate(m, mn, <<o[1]>>, <<o[2], o[3]>>)
    [] mn \in CRotations       -> ExecGate(m, mn, <<o[1], o[2]>>, <<o[3], o[4]>>)
    [] mn = "meas"    -> ExecMeas(m, o)
    [] mn = "ret_reg" -> ExecRetReg(m, o)
    [] mn = "ret_arr" -> ExecRetArr(m, o)
    [] mn \in {"wait_all", "wait_any"} -> ExecWaitSlice(m, mn, o)
    [] mn = "wait_single" -> ExecWaitSingle(m, o)
    [] mn \in {"meas_basis", "breakpoint"} -> Fault(m, "unknown-instruction")   \* base executor
    [] OTHER -> Unspec(m, "not-modelled")

(* one step of the subroutine prog (pc counts from 0) *)
StepSub(m, prog) ==
  IF m.status \notin {"run", "wait"} THEN m
  ELSE IF m.pc >= Len(prog) THEN [m EXCEPT !.status = "done"]
  ELSE Exec(m, prog[m.pc + 1])
(* start the next subroutine of the same application: memory persists, pc does not *)
StartSub(m) == [m EXCEPT !.pc = 0, !.status = "run", !.fline = -1, !.fkind = ""]

(* ---- what must hold in every state of every execution ---- *)
Mapped(m) == { m.um[i] : i \in { j \in DOMAIN m.um : m.um[j] # None } }
Injective(m) == \A i, j \in DOMAIN m.um : (i # j /\ m.um[i] # None) => m.um[i] # m.um[j]
UsedIsMapped(m) == m.used = Mapped(m)
=============================================================================
