-------------------------------- MODULE Hub --------------------------------
(***************************************************************************)
(* The thread socket hub at STATEMENT granularity: one action per source   *)
(* statement of socket_hub.py that touches state shared between threads    *)
(* (the scheduler of the rig preempts real threads at exactly these        *)
(* statements).  Each thread owns one socket and runs a script of public   *)
(* calls.  Labels (pc values):                                             *)
(*   connect    cb1 cb2 (only with callbacks) c1 c2 w1 w2                  *)
(*              (Scn.cbfirst = FALSE gives the base commit's order         *)
(*               c1 c2 cb1 cb2, which loses messages)                      *)
(*   send       ic (connected test)  s1 (callback lookup)                  *)
(*              s2a (invoke callback) | s2b (acquire) s3 (append+release)  *)
(*   recv       r1a (acquire) r1b (take reference + release) r2 (length    *)
(*              test) r3a (acquire) r3b (pop + release)                    *)
(*   disconnect d0 (acquire) d1 d2 d3 d4 d5 d6 d7 d8(+release)             *)
(* The scenario (IOEnv.VERIF_SCN) lists per thread: key, cb, script.       *)
(* Keys are 1..4 with Peer = <<2,1,4,3>>.                                  *)
(***************************************************************************)
EXTENDS Naturals, Sequences, FiniteSets, TLC, Json, IOUtils, SequencesExt

Scn == JsonDeserialize(IOEnv.VERIF_SCN)
Threads == DOMAIN Scn.eps
Keys == 1..4
Peer == <<2, 1, 4, 3>>
K(t) == Scn.eps[t].key
Cb(t) == Scn.eps[t].cb
Script(t) == Scn.eps[t].script

VARIABLES open, remote, msgs, rcb, lcb, lock,   \* the hub
          pc, ip, loc,                           \* per thread: label, index of current op, locals
          sent, got, res                         \* history: sent[k] to key k (program order), got[k] by owner of k, results per thread
vars == <<open, remote, msgs, rcb, lcb, lock, pc, ip, loc, sent, got, res>>

Init == /\ open = {} /\ remote = {} /\ msgs = [k \in Keys |-> << >>] /\ rcb = {} /\ lcb = {} /\ lock = 0
        /\ pc = [t \in Threads |-> "next"] /\ ip = [t \in Threads |-> 1]
        /\ loc = [t \in Threads |-> [cbfound |-> FALSE, empty |-> FALSE]]
        /\ sent = [k \in Keys |-> << >>] /\ got = [k \in Keys |-> << >>] /\ res = [t \in Threads |-> << >>]

Op(t) == Script(t)[ip[t]]
Goto(t, l) == pc' = [pc EXCEPT ![t] = l]
Hist == <<sent, got, res>>
Hub == <<open, remote, msgs, rcb, lcb, lock>>
Finish(t, r) == /\ pc' = [pc EXCEPT ![t] = "next"] /\ ip' = [ip EXCEPT ![t] = @ + 1]
                /\ res' = [res EXCEPT ![t] = Append(@, r)]

(* dispatch: start the next call of the script *)
Begin(t) ==
  /\ pc[t] = "next" /\ ip[t] <= Len(Script(t))
  /\ LET o == Op(t) IN
     CASE o.op = "connect" -> Goto(t, IF Scn.cbfirst /\ Cb(t) THEN "cb1" ELSE "c1") /\ UNCHANGED <<sent>>
       [] o.op = "send"    -> Goto(t, "ic") /\ sent' = [sent EXCEPT ![Peer[K(t)]] = Append(@, o.arg)]
       [] o.op \in {"recv", "recvnb"} -> Goto(t, "r1a") /\ UNCHANGED sent
       [] o.op = "disconnect" -> Goto(t, "d0") /\ UNCHANGED sent
  /\ UNCHANGED <<Hub, ip, loc, got, res>>

(* ---- connect ---- *)
AfterOpenRemote(t) == IF ~Scn.cbfirst /\ Cb(t) THEN "cb1" ELSE "w1"
AfterCallbacks(t) == IF Scn.cbfirst THEN "c1" ELSE "w1"
C1(t) == pc[t] = "c1" /\ open' = open \cup {K(t)} /\ Goto(t, "c2") /\ UNCHANGED <<remote, msgs, rcb, lcb, lock, ip, loc, Hist>>
C2(t) == pc[t] = "c2" /\ remote' = remote \cup {K(t)} /\ Goto(t, AfterOpenRemote(t)) /\ UNCHANGED <<open, msgs, rcb, lcb, lock, ip, loc, Hist>>
CB1(t) == pc[t] = "cb1" /\ rcb' = rcb \cup {K(t)} /\ Goto(t, "cb2") /\ UNCHANGED <<open, remote, msgs, lcb, lock, ip, loc, Hist>>
CB2(t) == pc[t] = "cb2" /\ lcb' = lcb \cup {K(t)} /\ Goto(t, AfterCallbacks(t)) /\ UNCHANGED <<open, remote, msgs, rcb, lock, ip, loc, Hist>>
W1(t) == /\ pc[t] = "w1" /\ UNCHANGED <<Hub, loc, sent, got>>
         /\ IF Peer[K(t)] \in open THEN Finish(t, "ok") ELSE Goto(t, "w2") /\ UNCHANGED <<ip, res>>
W2(t) == /\ pc[t] = "w2" /\ UNCHANGED <<Hub, loc, sent, got>>
         /\ IF Peer[K(t)] \in remote THEN Finish(t, "ok") ELSE Goto(t, "w1") /\ UNCHANGED <<ip, res>>

(* ---- send ---- *)
IC(t) == /\ pc[t] = "ic" /\ UNCHANGED <<Hub, loc, sent, got>>
         /\ IF K(t) \in open /\ Peer[K(t)] \in open THEN Goto(t, "s1") /\ UNCHANGED <<ip, res>> ELSE Finish(t, "<connerr>")
S1(t) == /\ pc[t] = "s1" /\ UNCHANGED <<Hub, ip, Hist>>
         /\ loc' = [loc EXCEPT ![t].cbfound = Peer[K(t)] \in rcb]
         /\ Goto(t, IF Peer[K(t)] \in rcb THEN "s2a" ELSE "s2b")
S2a(t) == /\ pc[t] = "s2a" /\ UNCHANGED <<Hub, loc, sent>>
          /\ got' = [got EXCEPT ![Peer[K(t)]] = Append(@, Op(t).arg)]           \* the callback runs in the sender's thread
          /\ pc' = [pc EXCEPT ![t] = "next"] /\ ip' = [ip EXCEPT ![t] = @ + 1] /\ res' = [res EXCEPT ![t] = Append(@, "ok")]
S2b(t) == pc[t] = "s2b" /\ lock = 0 /\ lock' = t /\ Goto(t, "s3") /\ UNCHANGED <<open, remote, msgs, rcb, lcb, ip, loc, Hist>>
S3(t) == /\ pc[t] = "s3" /\ msgs' = [msgs EXCEPT ![Peer[K(t)]] = Append(@, Op(t).arg)] /\ lock' = 0
         /\ Finish(t, "ok") /\ UNCHANGED <<open, remote, rcb, lcb, loc, sent, got>>

(* ---- recv ---- *)
R1a(t) == pc[t] = "r1a" /\ lock = 0 /\ lock' = t /\ Goto(t, "r1b") /\ UNCHANGED <<open, remote, msgs, rcb, lcb, ip, loc, Hist>>
R1b(t) == pc[t] = "r1b" /\ lock' = 0 /\ Goto(t, "r2") /\ UNCHANGED <<open, remote, msgs, rcb, lcb, ip, loc, Hist>>
R2(t) == /\ pc[t] = "r2" /\ UNCHANGED <<Hub, loc, sent, got>>
         /\ IF msgs[K(t)] = << >>
            THEN IF Op(t).op = "recvnb" THEN Finish(t, "<empty>") ELSE Goto(t, "r1a") /\ UNCHANGED <<ip, res>>
            ELSE Goto(t, "r3a") /\ UNCHANGED <<ip, res>>
R3a(t) == pc[t] = "r3a" /\ lock = 0 /\ lock' = t /\ Goto(t, "r3b") /\ UNCHANGED <<open, remote, msgs, rcb, lcb, ip, loc, Hist>>
R3b(t) == /\ pc[t] = "r3b" /\ msgs[K(t)] # << >>
          /\ msgs' = [msgs EXCEPT ![K(t)] = Tail(@)] /\ lock' = 0
          /\ got' = [got EXCEPT ![K(t)] = Append(@, Head(msgs[K(t)]))]
          /\ Finish(t, Head(msgs[K(t)])) /\ UNCHANGED <<open, remote, rcb, lcb, loc, sent>>

(* ---- disconnect (all under the lock; other threads' unlocked statements interleave) ---- *)
D0(t) == pc[t] = "d0" /\ lock = 0 /\ lock' = t /\ Goto(t, "d1") /\ UNCHANGED <<open, remote, msgs, rcb, lcb, ip, loc, Hist>>
D1(t) == pc[t] = "d1" /\ Goto(t, IF Peer[K(t)] \in lcb THEN "d2" ELSE "d3") /\ UNCHANGED <<Hub, ip, loc, Hist>>
D2(t) == pc[t] = "d2" /\ Goto(t, "d3") /\ UNCHANGED <<Hub, ip, loc, Hist>>          \* peer's lost-connection callback
D3(t) == pc[t] = "d3" /\ Goto(t, IF K(t) \in open THEN "d4" ELSE "d5") /\ UNCHANGED <<Hub, ip, loc, Hist>>
D4(t) == pc[t] = "d4" /\ open' = open \ {K(t)} /\ Goto(t, "d5") /\ UNCHANGED <<remote, msgs, rcb, lcb, lock, ip, loc, Hist>>
D5(t) == pc[t] = "d5" /\ Goto(t, IF Peer[K(t)] \in remote THEN "d6" ELSE "d7") /\ UNCHANGED <<Hub, ip, loc, Hist>>
D6(t) == pc[t] = "d6" /\ remote' = remote \ {Peer[K(t)]} /\ Goto(t, "d7") /\ UNCHANGED <<open, msgs, rcb, lcb, lock, ip, loc, Hist>>
D7(t) == pc[t] = "d7" /\ rcb' = rcb \ {K(t)} /\ Goto(t, "d8") /\ UNCHANGED <<open, remote, msgs, lcb, lock, ip, loc, Hist>>
D8(t) == /\ pc[t] = "d8" /\ lcb' = lcb \ {K(t)} /\ lock' = 0 /\ Finish(t, "ok")
         /\ UNCHANGED <<open, remote, msgs, rcb, loc, sent, got>>

StepT(t) == Begin(t) \/ C1(t) \/ C2(t) \/ CB1(t) \/ CB2(t) \/ W1(t) \/ W2(t) \/ IC(t) \/ S1(t) \/ S2a(t) \/ S2b(t) \/ S3(t)
            \/ R1a(t) \/ R1b(t) \/ R2(t) \/ R3a(t) \/ R3b(t)
            \/ D0(t) \/ D1(t) \/ D2(t) \/ D3(t) \/ D4(t) \/ D5(t) \/ D6(t) \/ D7(t) \/ D8(t)
Next == \E t \in Threads : StepT(t)
(* strong fairness: a thread that keeps finding the lock free now and then eventually gets it *)
Spec == Init /\ [][Next]_vars /\ \A t \in Threads : SF_vars(StepT(t))

(* ---------------- C18 ---------------- *)
Finished(t) == pc[t] = "next" /\ ip[t] > Len(Script(t))
AllDone == \A t \in Threads : Finished(t)
(* messages whose send returned normally, per destination, in program order *)
Accepted(k) ==
  LET t == CHOOSE x \in Threads : K(x) = Peer[k]
      idx == { i \in 1..Len(res[t]) : Script(t)[i].op = "send" /\ res[t][i] = "ok" }
  IN  IF \E x \in Threads : K(x) = Peer[k]
      THEN [j \in 1..Cardinality(idx) |-> Script(t)[CHOOSE i \in idx : Cardinality({y \in idx : y < i}) = j - 1].arg]
      ELSE << >>
(* received messages are a prefix of the sent ones: in order, none twice, none invented *)
Fifo == \A k \in Keys : IsPrefix(got[k], sent[k])
(* nothing is lost: what was accepted is either received or still queued, in order *)
Conservation == AllDone => \A k \in Keys : got[k] \o msgs[k] = Accepted(k)
(* a callback endpoint never has messages stranded in its queue *)
NoStranding == AllDone => \A t \in Threads : (Cb(t) /\ K(t) \in open) => msgs[K(t)] = << >>
LockSane == lock = 0 \/ lock \in Threads
(* every outcome (per-thread results, final queues, callback deliveries) is exported so that the *)
(* rig can compare the set of outcomes with the set the REAL threads produce                    *)
ExportOutcome == ~AllDone \/ PrintT(ToJson([res |-> res, msgs |-> msgs, cbgot |-> [t \in Threads |-> IF Cb(t) THEN got[K(t)] ELSE << >>]]))
(* liveness under fair scheduling: every thread finishes its script (rendezvous whichever side starts first) *)
Terminates == <>AllDone
=============================================================================
