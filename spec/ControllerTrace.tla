--------------------------- MODULE ControllerTrace ---------------------------
(***************************************************************************)
(* code -> spec for C13: a trace is a history of controller operations     *)
(* (register / stop applications through real messages, begin a library    *)
(* subroutine, step one instruction of one application, deliver a keep     *)
(* response, retry pending responses) performed on the REAL                *)
(* QNodeController + Executor, with the projected state of ALL             *)
(* applications logged after each operation.                               *)
(***************************************************************************)
EXTENDS Controller, Json, IOUtils, Sequences

Traces == ndJsonDeserialize(IOEnv.VERIF_TRACES)
VARIABLES id, k, verdict
tvars == <<vars, id, k, verdict>>
Tr == Traces[id].events
RegSet == <<0, 1, 2, 3, 4, 5, 6, 7, 8, 9, 16, 17, 32, 33>>
AppSeq == <<0, 1, 2>>

ProjApp(a) ==
  [ regs |-> [i \in DOMAIN RegSet |-> ms[a].regs[RegSet[i]]],
    shregs |-> [i \in DOMAIN RegSet |-> ms[a].shregs[RegSet[i]]],
    arrs |-> [x \in 1..4 |-> [ex |-> ms[a].arrs[x - 1].ex, v |-> ms[a].arrs[x - 1].v]],
    sharrs |-> [x \in 1..4 |-> [ex |-> ms[a].sharrs[x - 1].ex, v |-> ms[a].sharrs[x - 1].v]],
    um |-> ms[a].um, active |-> subs[a].active, pc |-> IF subs[a].active /\ ~Stopping(a) THEN ms[a].pc ELSE 0,
    req |-> reqs[a].has ]
Proj == [ apps |-> apps, used |-> used,
          app |-> [i \in 1..3 |-> IF AppSeq[i] \in apps THEN ProjApp(AppSeq[i]) ELSE [none |-> TRUE]],
          pend |-> [i \in DOMAIN pend |-> <<pend[i].app, pend[i].phys>>] ]
Logged(p) == [ apps |-> { p.apps[i] : i \in DOMAIN p.apps }, used |-> { p.used[i] : i \in DOMAIN p.used },
               app |-> p.app, pend |-> p.pend ]
Diff(a, b) ==
  IF a.apps # b.apps THEN "registered-applications"
  ELSE IF a.used # b.used THEN "used-physical-qubits"
  ELSE IF a.pend # b.pend THEN "pending-responses"
  ELSE IF \E i \in 1..3 : a.app[i] # b.app[i]
       THEN LET i == CHOOSE j \in 1..3 : a.app[j] # b.app[j] IN
            IF "broken" \in DOMAIN b.app[i] THEN "application-memory-missing"
            ELSE IF "leftovers" \in DOMAIN b.app[i] THEN "state-of-stopped-application-survives"
            ELSE IF "none" \in DOMAIN a.app[i] \/ "none" \in DOMAIN b.app[i] THEN "application-state-exists"
            ELSE IF a.app[i].um # b.app[i].um THEN "unit-module"
            ELSE IF a.app[i].regs # b.app[i].regs THEN "registers"
            ELSE IF a.app[i].arrs # b.app[i].arrs THEN "arrays"
            ELSE IF a.app[i].shregs # b.app[i].shregs \/ a.app[i].sharrs # b.app[i].sharrs THEN "shared-memory"
            ELSE IF a.app[i].req # b.app[i].req THEN "outstanding-request"
            ELSE "subroutine-progress"
  ELSE ""

ClearedOK(ev, u0, u1) ==
  LET c == ev.cleared IN
  /\ { c[i] : i \in DOMAIN c } = u0 \ u1
  /\ \A i, j \in DOMAIN c : i # j => c[i] # c[j]
(* a gate instruction of application a operates on the physical qubit its virtual qubit is mapped to, and on no other *)
TouchedOK(ev) ==
  ev.a # "step" \/ "touched" \notin DOMAIN ev \/ ev.touched = << >> \/
  LET a == ev.app  prog == ProgOf(a)  ins == prog[ms[a].pc + 1] IN
  /\ ms[a].pc < Len(prog) /\ ins.mn = "h"
  /\ LET v == Val(ms[a].regs[ins.ops[1]]) IN
     Allocated(ms[a], v) /\ \A i \in DOMAIN ev.touched : ev.touched[i] = ms[a].um[v + 1]
TInit == Init /\ id \in DOMAIN Traces /\ k = 0 /\ verdict = "running"
Act(ev) == CASE ev.a = "init"    -> InitApp(ev.app, ev.n)
             [] ev.a = "stop"    -> StopApp(ev.app)
             [] ev.a = "stopbegin" -> StopBegin(ev.app)      \* the stop is suspended inside the reset of the first qubit it gives back
             [] ev.a = "stopstep"  -> StopStep(ev.app)       \* ... resumed: the next qubit, or the end of the stop
             [] ev.a = "abort"   -> IF ev.outstanding THEN AbortOutstanding(ev.app) ELSE AbortApp(ev.app)
             [] ev.a = "zombie"  -> ev.app \notin apps /\ UNCHANGED vars      \* the rest of an orphaned subroutine changes nothing
             [] ev.a = "begin"   -> BeginSub(ev.app, ev.p)
             [] ev.a = "step"    -> StepApp(ev.app)
             [] ev.a = "deliver" -> DeliverK(ev.app, ev.phys)
             [] ev.a = "retry"   -> Retry
TNext == /\ verdict = "running" /\ k < Len(Tr)
         /\ k' = k + 1 /\ UNCHANGED id
         /\ IF Tr[k + 1].err # "" THEN UNCHANGED vars /\ verdict' = "raised:" \o Tr[k + 1].a
            ELSE \/ /\ ENABLED Act(Tr[k + 1]) /\ Act(Tr[k + 1])
                    \* the backend is asked to reset exactly the physical qubits this operation gives back, each once
                    /\ verdict' = IF ~ClearedOK(Tr[k + 1], used, used') THEN "resets-other-physical-qubits-than-released"
                                  ELSE IF ~TouchedOK(Tr[k + 1]) THEN "gate-on-a-physical-qubit-that-is-not-the-application's"
                                  ELSE "check"
                 \/ ~ENABLED Act(Tr[k + 1]) /\ UNCHANGED vars /\ verdict' = "not-enabled:" \o Tr[k + 1].a
TCheck == /\ verdict = "check" /\ UNCHANGED <<vars, id, k>>
          /\ verdict' = LET d == Diff(Proj, Logged(Tr[k].post)) IN
                        IF d # "" THEN d ELSE IF k = Len(Tr) THEN "ok" ELSE "running"
TSpec == TInit /\ [][TNext \/ TCheck]_tvars

Report == verdict \in {"running", "check", "ok"} \/ PrintT(<<"VERDICT", "C13", verdict, id, k, "">>)
Done == verdict # "ok" \/ PrintT(<<"OK", id>>)
InvReport(name, ok) == ok \/ PrintT(<<"VERDICT", "C13", name, id, k, "invariant">>)
PropInv == /\ InvReport("two-virtual-qubits-share-a-physical-qubit", Inj)
           /\ InvReport("in-use-differs-from-mapped-plus-reserved", Acc /\ AccQuiet)
           /\ InvReport("state-of-unregistered-application", NoAppClean)
=============================================================================
