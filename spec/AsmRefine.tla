----------------------------- MODULE AsmRefine -----------------------------
(***************************************************************************)
(* Property C03 as a product of two machines.                              *)
(*                                                                         *)
(* SOURCE programs are sequences of items                                  *)
(*    [t |-> "label", n |-> label number]                                  *)
(*    [t |-> "cmd", mn |-> mnemonic, ops |-> <<[k, v], ...>>]              *)
(* with one [k, v] per operand position of the instruction's shape         *)
(* (Isa!Shapes): k = "reg" (register v), "lit" (literal v) or "lab"        *)
(* (reference to label v).  Source semantics: a label denotes the index    *)
(* of the next command in source order (possibly one past the last); a     *)
(* literal denotes its value - in a register position it behaves like a    *)
(* register holding that value that NO program can name (ghost registers   *)
(* 64..69); everything else is Machine!Exec.                               *)
(*                                                                         *)
(* The TARGET is what the real assembler produced (an Isa-style            *)
(* instruction list).  One source command corresponds to a block of        *)
(* NL + 1 target instructions (NL = literals in register positions).       *)
(* After each block both machines must agree on every register the source  *)
(* names, on all arrays, on the unit module and on where control goes.     *)
(***************************************************************************)
EXTENDS Machine, Isa, TLC, Json, IOUtils

Cases == ndJsonDeserialize(IOEnv.VERIF_TRACES)
MaxBlocks == 24

VARIABLES id, S, T, n, verdict
vars == <<id, S, T, n, verdict>>
Case == Cases[id]
Src == Case.src
Tgt == Case.tgt
CmdPos == { p \in DOMAIN Src : Src[p].t = "cmd" }
NCmds == Cardinality(CmdPos)
(* the c-th command, c counted from 0 *)
CmdAt(c) == Src[CHOOSE p \in CmdPos : Cardinality({q \in CmdPos : q < p}) = c]
LabelTarget(l) == LET p == CHOOSE q \in DOMAIN Src : Src[q].t = "label" /\ Src[q].n = l
                  IN  Cardinality({q \in CmdPos : q < p})
KindsOf(mn) == Shapes[ByName(Pinned["vanilla"], mn).shape]
LitRegPos(cmd) == { p \in DOMAIN cmd.ops : cmd.ops[p].k = "lit" /\ KindsOf(cmd.mn)[p] = "reg" }
NL(c) == Cardinality(LitRegPos(CmdAt(c)))
RECURSIVE B(_)
B(c) == IF c = 0 THEN 0 ELSE B(c - 1) + NL(c - 1) + 1     \* start of command c's block in the target

(* source-level execution of one command from source pc S.pc *)
Ghost(cmd, p) == 64 + Cardinality({q \in LitRegPos(cmd) : q < p})
SrcStep(s) ==
  IF s.pc >= NCmds THEN [s EXCEPT !.status = "done"]
  ELSE LET cmd == CmdAt(s.pc)
           L == LitRegPos(cmd)
           s1 == [s EXCEPT !.regs = [r \in RegDom |-> IF \E p \in L : Ghost(cmd, p) = r
                                                     THEN Def(cmd.ops[CHOOSE p \in L : Ghost(cmd, p) = r].v)
                                                     ELSE s.regs[r]]]
           ops == [p \in DOMAIN cmd.ops |->
                     IF p \in L THEN Ghost(cmd, p)
                     ELSE IF cmd.ops[p].k = "lab" THEN LabelTarget(cmd.ops[p].v)
                     ELSE cmd.ops[p].v]
       IN Exec(s1, [mn |-> cmd.mn, ops |-> ops])

RECURSIVE TgtRun(_, _)
TgtRun(t, k) == IF k = 0 \/ t.status \notin {"run"} THEN t ELSE TgtRun(StepSub(t, Tgt), k - 1)

Named == { Case.named[i] : i \in DOMAIN Case.named }
Vals == IF Len(Case.named) <= 4 THEN [DOMAIN Case.named -> {0, 1, 2}]
        ELSE { [i \in DOMAIN Case.named |-> (i * a + b) % 3] : a \in {0, 1, 2}, b \in {0, 1} }
Init == /\ id \in DOMAIN Cases /\ n = 0 /\ verdict = IF Cases[id].err # "" THEN "assembler-raised" ELSE "running"
        /\ \E val \in (IF Len(Cases[id].named) <= 4 THEN [DOMAIN Cases[id].named -> {0, 1, 2}]
                       ELSE { [i \in DOMAIN Cases[id].named |-> (i * a + b) % 3] : a \in {0, 1, 2}, b \in {0, 1} }) :
             LET m0 == NewMachine({0, 1}, 2, <<1, 0, 1>>)
                 m1 == [m0 EXCEPT !.regs = [r \in RegDom |->
                           IF \E i \in DOMAIN Cases[id].named : Cases[id].named[i] = r
                           THEN Def(val[CHOOSE i \in DOMAIN Cases[id].named : Cases[id].named[i] = r]) ELSE Undef]]
             IN S = m1 /\ T = m1

Agree(s, t) ==
  IF s.status # t.status THEN "status"
  ELSE IF \E r \in Named : s.regs[r] # t.regs[r] THEN "named-register"
  ELSE IF s.arrs # t.arrs THEN "arrays"
  ELSE IF s.shregs # t.shregs \/ s.sharrs # t.sharrs THEN "shared-memory"
  ELSE IF s.um # t.um \/ s.used # t.used THEN "qubits"
  ELSE IF s.qlog # t.qlog THEN "quantum-events"
  ELSE IF s.status = "run" /\ t.pc # B(s.pc) THEN "branch-target"
  ELSE ""

Next ==
  /\ verdict = "running" /\ n < MaxBlocks
  /\ LET s1 == SrcStep(S)
         c  == S.pc
         k  == IF c >= NCmds THEN 1 ELSE NL(c) + 1
         t1 == TgtRun(T, k)
         shape == IF c < NCmds /\ B(c) + NL(c) + 1 <= Len(Tgt) THEN
                     IF Tgt[B(c) + NL(c) + 1].mn # CmdAt(c).mn THEN "instruction-order" ELSE ""
                  ELSE IF c < NCmds THEN "target-too-short" ELSE ""
         d  == IF s1.status = "unspec" THEN "" ELSE IF shape # "" THEN shape ELSE Agree(s1, t1)
     IN /\ S' = s1 /\ T' = t1 /\ n' = n + 1 /\ UNCHANGED id
        /\ verdict' = IF s1.status = "unspec" THEN "unspecified"
                      ELSE IF d # "" THEN d
                      ELSE IF s1.status \in {"done", "fault", "wait"} \/ n + 1 = MaxBlocks THEN "ok"
                      ELSE "running"
Spec == Init /\ [][Next]_vars

LengthOK == Case.err # "" \/ Len(Tgt) = B(NCmds)
Report == verdict \in {"running", "ok", "unspecified"} \/
          PrintT(<<"VERDICT", "C03", verdict, id, n, IF verdict = "assembler-raised" THEN "" ELSE ToString(S.pc)>>)
Done == verdict # "ok" \/ PrintT(<<"OK", id>>)
Static == n # 0 \/ LengthOK \/ PrintT(<<"VERDICT", "C03", "target-length", id, 0, "">>)
=============================================================================
