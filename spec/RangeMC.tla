------------------------------ MODULE RangeMC ------------------------------
(***************************************************************************)
(* C16 model.  A vector puts ONE wide value into one operand position of   *)
(* one instruction class (or into the app id); the machine                 *)
(*      ir --Encode--> bytes | rejected                                    *)
(* takes the only transition Range!Outcome allows.  Vectors (with the      *)
(* outcome the specification demands) are exported and replayed on the     *)
(* real code through direct construction and through the text assembler.   *)
(* In-range boundary values are included as controls.                      *)
(***************************************************************************)
EXTENDS Range, Isa, TLC, Json, IOUtils, SequencesExt

Extracted == JsonDeserialize(IOEnv.VERIF_TABLE)

Outside(kind) ==
  CASE kind = "reg" -> { Nat2W(16), Nat2W(17), Nat2W(31), Nat2W(32), Nat2W(255), Nat2W(256), Nat2W(1000), Neg(Nat2W(1)), Neg(Nat2W(16)), Pow2W(40) }
    [] kind = "imm" -> { Nat2W(256), Nat2W(257), Nat2W(300), Nat2W(511), Nat2W(512), Nat2W(65536), Neg(Nat2W(1)), Neg(Nat2W(128)), Neg(Nat2W(256)), Pow2W(31), Pow2W(40) }
    [] kind = "int" -> { Pow2W(31), Plus(Pow2W(31), 1), Pow2W(32), Plus(Pow2W(32), 5), Neg(Plus(Pow2W(31), 1)), Neg(Pow2W(32)),
                         Neg(Plus(Pow2W(32), 7)), Pow2W(40), Neg(Pow2W(40)), Pow2W(64) }
    [] kind = "app" -> { Nat2W(65536), Nat2W(65537), Nat2W(131072), Pow2W(31), Pow2W(40), Neg(Nat2W(1)) }
Inside(kind) ==
  CASE kind = "reg" -> { Nat2W(0), Nat2W(15) }
    [] kind = "imm" -> { Nat2W(0), Nat2W(255) }
    [] kind = "int" -> { Nat2W(0), Plus(Nat2W(2147483647), 0), Neg(Pow2W(31)), Neg(Nat2W(1)) }
    [] kind = "app" -> { Nat2W(0), Nat2W(65535) }
Base(k, p) == CASE k = "reg" -> (7 + 11 * p) % 64 [] k = "imm" -> 3 + 17 * p [] k = "int" -> 1000 + 111 * p

VecsOf(f) ==
  LET T == Extracted[f] IN
  UNION { LET ks == Shapes[T[n].shape] IN
          UNION { { [fl |-> f, n |-> n, mn |-> T[n].mn, shape |-> T[n].shape, pos |-> j, kind |-> ks[j], w |-> w,
                     ops |-> [p \in DOMAIN ks |-> Base(ks[p], p)]] :
                    w \in Outside(ks[j]) \cup Inside(ks[j]) } : j \in DOMAIN ks }
        : n \in DOMAIN T }
AppVecs == { [fl |-> "vanilla", n |-> 4, mn |-> "set", shape |-> "RegImm", pos |-> 0, kind |-> "app", w |-> w, ops |-> <<1, 5>>] :
               w \in Outside("app") \cup Inside("app") }
Vecs == SetToSeq(UNION { VecsOf(f) : f \in Flavours } \cup AppVecs)
ASSUME \A n \in DOMAIN Vecs : IsWide(Vecs[n].w)
ASSUME PrintT(<<"EXPORT", "vectors", Len(Vecs)>>)
ASSUME ndJsonSerialize(IOEnv.VERIF_OUT,
         [n \in DOMAIN Vecs |-> [id |-> n, v |-> Vecs[n], expect |-> Outcome(Vecs[n].kind, Vecs[n].w)]])

VARIABLES id, stage
vars == <<id, stage>>
Init == id \in DOMAIN Vecs /\ stage = "ir"
EncodeOK == stage = "ir" /\ InRange(Vecs[id].kind, Vecs[id].w) /\ stage' = "bytes" /\ UNCHANGED id
Reject   == stage = "ir" /\ ~InRange(Vecs[id].kind, Vecs[id].w) /\ stage' = "rejected" /\ UNCHANGED id
Next == EncodeOK \/ Reject
Spec == Init /\ [][Next]_vars
(* C16 *)
NeverSilentlyAltered == stage = "bytes" => InRange(Vecs[id].kind, Vecs[id].w)
ControlsPresent == TRUE
=============================================================================
