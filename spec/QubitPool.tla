----------------------------- MODULE QubitPool -----------------------------
(***************************************************************************)
(* The qubit accounting of the controller (property C13) with everything   *)
(* else abstracted away: which applications are registered, the size of    *)
(* each unit module, which physical qubit every virtual qubit is mapped    *)
(* to, the global set of physical qubits in use, and the physical qubits   *)
(* the link layer has reserved for pairs whose response is still pending.  *)
(*                                                                         *)
(* Controller.tla refines this module (checked by TLC, ControllerPool.tla) *)
(* and the real controller is bound to Controller.tla by trace validation. *)
(* This module is small enough for an INDUCTIVE invariant, discharged by   *)
(* Apalache for histories of any length (spec/apalache/MC_QubitPool.tla).  *)
(***************************************************************************)
EXTENDS Integers, FiniteSets

CONSTANTS
  \* @type: Set(Int);
  Apps,
  \* @type: Set(Int);
  VIds,
  \* @type: Set(Int);
  Phys

VARIABLES
  \* @type: Set(Int);
  apps,
  \* @type: Int -> Int;
  size,
  \* @type: Int -> (Int -> Int);
  um,
  \* @type: Set(Int);
  used,
  \* @type: Set(Int);
  resv

vars == <<apps, size, um, used, resv>>
None == -1

\* @type: (Int -> (Int -> Int)) => Set(Int);
MappedAll(u) == { u[a][v] : a \in Apps, v \in VIds } \ {None}
\* @type: (Int -> (Int -> Int), Int) => Set(Int);
MappedOf(u, a) == { u[a][v] : v \in VIds } \ {None}

Init ==
  /\ apps = {} /\ size = [a \in Apps |-> 0]
  /\ um = [a \in Apps |-> [v \in VIds |-> None]]
  /\ used = {} /\ resv = {}

Register(a, n) ==
  /\ a \notin apps /\ n \in VIds \cup {Cardinality(VIds)} /\ n >= 1
  /\ apps' = apps \cup {a} /\ size' = [size EXCEPT ![a] = n]
  /\ um' = [um EXCEPT ![a] = [v \in VIds |-> None]]
  /\ UNCHANGED <<used, resv>>
(* R: physical qubits reserved for pairs of this application whose response was still waiting; they go with it *)
\* @type: (Int, Set(Int)) => Bool;
Stop(a, R) ==
  /\ a \in apps /\ R \subseteq resv
  /\ apps' = apps \ {a} /\ size' = [size EXCEPT ![a] = 0]
  /\ used' = used \ (MappedOf(um, a) \cup R)
  /\ um' = [um EXCEPT ![a] = [v \in VIds |-> None]]
  /\ resv' = resv \ R
QAlloc(a, v, p) ==
  /\ a \in apps /\ v < size[a] /\ um[a][v] = None /\ p \notin used
  /\ um' = [um EXCEPT ![a][v] = p] /\ used' = used \cup {p}
  /\ UNCHANGED <<apps, size, resv>>
QFree(a, v) ==
  /\ a \in apps /\ um[a][v] # None
  /\ used' = used \ {um[a][v]} /\ um' = [um EXCEPT ![a][v] = None]
  /\ UNCHANGED <<apps, size, resv>>
(* the link layer produces a pair on an unused physical qubit; the response may have to wait *)
Reserve(p) ==
  /\ p \notin used /\ used' = used \cup {p} /\ resv' = resv \cup {p}
  /\ UNCHANGED <<apps, size, um>>
(* a pending response is handled: the reserved qubit becomes the virtual qubit of its request *)
Deliver(a, v, p) ==
  /\ a \in apps /\ v < size[a] /\ um[a][v] = None /\ p \in resv
  /\ um' = [um EXCEPT ![a][v] = p] /\ resv' = resv \ {p}
  /\ UNCHANGED <<apps, size, used>>
(* What one step of the implementation's response handling amounts to: the link may reserve  *)
(* one more physical qubit, and then ANY number of pending responses are handled at once.     *)
(* Declaratively: the new mapping differs from the old one only on free slots of registered   *)
(* applications, the new values are distinct, come from the reserved pool and leave it.       *)
(* (It is a finite composition of one optional Reserve and some Deliver steps; the inductive  *)
(* invariant is checked for it directly, so nothing depends on that remark.)                  *)
\* @type: (Int, Bool, Int -> (Int -> Int)) => Bool;
LinkEffect(p, withNew, nu) ==
  LET R == IF withNew THEN {p} ELSE {}
      pool == resv \cup R
      Changed == { s \in Apps \X VIds : nu[s[1]][s[2]] # um[s[1]][s[2]] }
  IN /\ R \cap used = {}
     /\ \A a \in Apps, v \in VIds :
          nu[a][v] = um[a][v] \/ (um[a][v] = None /\ a \in apps /\ v < size[a] /\ nu[a][v] \in pool)
     /\ \A s, t \in Changed : nu[s[1]][s[2]] = nu[t[1]][t[2]] => s = t
     /\ resv' = pool \ { nu[s[1]][s[2]] : s \in Changed }
     /\ used' = used \cup R
     /\ UNCHANGED <<apps, size>>
LinkStep(p, withNew) ==
  /\ um' \in [Apps -> [VIds -> Phys \cup {None}]]
  /\ LinkEffect(p, withNew, um')
(* stuttering is allowed *)
Next ==
  \/ \E a \in Apps, n \in VIds \cup {Cardinality(VIds)} : Register(a, n)
  \/ \E a \in Apps, R \in SUBSET resv : Stop(a, R)
  \/ \E a \in Apps, v \in VIds, p \in Phys : QAlloc(a, v, p) \/ Deliver(a, v, p)
  \/ \E a \in Apps, v \in VIds : QFree(a, v)
  \/ \E p \in Phys : Reserve(p)
  \/ \E p \in Phys, b \in BOOLEAN : LinkStep(p, b)
Spec == Init /\ [][Next]_vars

(* ------------------------------ C13 ------------------------------------ *)
TypeOK ==
  /\ apps \subseteq Apps /\ used \subseteq Phys /\ resv \subseteq Phys
  /\ size \in [Apps -> 0..Cardinality(VIds)]
  /\ um \in [Apps -> [VIds -> Phys \cup {None}]]
(* no two allocated virtual qubits - of the same or of different applications - share a physical qubit *)
Injective ==
  \A a, b \in Apps : \A v, w \in VIds :
    (um[a][v] # None /\ um[a][v] = um[b][w]) => (a = b /\ v = w)
(* in use = mapped + reserved, and a reserved qubit is not mapped *)
Accounting == used = MappedAll(um) \cup resv /\ MappedAll(um) \cap resv = {}
(* an application that is not registered owns nothing; nothing is mapped outside the unit module *)
Clean == \A a \in Apps : \A v \in VIds : (a \notin apps \/ v >= size[a]) => um[a][v] = None
IndInv == TypeOK /\ Injective /\ Accounting /\ Clean
(* what the property adds on top: with no response pending, in use = mapped exactly *)
UsedIsMapped == resv = {} => used = MappedAll(um)
=============================================================================
