-------------------------------- MODULE Text --------------------------------
(***************************************************************************)
(* The canonical assembly text of an instruction (property C17):           *)
(*     mnemonic operand operand ...                                        *)
(* register = bank letter (R C Q M) and decimal index; number = signed     *)
(* decimal; address = @a; entry = @a[reg]; slice = @a[reg:reg].            *)
(* The printer of the implementation is NOT required to produce exactly    *)
(* these characters; the canonical form is used to generate parser inputs  *)
(* and to state that text determines the instruction (PrintInjective).     *)
(***************************************************************************)
EXTENDS Isa, TLC

BankLetter == <<"R", "C", "Q", "M">>
RegText(r) == BankLetter[(r \div 16) + 1] \o ToString(r % 16)
NumText(v) == ToString(v)

RECURSIVE GroupsText(_, _)
GroupsText(gs, vs) ==
  IF gs = << >> THEN ""
  ELSE LET g == Head(gs)
           t == CASE g = "reg"   -> RegText(vs[1])
                  [] g = "num"   -> NumText(vs[1])
                  [] g = "addr"  -> "@" \o NumText(vs[1])
                  [] g = "entry" -> "@" \o NumText(vs[1]) \o "[" \o RegText(vs[2]) \o "]"
                  [] g = "slice" -> "@" \o NumText(vs[1]) \o "[" \o RegText(vs[2]) \o ":" \o RegText(vs[3]) \o "]"
           w == GroupWidth(g)
       IN  " " \o t \o GroupsText(Tail(gs), SubSeq(vs, w + 1, Len(vs)))

PrintInstr(T, i) == i.mn \o GroupsText(Groups[ByName(T, i.mn).shape], i.ops)
=============================================================================
