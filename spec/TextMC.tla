------------------------------ MODULE TextMC ------------------------------
(***************************************************************************)
(* C17 model: the machine  ir --Print--> text --Parse--> back  over the    *)
(* same field-wise vectors as WireMC.  Parse is the inverse relation of    *)
(* the canonical Print, which is well defined iff Print is injective on    *)
(* each flavour (checked).  The canonical text of every vector is exported *)
(* for the real parser; the real printer's text is parsed by the real      *)
(* parser in the rig (that is the property).                               *)
(***************************************************************************)
EXTENDS Text, Json, IOUtils, SequencesExt, FiniteSetsExt

Extracted == JsonDeserialize(IOEnv.VERIF_TABLE)
IntDom == {0, 1, -1, MaxInt, MinInt, 16909060, -16909060, 10, -10, 99, 100, 65536}
          \cup { 2 ^ k : k \in {1, 7, 8, 15, 16, 30} } \cup { 0 - (2 ^ k) : k \in {1, 7, 8, 15, 16, 30} }
Dom(k) == CASE k = "reg" -> 0..63 [] k = "imm" -> 0..255 [] k = "int" -> IntDom
Base(k, p) == CASE k = "reg" -> (7 + 11 * p) % 64 [] k = "imm" -> 3 + 17 * p [] k = "int" -> 1000 + 111 * p
VecsOf(f) ==
  LET T == Extracted[f] IN
  UNION { LET ks == Shapes[T[n].shape] IN
          IF ks = << >> THEN { [fl |-> f, n |-> n, mn |-> T[n].mn, ops |-> << >>] }
          ELSE UNION { { [fl |-> f, n |-> n, mn |-> T[n].mn,
                          ops |-> [p \in DOMAIN ks |-> IF p = j THEN x ELSE Base(ks[p], p)]] :
                         x \in Dom(ks[j]) } : j \in DOMAIN ks }
        : n \in DOMAIN T }
Vecs == SetToSeq(UNION { VecsOf(f) : f \in Flavours })
TextOf(v) == PrintInstr(Extracted[v.fl], [mn |-> v.mn, ops |-> v.ops])
Texts == [n \in DOMAIN Vecs |-> TextOf(Vecs[n])]

(* text determines the instruction, per flavour and per mnemonic-owning class *)
PrintInjective ==
  \A f \in Flavours :
    LET I == {n \in DOMAIN Vecs : Vecs[n].fl = f} IN
    Cardinality({ Texts[n] : n \in I }) = Cardinality({ <<Vecs[n].mn, Vecs[n].ops>> : n \in I })
ASSUME PrintInjective
ASSUME PrintT(<<"EXPORT", "vectors", Len(Vecs)>>)
ASSUME ndJsonSerialize(IOEnv.VERIF_OUT,
         [n \in DOMAIN Vecs |-> [id |-> n, fl |-> Vecs[n].fl, n |-> Vecs[n].n, mn |-> Vecs[n].mn,
                                 ops |-> Vecs[n].ops, text |-> Texts[n]]])

VARIABLES id, stage, text, back
vars == <<id, stage, text, back>>
Init == id \in DOMAIN Vecs /\ stage = "ir" /\ text = "" /\ back = << >>
DoPrint == stage = "ir" /\ stage' = "text" /\ text' = Texts[id] /\ UNCHANGED <<id, back>>
DoParse == /\ stage = "text" /\ stage' = "back"
           /\ back' = LET W == { m \in (id - 1200)..(id + 1200) : m \in DOMAIN Vecs }   \* same-flavour, same-mnemonic
                          n == CHOOSE m \in W : Vecs[m].fl = Vecs[id].fl /\ Texts[m] = text   \* vectors are contiguous
                      IN  [mn |-> Vecs[n].mn, ops |-> Vecs[n].ops]
           /\ UNCHANGED <<id, text>>
Next == DoPrint \/ DoParse
Spec == Init /\ [][Next]_vars
RoundTrip == stage = "back" => back = [mn |-> Vecs[id].mn, ops |-> Vecs[id].ops]
=============================================================================
