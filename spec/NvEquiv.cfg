SPECIFICATION Spec
CONSTANT NQ = 3
INVARIANT Verdict
INVARIANT Done
CHECK_DEADLOCK FALSE
