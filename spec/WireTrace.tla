----------------------------- MODULE WireTrace -----------------------------
(***************************************************************************)
(* code -> spec for C01 / C02.  Each record of IOEnv.VERIF_TRACES is what  *)
(* the REAL code did with one subroutine: the instructions it was given,   *)
(* the bytes its encoder produced, and what its decoder made of them.      *)
(* TLC replays the record as a behaviour of the machine                    *)
(*     ir --Encode--> wire --Decode--> back                                *)
(* binding the logged bytes / decoded value and evaluating the spec's      *)
(* encoder and decoder next to them.                                       *)
(***************************************************************************)
EXTENDS Wire, TLC, Json, IOUtils

Trace == ndJsonDeserialize(IOEnv.VERIF_TRACES)

VARIABLES id, stage
vars == <<id, stage>>

Rec == Trace[id]
T == Pinned[Rec.fl]
Sub == [ver |-> Rec.ver, app |-> Rec.app, instrs |-> Rec.instrs]

Init == id \in DOMAIN Trace /\ stage = "ir"
Encode == stage = "ir" /\ stage' = "wire" /\ UNCHANGED id
Decode == stage = "wire" /\ stage' = "back" /\ UNCHANGED id
Next == Encode \/ Decode
Spec == Init /\ [][Next]_vars

Say(p, clause, x) == PrintT(<<"VERDICT", p, clause, id, x>>)

(* C02: the bytes the real encoder produced are the bytes of the format.   *)
BytesVerdict ==
  stage = "wire" =>
    \/ Rec.err # "" /\ Say("C02", "raised", Rec.err)
    \/ Rec.err = "" /\ Rec.bytes = EncSub(T, Sub)
    \/ Rec.err = "" /\ Rec.bytes # EncSub(T, Sub) /\ Say("C02", "bytes", "")
(* C01: the real decoder returned exactly the subroutine that was encoded, *)
(* and so does the specification's decoder on the real bytes.              *)
FirstDiff(a, b) == IF Len(a) # Len(b) THEN "length"
                   ELSE LET D == {n \in DOMAIN a : a[n] # b[n]} IN
                        IF D = {} THEN "" ELSE a[CHOOSE n \in D : \A m \in D : n <= m].mn
DecodedVerdict ==
  stage = "back" =>
    \/ Rec.err # "" /\ Say("C01", "raised", Rec.err)
    \/ /\ Rec.err = ""
       /\ Rec.dec.ver = Rec.ver /\ Rec.dec.app = Rec.app /\ Rec.dec.instrs = Rec.instrs
       /\ \/ ~ DecSubOK(T, Rec.bytes)
          \/ DecSub(T, Rec.bytes) = Sub
          \/ Say("C02", "spec-decoder-disagrees", FirstDiff(DecSub(T, Rec.bytes).instrs, Rec.instrs))
    \/ /\ Rec.err = ""
       /\ ~ (Rec.dec.ver = Rec.ver /\ Rec.dec.app = Rec.app /\ Rec.dec.instrs = Rec.instrs)
       /\ Say("C01", "decoded",
              IF Rec.dec.ver # Rec.ver THEN "version" ELSE IF Rec.dec.app # Rec.app THEN "app_id"
              ELSE FirstDiff(Rec.instrs, Rec.dec.instrs))
=============================================================================
