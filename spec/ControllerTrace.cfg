SPECIFICATION TSpec
CONSTANTS
  AppIds = {0, 1, 2}
  UMSizes = {1, 2, 3, 4}
  MaxDepth = 1000
INVARIANT Report
INVARIANT Done
INVARIANT PropInv
PROPERTY Isolation
PROPERTY StopReleases
CHECK_DEADLOCK FALSE
