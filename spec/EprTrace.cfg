SPECIFICATION TSpec
INVARIANT Report
INVARIANT Done
INVARIANT PropInv
CHECK_DEADLOCK FALSE
