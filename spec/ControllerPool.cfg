SPECIFICATION Spec
CONSTANTS
  AppIds = {0, 1}
  UMSizes = {1, 2}
  MaxDepth = 12
CONSTRAINT Bound
INVARIANT PoolInv
PROPERTY Refines
CHECK_DEADLOCK FALSE
