------------------------------- MODULE HubAbs -------------------------------
(***************************************************************************)
(* What property C18 states, as an atomic-API specification: between two   *)
(* connected endpoints every sent message is received exactly once and in  *)
(* sending order, per direction and per socket id.                         *)
(*                                                                         *)
(* An endpoint is identified by its key k; Peer[k] is the remote key.      *)
(* Each public call has one linearization point (connect has two: the      *)
(* endpoint becomes visible, then it sees its peer):                       *)
(*   Announce(k, cb)   open, ever += k; callback mode if cb                *)
(*   SeePeer(k)        enabled once the peer is or has been open           *)
(*   Send(k, m)        if both ends are open: deliver m to the peer - by   *)
(*                     invoking its callback (callback mode) or by         *)
(*                     appending to the peer's channel; else ConnectionErr *)
(*   Recv(k)           enabled when the channel is non-empty: take head    *)
(*   RecvNB(k)         head, or "empty" iff the channel is empty           *)
(*   Disconnect(k)     open -= k, callback mode off                        *)
(*   Reset             reset_socket_hub(): all channels empty, nobody open *)
(***************************************************************************)
EXTENDS Naturals, Sequences, FiniteSets

CONSTANTS Keys, Peer
VARIABLES chan,     \* [Keys -> Seq(msg)] queued for the owner of the key
          open, ever, cbmode
avars == <<chan, open, ever, cbmode>>

AInit == chan = [k \in Keys |-> << >>] /\ open = {} /\ ever = {} /\ cbmode = {}

Announce(k, cb) == /\ open' = open \cup {k} /\ ever' = ever \cup {k}
                   /\ cbmode' = IF cb THEN cbmode \cup {k} ELSE cbmode
                   /\ UNCHANGED chan
CanSeePeer(k) == Peer[k] \in open \/ Peer[k] \in ever
Connected(k) == k \in open /\ Peer[k] \in open
(* result of a send at its linearization point: "queued", "callback" or "connerr" *)
SendOutcome(k) == IF ~Connected(k) THEN "connerr" ELSE IF Peer[k] \in cbmode THEN "callback" ELSE "queued"
Send(k, m) == /\ chan' = IF SendOutcome(k) = "queued" THEN [chan EXCEPT ![Peer[k]] = Append(@, m)] ELSE chan
              /\ UNCHANGED <<open, ever, cbmode>>
Recv(k) == chan[k] # << >> /\ chan' = [chan EXCEPT ![k] = Tail(@)] /\ UNCHANGED <<open, ever, cbmode>>
RecvNBEmpty(k) == chan[k] = << >> /\ UNCHANGED avars
Disconnect(k) == /\ open' = open \ {k} /\ cbmode' = cbmode \ {k} /\ UNCHANGED <<chan, ever>>
(* the package's reset (between runs of a simulation): nothing of the past remains *)
Reset == chan' = [k \in Keys |-> << >>] /\ open' = {} /\ ever' = {} /\ cbmode' = {}
=============================================================================
