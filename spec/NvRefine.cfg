SPECIFICATION Spec
CONSTANT NQ = 4
INVARIANT Report
INVARIANT Done
CHECK_DEADLOCK FALSE
