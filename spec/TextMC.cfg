SPECIFICATION Spec
INVARIANT RoundTrip
CHECK_DEADLOCK FALSE
