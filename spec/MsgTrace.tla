------------------------------ MODULE MsgTrace ------------------------------
(***************************************************************************)
(* code -> spec for C15: each record is one real round trip                *)
(* bytes(message) -> deserialize_*; `sent` is the abstract message handed  *)
(* to the real constructor, `got` the projection of what the real          *)
(* deserialiser returned.  The record is a behaviour Send; Deliver of the  *)
(* channel iff got = sent.                                                 *)
(***************************************************************************)
EXTENDS Msg, TLC, Json, IOUtils

Trace == ndJsonDeserialize(IOEnv.VERIF_TRACES)
VARIABLE id
vars == <<sent, inflight, received, id>>
Rec == Trace[id]
Init == ChanInit /\ id \in DOMAIN Trace
TSend == sent = << >> /\ Send(Rec.sent) /\ UNCHANGED id
TDeliver == Deliver /\ UNCHANGED id
Next == TSend \/ TDeliver
Spec == Init /\ [][Next]_vars

FieldDiff(a, b) == IF a.t # b.t THEN "type"
                   ELSE LET D == {f \in DOMAIN a : a[f] # b[f]} IN
                        IF D = {} THEN "" ELSE CHOOSE f \in D : TRUE
Verdict ==
  received # << >> =>
    \/ Rec.err # "" /\ PrintT(<<"VERDICT", "C15", "raised", id, Rec.err>>)
    \/ Rec.err = "" /\ Rec.got = received[1]
    \/ Rec.err = "" /\ Rec.got # received[1] /\
         PrintT(<<"VERDICT", "C15", "delivered-differs", id, FieldDiff(received[1], Rec.got)>>)
=============================================================================
