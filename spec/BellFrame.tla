------------------------------ MODULE BellFrame ------------------------------
(***************************************************************************)
(* Property C10: entanglement looks like Phi+ whatever Bell state the link *)
(* delivered.                                                              *)
(*                                                                         *)
(* PAULI FRAMES.  A delivered pair in Bell state b is (P_b (x) I) Phi+     *)
(* with, from the definitions of the four Bell states,                     *)
(*     Phi+ = |00>+|11>  P = I          Psi+ = |01>+|10>  P = X            *)
(*     Phi- = |00>-|11>  P = Z          Psi- = |01>-|10>  P = XZ           *)
(* (global phases ignored).  Paulis square to the identity and commute up  *)
(* to a phase, so the local qubit is back in Phi+ with its partner exactly *)
(* when the Paulis applied to it since delivery multiply to P_b.  The      *)
(* specification tracks, per PHYSICAL qubit, which pair lives on it and    *)
(* the (x, z) exponent vector of what has been applied to it so far:       *)
(*   Deliver(p, b, q)  pair p arrives in Bell state b on physical qubit q  *)
(*   Pauli(ax, q)      an X or a Z (a rotation by pi) on q                 *)
(*   Mov(q, q2)        the state of q moves to q2                          *)
(*   Use(q) / Meas(q)  the application's first own operation on q: from    *)
(*                     here on the application sees the state, so the      *)
(*                     frame must be right NOW                             *)
(*   End               the subroutine is over: every pair not used yet     *)
(*                     must be right now                                   *)
(* Need(p) = P_{bell[p]} for a receiver that expects Phi+, I otherwise (a  *)
(* creator never corrects; with the expectation off nothing is corrected). *)
(* Any gate on a bystander (a live qubit that is not a pair of this        *)
(* request) is a violation: the correction for pair i goes to pair i's     *)
(* qubit AND TO NO OTHER.                                                  *)
(*                                                                         *)
(* MEASURE DIRECTLY.  Both nodes measure their half in the same named      *)
(* basis s.Q with Q in {X, Y, Z}, s = +-1.  Phi+ is stabilised by X(x)X,   *)
(* Z(x)Z and -Y(x)Y, so the outcomes of Phi+ are uniform with parity       *)
(* Par0(Q) = [Q = Y]; for the state (P_b (x) I) Phi+ the parity is flipped *)
(* exactly when P_b anticommutes with Q.  The post-processed outcomes have *)
(* the Phi+ statistics iff, over the support of the delivered state, the   *)
(* map raw -> processed is injective and lands on parity Par0(Q).          *)
(***************************************************************************)
EXTENDS Naturals, Integers, Sequences, FiniteSets, TLC, Json, IOUtils

Cases == ndJsonDeserialize(IOEnv.VERIF_TRACES)

(* the pinned numbering of netqasm.qlink_compat.BellState *)
PHI_PLUS == 0   PSI_PLUS == 1   PSI_MINUS == 2   PHI_MINUS == 3
BX(b) == IF b \in {PSI_PLUS, PSI_MINUS} THEN 1 ELSE 0
BZ(b) == IF b \in {PHI_MINUS, PSI_MINUS} THEN 1 ELSE 0

(* Paulis as exponent vectors; Anti = symplectic product *)
AxisOf(basis) == CASE basis \in {"X", "MX"} -> <<1, 0>> [] basis \in {"Y", "MY"} -> <<1, 1>> [] basis \in {"Z", "MZ"} -> <<0, 1>>
Anti(p, q) == (p[1] * q[2] + p[2] * q[1]) % 2
Par0(basis) == LET a == AxisOf(basis) IN (a[1] * a[2]) % 2          \* Y (x) Y = -(X (x) X)(Z (x) Z)
RawParity(b, basis) == (Par0(basis) + Anti(<<BX(b), BZ(b)>>, AxisOf(basis))) % 2

VARIABLES id, k, own, fx, fz, seen, verdict
vars == <<id, k, own, fx, fz, seen, verdict>>
Case == Cases[id]
Phys == 0..7
NONE == -1
BYST == -2
AsSet(s) == { s[i] : i \in DOMAIN s }

Init ==
  /\ id \in DOMAIN Cases /\ k = 0
  /\ own = [q \in Phys |-> IF Cases[id].kind = "frame" /\ q \in AsSet(Cases[id].bystanders) THEN BYST ELSE NONE]
  /\ fx = [q \in Phys |-> 0] /\ fz = [q \in Phys |-> 0]
  /\ seen = {} /\ verdict = "running"

Need(p) == IF Case.expect /\ Case.role = "recv" THEN <<BX(Case.bells[p + 1]), BZ(Case.bells[p + 1])>> ELSE <<0, 0>>
Right(q) == <<fx[q], fz[q]>> = Need(own[q])
Ev == Case.events[k + 1]

Deliver(e) ==
  IF own[e.q] # NONE THEN verdict' = "pair-delivered-onto-a-live-qubit" /\ UNCHANGED <<own, fx, fz, seen>>
  ELSE /\ own' = [own EXCEPT ![e.q] = e.p] /\ fx' = [fx EXCEPT ![e.q] = 0] /\ fz' = [fz EXCEPT ![e.q] = 0]
       /\ UNCHANGED <<seen, verdict>>
PauliGate(e) ==
  IF e.q = -1 THEN verdict' = "correction-on-no-qubit" /\ UNCHANGED <<own, fx, fz, seen>>      \* the controller refused it
  ELSE IF own[e.q] = BYST THEN verdict' = "correction-on-another-qubit" /\ UNCHANGED <<own, fx, fz, seen>>
  ELSE IF own[e.q] = NONE THEN verdict' = "correction-on-no-qubit" /\ UNCHANGED <<own, fx, fz, seen>>
  ELSE IF own[e.q] \in seen THEN verdict' = "correction-after-first-use" /\ UNCHANGED <<own, fx, fz, seen>>
  ELSE /\ fx' = IF e.ax = "X" THEN [fx EXCEPT ![e.q] = 1 - @] ELSE fx
       /\ fz' = IF e.ax = "Z" THEN [fz EXCEPT ![e.q] = 1 - @] ELSE fz
       /\ UNCHANGED <<own, seen, verdict>>
Mov(e) ==
  IF own[e.q2] # NONE \/ own[e.q] = NONE THEN verdict' = "move-onto-a-live-qubit" /\ UNCHANGED <<own, fx, fz, seen>>
  ELSE /\ own' = [own EXCEPT ![e.q2] = own[e.q], ![e.q] = NONE]
       /\ fx' = [fx EXCEPT ![e.q2] = fx[e.q], ![e.q] = 0] /\ fz' = [fz EXCEPT ![e.q2] = fz[e.q], ![e.q] = 0]
       /\ UNCHANGED <<seen, verdict>>
Use(e) ==
  IF own[e.q] = BYST THEN UNCHANGED <<own, fx, fz, seen, verdict>>          \* the application's own feed-forward on its own qubit
  ELSE IF own[e.q] = NONE THEN verdict' = "operation-on-no-qubit" /\ UNCHANGED <<own, fx, fz, seen>>
  ELSE IF own[e.q] \notin seen /\ ~Right(e.q) THEN verdict' = "pair-not-in-phi-plus-when-used" /\ UNCHANGED <<own, fx, fz, seen>>
  ELSE /\ seen' = seen \cup {own[e.q]}
       /\ own' = IF e.a = "meas" THEN [own EXCEPT ![e.q] = NONE] ELSE own
       /\ UNCHANGED <<fx, fz, verdict>>
(* a pair of a rejected attempt is given back unused (the request is repeated): its state does not matter *)
Discard(e) ==
  IF own[e.q] < 0 THEN verdict' = "operation-on-no-qubit" /\ UNCHANGED <<own, fx, fz, seen>>
  ELSE /\ seen' = seen \cup {own[e.q]} /\ own' = [own EXCEPT ![e.q] = NONE]
       /\ fx' = [fx EXCEPT ![e.q] = 0] /\ fz' = [fz EXCEPT ![e.q] = 0] /\ UNCHANGED verdict
End ==
  /\ verdict' =
       IF Case.err # "" \/ Case.fault THEN "not-judged" \* refused by the SDK, or a fault that is not about a correction: no request ran to its end (qubit management: C09)
       ELSE IF \E p \in 0..(Case.n - 1) : p \notin seen /\ ~\E q \in Phys : own[q] = p THEN "pair-not-delivered"
       ELSE IF \E q \in Phys : own[q] >= 0 /\ own[q] \notin seen /\ ~Right(q) THEN "pair-not-in-phi-plus-at-the-end"
       ELSE "ok"
  /\ UNCHANGED <<own, fx, fz, seen>>

FrameNext ==
  /\ Case.kind = "frame" /\ verdict = "running" /\ k <= Len(Case.events)
  /\ k' = k + 1 /\ UNCHANGED id
  /\ IF k = Len(Case.events) THEN End
     ELSE CASE Ev.a = "deliver" -> Deliver(Ev)
            [] Ev.a = "pauli" -> PauliGate(Ev)
            [] Ev.a = "mov" -> Mov(Ev)
            [] Ev.a \in {"use", "meas"} -> Use(Ev)
            [] Ev.a = "discard" -> Discard(Ev)

(* measure directly: one case = one delivered Bell state, one basis, and for each of the four raw  *)
(* outcome pairs (creator, receiver) what the two applications read after post-processing        *)
InSupport(c, r) == (r.rawc + r.rawr) % 2 = RawParity(c.bell, c.basis)
MeasVerdict(c) ==
  LET S == { i \in DOMAIN c.rows : InSupport(c, c.rows[i]) }      \* the outcomes the delivered state can give (each with probability 1/2)
  IN
  IF c.err # "" THEN "sdk-raises"
  ELSE IF Cardinality(S) # 2 THEN "rig-error"
  ELSE IF ~c.expect THEN
       IF \E i \in S : c.rows[i].outc # c.rows[i].rawc \/ c.rows[i].outr # c.rows[i].rawr
       THEN "outcome-changed-although-expectation-is-off" ELSE "ok"
  ELSE IF \E i \in S : (c.rows[i].outc + c.rows[i].outr) % 2 # Par0(c.basis) THEN "joint-statistics-are-not-those-of-phi-plus"
  ELSE IF Cardinality({ <<c.rows[i].outc, c.rows[i].outr>> : i \in S }) # 2 THEN "joint-statistics-are-not-uniform"
  ELSE "ok"
MeasNext ==
  /\ Case.kind = "meas" /\ verdict = "running" /\ k = 0
  /\ k' = 1 /\ verdict' = MeasVerdict(Case) /\ UNCHANGED <<id, own, fx, fz, seen>>

Next == FrameNext \/ MeasNext
Spec == Init /\ [][Next]_vars
Report == verdict \in {"running", "ok"} \/ PrintT(<<"VERDICT", "C10", verdict, id, k, "">>)
Done == verdict # "ok" \/ PrintT(<<"OK", id>>)
=============================================================================
