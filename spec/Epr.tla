-------------------------------- MODULE Epr --------------------------------
(***************************************************************************)
(* Entanglement bookkeeping of the controller (property C12).              *)
(*                                                                         *)
(* One application runs ONE subroutine (Scn.prog) on a Machine; the link   *)
(* layer delivers responses at any time.  Actions:                         *)
(*   Step     one instruction of the subroutine (create_epr / recv_epr     *)
(*            enqueue a request; wait_* is enabled only when the awaited   *)
(*            entries are defined; everything else is Machine!Exec)        *)
(*   Deliver  the link produces the next response of a stream: it is       *)
(*            appended to `pending` and the handler runs                   *)
(*   Retry    the handler runs again (the subclassable wait of the         *)
(*            executor)                                                    *)
(* TryHandle mirrors _handle_pending_epr_responses: scan the pending list  *)
(* in arrival order, the first response that can be handled is handled     *)
(* (a keep response is deferred while its virtual qubit is allocated),     *)
(* then scan again.                                                        *)
(*                                                                         *)
(* Environment assumption: responses of one (role, remote, purpose)        *)
(* arrive in generation order; across keys and roles any order; a          *)
(* receive-role response may arrive before recv_epr has executed.  A keep  *)
(* response's physical qubit is reserved when the response is created.     *)
(*                                                                         *)
(* The scenario comes from IOEnv.VERIF_SCN (JSON):                         *)
(*   umsize, regs <<[r, v]>>, arrs <<[a, v <<opt>>]>>, alloc <<virt>>,     *)
(*   prog <<instr>>, remote <<[remote, purpose, type, n]>> (streams the    *)
(*   remote side initiates), fix (which handler variant: see Skippable)    *)
(***************************************************************************)
EXTENDS Machine, TLC, Json, IOUtils, SequencesExt

Scn == JsonDeserialize(IOEnv.VERIF_SCN)
OKF == 10                                   \* fields per entanglement-info record

VARIABLES m,        \* Machine record
          createQ,  \* <<[key, uid, qarr, res, tot, left, type]>> outstanding create requests, all keys, in issue order
          recvQ,    \* same for receive requests
          pending,  \* <<response>> arrived but not yet handled
          net,      \* <<[dir, remote, purpose, type, left, seq]>> streams the link may still produce
          nreq,     \* request uid counter
          seqc,     \* response sequence counter
          herr,     \* the handler raised (a keep response met a request without qubit array): sticky
          hist,     \* history: issued requests, delivered and consumed responses (hidden by the VIEW)
          sub       \* which subroutine of the scenario is running (Scn.progs, or the single Scn.prog)
vars == <<m, createQ, recvQ, pending, net, nreq, seqc, herr, hist, sub>>
view == <<m, createQ, recvQ, pending, net, herr, sub>>

Key(x) == <<x.remote, x.purpose>>
QOf(dir) == IF dir = 0 THEN createQ ELSE recvQ
(* requests of one key, oldest first *)
ForKey(q, k) == SelectSeq(q, LAMBDA r : r.key = k)

InitMachine ==
  LET m0 == NewMachine({ Scn.arrs[i].a : i \in DOMAIN Scn.arrs }, Scn.umsize, << >>)
      m1 == [m0 EXCEPT !.regs = [r \in RegDom |-> IF \E i \in DOMAIN Scn.regs : Scn.regs[i].r = r
                                              THEN Def(Scn.regs[CHOOSE i \in DOMAIN Scn.regs : Scn.regs[i].r = r].v) ELSE Undef],
                       !.arrs = [a \in DOMAIN m0.arrs |-> [ex |-> TRUE, v |-> Scn.arrs[CHOOSE i \in DOMAIN Scn.arrs : Scn.arrs[i].a = a].v]]]
      A == { Scn.alloc[i] : i \in DOMAIN Scn.alloc }
  IN  [m1 EXCEPT !.um = [v \in DOMAIN m1.um |-> IF (v - 1) \in A THEN Cardinality({w \in A : w < v - 1}) ELSE None],
                 !.used = 0..(Cardinality(A) - 1)]

Init == /\ m = InitMachine
        /\ createQ = << >> /\ recvQ = << >> /\ pending = << >>
        /\ net = [i \in DOMAIN Scn.remote |-> [dir |-> 1, remote |-> Scn.remote[i].remote, purpose |-> Scn.remote[i].purpose,
                                              type |-> Scn.remote[i].type, left |-> Scn.remote[i].n]]
        /\ nreq = 0 /\ seqc = 0 /\ herr = FALSE
        /\ hist = [issued |-> << >>, delivered |-> << >>, consumed |-> << >>]
        /\ sub = 1

(* ---------------- the handler ---------------- *)
EntInfo(r) == IF r.type = "K" THEN <<0, 0, r.phys, r.dir, r.seq, r.purpose, r.remote, 0, 0, r.bell>>
              ELSE <<1, 0, r.outcome, 0, r.dir, r.seq, r.purpose, r.remote, 0, r.bell>>

HeadFor(cq, rq, r) == LET q == ForKey(IF r.dir = 0 THEN cq ELSE rq, Key(r)) IN IF q = << >> THEN [uid |-> -1] ELSE q[1]
(* can response r be handled in state (mm, cq, rq)? *)
VirtOf(mm, h) == mm.arrs[h.qarr].v[(h.tot - h.left) + 1]
Broken(mm, h) == h.qarr = -1 \/ (h.tot - h.left) + 1 > Len(mm.arrs[h.qarr].v) \/ ~IsDef(VirtOf(mm, h))
Can(mm, cq, rq, r) ==          \* "no" | "yes" | "err"
  LET h == HeadFor(cq, rq, r) IN
  IF h.uid = -1 THEN "no"
  ELSE IF r.type = "M" THEN "yes"
  ELSE IF Broken(mm, h) THEN "err"          \* the code raises while looking up the virtual qubit
  ELSE IF Allocated(mm, Val(VirtOf(mm, h))) THEN "no" ELSE "yes"

(* Which pending responses may the scan look at?  The base commit looks at ALL of  *)
(* them (a response that must wait does not stop later ones of the same request    *)
(* queue from overtaking it); Scn.fix = "no-overtake" is the repaired handler: a   *)
(* response waits behind an earlier pending response of the same role and key.     *)
Blocked(p, i) == Scn.fix = "no-overtake" /\ \E j \in 1..(i - 1) : p[j].dir = p[i].dir /\ Key(p[j]) = Key(p[i])

DropAt(s, i) == SubSeq(s, 1, i - 1) \o SubSeq(s, i + 1, Len(s))
PopUid(q, uid) == SelectSeq(q, LAMBDA r : r.uid # uid)
DecLeft(q, uid) == [i \in DOMAIN q |-> IF q[i].uid = uid THEN [q[i] EXCEPT !.left = @ - 1] ELSE q[i]]

(* state threaded through the handler: [m, cq, rq, p, h] *)
RECURSIVE TryHandle(_)
TryHandle(st) ==
  LET I == { i \in DOMAIN st.p : ~Blocked(st.p, i) /\ Can(st.m, st.cq, st.rq, st.p[i]) # "no" } IN
  IF I = {} \/ st.err THEN st
  ELSE IF Can(st.m, st.cq, st.rq, st.p[CHOOSE x \in I : \A y \in I : x <= y]) = "err" THEN [st EXCEPT !.err = TRUE]
  ELSE LET i == CHOOSE x \in I : \A y \in I : x <= y
           r == st.p[i]
           h == HeadFor(st.cq, st.rq, r)
           k == h.tot - h.left                         \* pair index
           m1 == IF r.type = "K"
                 THEN [st.m EXCEPT !.um[Val(VirtOf(st.m, h)) + 1] = r.phys, !.used = @ \cup {r.phys}]
                 ELSE st.m
           old == m1.arrs[h.res].v
           newv == [j \in DOMAIN old |-> IF j > k * OKF /\ j <= (k + 1) * OKF THEN Def(EntInfo(r)[j - k * OKF]) ELSE old[j]]
           m2 == PutArr(m1, h.res, newv)
           upd(q) == IF h.left = 1 THEN PopUid(q, h.uid) ELSE DecLeft(q, h.uid)
       IN TryHandle([m |-> m2,
                     cq |-> IF r.dir = 0 THEN upd(st.cq) ELSE st.cq,
                     rq |-> IF r.dir = 1 THEN upd(st.rq) ELSE st.rq,
                     p |-> DropAt(st.p, i), err |-> FALSE,
                     h |-> Append(st.h, [seq |-> r.seq, uid |-> h.uid, pair |-> k, virt |-> IF r.type = "K" THEN Val(VirtOf(st.m, h)) ELSE -1])])

RunHandler(p0) ==
  LET st == TryHandle([m |-> m, cq |-> createQ, rq |-> recvQ, p |-> p0, h |-> << >>, err |-> FALSE]) IN
  /\ m' = st.m /\ createQ' = st.cq /\ recvQ' = st.rq /\ pending' = st.p /\ herr' = st.err
  /\ hist' = [hist EXCEPT !.consumed = @ \o st.h]

(* ---------------- actions ---------------- *)
(* the application's subroutines run one after the other on the same executor: requests, pending responses and   *)
(* all memory persist from one to the next                                                                      *)
Progs == IF "progs" \in DOMAIN Scn THEN Scn.progs ELSE <<Scn.prog>>
Prog == Progs[sub]
Cur == Prog[m.pc + 1]
Running == m.status \in {"run", "wait"} /\ m.pc < Len(Prog)

(* a network stack may refuse a request (here: for more pairs than it supports); the instruction then faults and  *)
(* nothing of the request remains.  After the error the host may send the application's next subroutine.          *)
RejectOver == IF "reject_over" \in DOMAIN Scn THEN Scn.reject_over ELSE 99
CreateRefused ==
  LET args == m.arrs[Val(R(m, Cur.ops[4]))].v IN (IF IsDef(args[2]) THEN Val(args[2]) ELSE 1) > RejectOver
StepRefused == /\ m' = Fault(m, "request-refused")
               /\ UNCHANGED <<createQ, recvQ, pending, net, nreq, seqc, herr, hist>>
Recover == /\ m.status = "fault" /\ sub < Len(Progs) /\ "recover" \in DOMAIN Scn /\ ~herr
           /\ m' = StartSub(m) /\ sub' = sub + 1
           /\ UNCHANGED <<createQ, recvQ, pending, net, nreq, seqc, herr, hist>>
StepCreate ==
  LET o == Cur.ops
      remote == Val(R(m, o[1]))  sock == Val(R(m, o[2]))
      qarr == IF IsDef(R(m, o[3])) THEN Val(R(m, o[3])) ELSE -1
      args == m.arrs[Val(R(m, o[4]))].v
      res == Val(R(m, o[5]))
      ty == IF IsDef(args[1]) /\ Val(args[1]) = 1 THEN "M" ELSE "K"
      num == IF IsDef(args[2]) THEN Val(args[2]) ELSE 1
      req == [key |-> <<remote, sock>>, uid |-> nreq, qarr |-> qarr, res |-> res, tot |-> num, left |-> num, type |-> ty]
  IN /\ createQ' = Append(createQ, req) /\ nreq' = nreq + 1
     /\ net' = Append(net, [dir |-> 0, remote |-> remote, purpose |-> sock, type |-> ty, left |-> num])
     /\ m' = Adv(m)
     /\ hist' = [hist EXCEPT !.issued = Append(@, [dir |-> 0, key |-> <<remote, sock>>, uid |-> nreq, tot |-> num])]
     /\ UNCHANGED <<recvQ, pending, seqc, herr>>
StepRecv ==
  LET o == Cur.ops
      remote == Val(R(m, o[1]))  sock == Val(R(m, o[2]))
      qarr == IF IsDef(R(m, o[3])) THEN Val(R(m, o[3])) ELSE -1
      res == Val(R(m, o[4]))
      num == Len(m.arrs[res].v) \div OKF
      req == [key |-> <<remote, sock>>, uid |-> nreq, qarr |-> qarr, res |-> res, tot |-> num, left |-> num, type |-> "?"]
  IN /\ recvQ' = Append(recvQ, req) /\ nreq' = nreq + 1
     /\ m' = Adv(m)
     /\ hist' = [hist EXCEPT !.issued = Append(@, [dir |-> 1, key |-> <<remote, sock>>, uid |-> nreq, tot |-> num])]
     /\ UNCHANGED <<createQ, pending, net, seqc, herr>>
StepOther ==
  LET m1 == Exec(m, Cur) IN
  /\ m1.status # "wait"              \* a wait instruction is enabled only when the awaited entries are defined
  /\ m' = m1
  /\ UNCHANGED <<createQ, recvQ, pending, net, nreq, seqc, herr, hist>>
Step == /\ Running /\ ~herr /\ UNCHANGED sub
        /\ IF Cur.mn = "create_epr" THEN (IF CreateRefused THEN StepRefused ELSE StepCreate) ELSE IF Cur.mn = "recv_epr" THEN StepRecv ELSE StepOther
(* the scheduler resumes a waiting subroutine although nothing has arrived: it finds itself still waiting (a stutter) *)
Poll == /\ Running /\ ~herr /\ Cur.mn \notin {"create_epr", "recv_epr"}
        /\ Exec(m, Cur).status = "wait"
        /\ UNCHANGED vars
Finish == /\ m.status = "run" /\ m.pc >= Len(Prog)
          /\ IF sub < Len(Progs) THEN m' = StartSub(m) /\ sub' = sub + 1
                                ELSE m' = [m EXCEPT !.status = "done"] /\ sub' = sub
          /\ UNCHANGED <<createQ, recvQ, pending, net, nreq, seqc, herr, hist>>

Deliver(s) ==
  /\ s \in DOMAIN net /\ net[s].left > 0 /\ ~herr
  \* environment assumption: one (role, remote, purpose) is served in generation order
  /\ \A t \in 1..(s - 1) : (net[t].dir = net[s].dir /\ Key(net[t]) = Key(net[s])) => net[t].left = 0
  /\ LET st == net[s]
         phys == MinUnused(m.used)
         r == IF st.type = "K"
              THEN [type |-> "K", dir |-> st.dir, remote |-> st.remote, purpose |-> st.purpose, phys |-> phys, seq |-> seqc, bell |-> seqc % 4]
              ELSE [type |-> "M", dir |-> st.dir, remote |-> st.remote, purpose |-> st.purpose, outcome |-> seqc % 2, seq |-> seqc, bell |-> seqc % 4]
         mres == IF st.type = "K" THEN [m EXCEPT !.used = @ \cup {phys}] ELSE m      \* reservation
         st2 == TryHandle([m |-> mres, cq |-> createQ, rq |-> recvQ, p |-> Append(pending, r), h |-> << >>, err |-> FALSE])
     IN /\ herr' = st2.err /\ m' = st2.m /\ createQ' = st2.cq /\ recvQ' = st2.rq /\ pending' = st2.p
        /\ hist' = [hist EXCEPT !.consumed = @ \o st2.h,
                                !.delivered = Append(@, [dir |-> st.dir, key |-> <<st.remote, st.purpose>>, seq |-> seqc, type |-> st.type])]
        /\ net' = [net EXCEPT ![s].left = @ - 1]
        /\ seqc' = seqc + 1 /\ UNCHANGED <<nreq, sub>>
Retry == /\ pending # << >> /\ ~herr
         /\ RunHandler(pending)
         /\ (m' # m \/ pending' # pending \/ herr')           \* a retry that changes nothing is a stuttering step
         /\ UNCHANGED <<net, nreq, seqc, sub>>

Next == Step \/ Finish \/ Recover \/ (\E s \in DOMAIN net : Deliver(s)) \/ Retry
Fairness == WF_vars(Step) /\ WF_vars(Finish) /\ WF_vars(Retry) /\ \A s \in 1..8 : WF_vars(Deliver(s))
Spec == Init /\ [][Next]_vars /\ Fairness

(* ---------------- the property ---------------- *)
(* the j-th delivered response of a (role, key) belongs to the request of that   *)
(* (role, key) whose pair range covers j: requests in issue order                *)
IssuedFor(dir, k) == SelectSeq(hist.issued, LAMBDA q : q.dir = dir /\ q.key = k)
DeliveredFor(dir, k) == SelectSeq(hist.delivered, LAMBDA d : d.dir = dir /\ d.key = k)
RECURSIVE OwnerIn(_, _)
OwnerIn(reqs, j) == IF reqs = << >> THEN [uid |-> -1, pair |-> -1]
                    ELSE IF j < Head(reqs).tot THEN [uid |-> Head(reqs).uid, pair |-> j]
                    ELSE OwnerIn(Tail(reqs), j - Head(reqs).tot)
Ordinal(d) == Cardinality({ e \in DOMAIN hist.delivered : hist.delivered[e].dir = d.dir /\ hist.delivered[e].key = d.key
                                                          /\ hist.delivered[e].seq < d.seq })
DeliveredBySeq(s) == hist.delivered[CHOOSE e \in DOMAIN hist.delivered : hist.delivered[e].seq = s]

NoHandlerError == ~herr
(* (1) at most once *)
ConsumedOnce == \A i, j \in DOMAIN hist.consumed : i # j => hist.consumed[i].seq # hist.consumed[j].seq
(* (2)+(3) by the oldest outstanding request of its key and role, as pair k of that request *)
ConsumedByOwner ==
  \A i \in DOMAIN hist.consumed :
    LET c == hist.consumed[i]
        d == DeliveredBySeq(c.seq)
        o == OwnerIn(IssuedFor(d.dir, d.key), Ordinal(d))
    IN  o.uid = -1 \/ (c.uid = o.uid /\ c.pair = o.pair)
(* (4) a request is outstanding exactly while it has pairs left *)
QueuesSane == \A q \in {createQ, recvQ} : \A i \in DOMAIN q : q[i].left >= 1 /\ q[i].left <= q[i].tot
Retired == \A i \in DOMAIN hist.issued :
             LET u == hist.issued[i].uid
                 got == Cardinality({ c \in DOMAIN hist.consumed : hist.consumed[c].uid = u })
                 inq == \E q \in {createQ, recvQ} : \E x \in DOMAIN q : q[x].uid = u
             IN  (got < hist.issued[i].tot) = inq
(* qubit accounting: in use = mapped + reserved by pending keep responses *)
Reserved == { pending[i].phys : i \in { j \in DOMAIN pending : pending[j].type = "K" } }
Accounting == Injective(m) /\ m.used = Mapped(m) \cup Reserved
(* (6) a keep response never overwrites an allocated virtual qubit *)
NoOverwrite == [][ \A v \in DOMAIN m.um : m'.um[v] # m.um[v] => (m.um[v] = None \/ m'.um[v] = None) ]_vars
(* (5) a wait is passed only when the awaited entries are defined (Machine!ExecWaitSlice) *)
WaitSound == [][ (Running /\ Cur.mn \in {"wait_all", "wait_any", "wait_single"} /\ m'.pc = m.pc + 1 /\ pending' = pending /\ createQ' = createQ /\ recvQ' = recvQ)
                  => Exec(m, Cur).status = "run" ]_vars
(* liveness: under fair scheduling the subroutine finishes and nothing stays pending *)
Terminates == <>(m.status \in {"done", "fault", "unspec"} \/ herr)
Drained == <>[](m.status = "done" => pending = << >>)
=============================================================================
