------------------------------- MODULE Pauli -------------------------------
(***************************************************************************)
(* Exact gate algebra without floating point.                              *)
(*                                                                         *)
(* An n-qubit Pauli is [x, z : 1..n -> {0,1}, ph : 0..3] and denotes       *)
(*      i^ph * PROD_k X_k^x[k] Z_k^z[k].                                   *)
(* A circuit is a sequence of PAULI ROTATIONS  exp(-i theta/2 P)  with P a *)
(* Hermitian Pauli and theta a dyadic multiple of pi, held as an integer   *)
(* number of units of pi/2^A (A = 20), modulo 2 pi.                        *)
(*                                                                         *)
(* Normal form of a circuit U (up to global phase):  U = C R_m ... R_1     *)
(*   C   a Clifford, kept as the map D : Q |-> C^dagger Q C on the         *)
(*       generators X_k (D[k]) and Z_k (D[n+k])                            *)
(*   R_j residual rotations (axis, r), 0 < r < pi/2, axes Hermitian with   *)
(*       sign +, expressed in the INITIAL frame, first applied first;      *)
(*       same-axis entries merged, commuting neighbours sorted.            *)
(* Two circuits with equal normal forms are equal up to global phase; the  *)
(* converse holds when each list is a commuting family or has at most one  *)
(* entry (Conclusive).                                                     *)
(***************************************************************************)
EXTENDS Naturals, Integers, Sequences, FiniteSets

CONSTANT NQ                         \* number of qubits
A == 20
UnitPi == 1048576                   \* 2^A units = pi
TwoPi == 2 * UnitPi
HalfPi == UnitPi \div 2
Q == 1..NQ

Zero == [k \in Q |-> 0]
Id == [x |-> Zero, z |-> Zero, ph |-> 0]
Xor(a, b) == (a + b) % 2
Mul(a, b) == [ x |-> [k \in Q |-> Xor(a.x[k], b.x[k])],
               z |-> [k \in Q |-> Xor(a.z[k], b.z[k])],
               ph |-> (a.ph + b.ph + 2 * Cardinality({k \in Q : a.z[k] = 1 /\ b.x[k] = 1})) % 4 ]
Commute(a, b) == (Cardinality({k \in Q : a.x[k] = 1 /\ b.z[k] = 1}) + Cardinality({k \in Q : a.z[k] = 1 /\ b.x[k] = 1})) % 2 = 0
NumY(p) == Cardinality({k \in Q : p.x[k] = 1 /\ p.z[k] = 1})
(* sign of a Hermitian Pauli: +1 if ph = y, -1 if ph = y + 2 (mod 4) *)
IsHerm(p) == (p.ph - NumY(p)) % 2 = 0
Sign(p) == IF (p.ph - NumY(p)) % 4 = 0 THEN 1 ELSE -1
Abs(p) == [p EXCEPT !.ph = NumY(p) % 4]
Neg(p) == [p EXCEPT !.ph = (p.ph + 2) % 4]
TimesI(p) == [p EXCEPT !.ph = (p.ph + 1) % 4]
SameAxis(a, b) == a.x = b.x /\ a.z = b.z

PX(q) == [x |-> [k \in Q |-> IF k = q THEN 1 ELSE 0], z |-> Zero, ph |-> 0]
PZ(q) == [x |-> Zero, z |-> [k \in Q |-> IF k = q THEN 1 ELSE 0], ph |-> 0]
PY(q) == [x |-> [k \in Q |-> IF k = q THEN 1 ELSE 0], z |-> [k \in Q |-> IF k = q THEN 1 ELSE 0], ph |-> 1]
Axis(a, q) == CASE a = "X" -> PX(q) [] a = "Y" -> PY(q) [] a = "Z" -> PZ(q)

(* ---- the Clifford frame ---- *)
IdFrame == [g \in 1..(2 * NQ) |-> IF g <= NQ THEN PX(g) ELSE PZ(g - NQ)]
RECURSIVE ImgFrom(_, _, _)
ImgFrom(D, p, k) == IF k > NQ THEN Id
                    ELSE Mul(Mul(IF p.x[k] = 1 THEN D[k] ELSE Id, IF p.z[k] = 1 THEN D[NQ + k] ELSE Id), ImgFrom(D, p, k + 1))
(* D extended multiplicatively to an arbitrary Pauli (with its phase) *)
Image(D, p) == LET q == ImgFrom(D, p, 1) IN [q EXCEPT !.ph = (q.ph + p.ph) % 4]
(* K^dagger Q K for K = exp(-i k pi/4 ax), ax Hermitian with sign + *)
ConjBy(ax, k, qq) == IF k % 4 = 0 \/ Commute(ax, qq) THEN qq
                     ELSE IF k % 4 = 1 THEN TimesI(Mul(ax, qq))
                     ELSE IF k % 4 = 2 THEN Neg(qq)
                     ELSE Neg(TimesI(Mul(ax, qq)))
FrameAfter(D, ax, k) == [g \in DOMAIN D |-> ConjBy(ax, k, D[g])]

(* ---- residual list: canonical order of axes ---- *)
Code(p) == LET RECURSIVE S(_) S(k) == IF k > NQ THEN 0 ELSE (p.x[k] + 2 * p.z[k]) + 4 * S(k + 1) IN S(1)
InsertAt(s, i, e) == SubSeq(s, 1, i - 1) \o <<e>> \o SubSeq(s, i, Len(s))
DropAt(s, i) == SubSeq(s, 1, i - 1) \o SubSeq(s, i + 1, Len(s))

(* Push residual (ax, r) onto list L (it is applied after all entries of L).        *)
(* Returns [L, k]: the new list and a Clifford exponent k (multiples of pi/2 about   *)
(* ax) that a merge may have split off; the caller moves it into the frame.          *)
RECURSIVE PushAt(_, _, _, _)
PushAt(L, ax, r, i) ==          \* i = index of the entry just left of the candidate slot (scan from the end)
  IF i = 0 THEN [L |-> <<[ax |-> ax, r |-> r]>> \o L, k |-> 0]
  ELSE IF SameAxis(L[i].ax, ax)
       THEN LET tot == L[i].r + r
                k2 == tot \div HalfPi
                r2 == tot % HalfPi
            IN [L |-> IF r2 = 0 THEN DropAt(L, i) ELSE [L EXCEPT ![i].r = r2], k |-> k2]
       ELSE IF Commute(L[i].ax, ax) /\ Code(ax) < Code(L[i].ax)
            THEN LET rest == PushAt(SubSeq(L, 1, i - 1), ax, r, i - 1)
                 IN [L |-> rest.L \o SubSeq(L, i, Len(L)), k |-> rest.k]
            ELSE IF Commute(L[i].ax, ax) /\ \E j \in 1..(i - 1) : SameAxis(L[j].ax, ax) /\ \A m \in j..i : Commute(L[m].ax, ax)
                 THEN LET rest == PushAt(SubSeq(L, 1, i - 1), ax, r, i - 1)
                      IN [L |-> rest.L \o SubSeq(L, i, Len(L)), k |-> rest.k]
                 ELSE [L |-> InsertAt(L, i + 1, [ax |-> ax, r |-> r]), k |-> 0]

NF0 == [D |-> IdFrame, L |-> << >>]
(* apply exp(-i theta/2 P) after the circuit with normal form st; theta in units, any integer *)
ApplyRot(st, P, theta) ==
  LET img == Image(st.D, P)
      s == Sign(img)
      ax == Abs(img)
      th == (((s * theta) % TwoPi) + TwoPi) % TwoPi
      k == th \div HalfPi
      r == th % HalfPi
      pushed == IF r = 0 THEN [L |-> st.L, k |-> 0] ELSE PushAt(st.L, ax, r, Len(st.L))
  IN [D |-> FrameAfter(st.D, ax, k + pushed.k), L |-> pushed.L]

RECURSIVE ApplyAll(_, _)
ApplyAll(st, rots) == IF rots = << >> THEN st ELSE ApplyAll(ApplyRot(st, Head(rots).p, Head(rots).th), Tail(rots))

(* the comparison is exact when the residual rotations pairwise commute (or there is at most one) *)
Conclusive(st) == \A i, j \in DOMAIN st.L : Commute(st.L[i].ax, st.L[j].ax)
=============================================================================
