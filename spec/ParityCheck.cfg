SPECIFICATION Spec
CONSTANT NQ = 4
INVARIANT Verdict
CHECK_DEADLOCK FALSE
