------------------------------- MODULE Angle -------------------------------
(***************************************************************************)
(* Property C19 as an exact fixed-point predicate.  Angles are measured in *)
(* half turns (units of pi) and held as 4 limbs base 2^15:                 *)
(*    <<a1, a2, a3, a4>>  =  a1 + a2/2^15 + a3/2^30 + a4/2^45              *)
(* (TLC integers are 32-bit, so nothing wider than a limb product is ever  *)
(* formed).  A rotation step (n, d) contributes n / 2^d half turns.        *)
(*                                                                         *)
(* Accept(x, tol, steps): every n in 0..255, every d in 0..255, and        *)
(*    | SUM n_i / 2^d_i  -  x |  <=  tol      (distance modulo 2)          *)
(* with x = angle/pi mod 2 and tol = tolerance/pi, both given as limbs by  *)
(* the rig (computed with exact rational arithmetic, error < 2^-45).       *)
(***************************************************************************)
EXTENDS Naturals, Integers, Sequences

B == 32768
ZeroL == <<0, 0, 0, 0>>
(* normalise carries from the least significant limb upwards; limb 1 is kept modulo 2 *)
Norm(a) ==
  LET c4 == a[4] \div B  l4 == a[4] % B
      s3 == a[3] + c4    c3 == s3 \div B  l3 == s3 % B
      s2 == a[2] + c3    c2 == s2 \div B  l2 == s2 % B
      s1 == a[1] + c2
  IN <<s1 % 2, l2, l3, l4>>
Add(a, b) == Norm(<<a[1] + b[1], a[2] + b[2], a[3] + b[3], a[4] + b[4]>>)
Less(a, b) == \/ a[1] < b[1]
              \/ a[1] = b[1] /\ a[2] < b[2]
              \/ a[1] = b[1] /\ a[2] = b[2] /\ a[3] < b[3]
              \/ a[1] = b[1] /\ a[2] = b[2] /\ a[3] = b[3] /\ a[4] < b[4]
Leq(a, b) == a = b \/ Less(a, b)
(* a - b modulo 2 (a, b normalised): add the two's complement *)
Sub(a, b) == Norm(<<a[1] + 2 - b[1] - 1, a[2] + (B - 1) - b[2], a[3] + (B - 1) - b[3], a[4] + B - b[4]>>)
(* distance on the circle of circumference 2 *)
Dist(a, b) == LET d1 == Sub(a, b)  d2 == Sub(b, a) IN IF Less(d1, d2) THEN d1 ELSE d2

(* n / 2^d as limbs; steps finer than 2^-45 are below the resolution *)
Term(n, d) ==
  IF d > 45 THEN ZeroL
  ELSE LET s == 45 - d                 \* value = n * 2^s units of 2^-45
           q == s \div 15   r == s % 15
           v == n * (2 ^ r)            \* < 2^23
           lo == v % B   hi == v \div B
       IN CASE q = 0 -> Norm(<<0, 0, hi, lo>>)
            [] q = 1 -> Norm(<<0, hi, lo, 0>>)
            [] q = 2 -> Norm(<<hi, lo, 0, 0>>)
            [] q = 3 -> Norm(<<lo + B * 0 + hi * B, 0, 0, 0>>)
RECURSIVE Sum(_)
Sum(steps) == IF steps = << >> THEN ZeroL ELSE Add(Term(Head(steps)[1], Head(steps)[2]), Sum(Tail(steps)))

Encodable(steps) == \A i \in DOMAIN steps : steps[i][1] \in 0..255 /\ steps[i][2] \in 0..255
Within(x, tol, steps) == Leq(Dist(Sum(steps), x), tol)
Accept(x, tol, steps) == Encodable(steps) /\ Within(x, tol, steps)
=============================================================================
