------------------------------- MODULE Range -------------------------------
(***************************************************************************)
(* Property C16: an operand the binary format cannot hold must be REJECTED *)
(* by the encoder.  Values outside the 32-bit range cannot be TLC integers *)
(* (TLC integers are 32-bit), so operand values are WIDE integers:         *)
(*   [neg |-> BOOLEAN, limbs |-> little-endian digits base 2^15]           *)
(* with no leading zero limb; zero is [neg |-> FALSE, limbs |-> << >>].    *)
(***************************************************************************)
EXTENDS Naturals, Integers, Sequences

B == 32768
IsWide(w) == /\ w.neg \in BOOLEAN
             /\ \A i \in DOMAIN w.limbs : w.limbs[i] \in 0..(B - 1)
             /\ (w.limbs # << >> => w.limbs[Len(w.limbs)] # 0)
             /\ (w.limbs = << >> => ~w.neg)

RECURSIVE MagCmp(_, _, _)
(* compare magnitudes a, b (same length) from limb k downwards: -1, 0, 1 *)
MagCmp(a, b, k) == IF k = 0 THEN 0
                   ELSE IF a[k] < b[k] THEN -1 ELSE IF a[k] > b[k] THEN 1 ELSE MagCmp(a, b, k - 1)
Cmp(a, b) == IF Len(a) < Len(b) THEN -1 ELSE IF Len(a) > Len(b) THEN 1 ELSE MagCmp(a, b, Len(a))
MagLess(a, b) == Cmp(a, b) = -1
MagLeq(a, b) == Cmp(a, b) <= 0

Two4  == <<16>>
Two8  == <<256>>
Two16 == <<0, 2>>
Two31 == <<0, 0, 2>>

InRange(kind, w) ==
  CASE kind = "reg" -> ~w.neg /\ MagLess(w.limbs, Two4)      \* register INDEX 0..15
    [] kind = "imm" -> ~w.neg /\ MagLess(w.limbs, Two8)      \* 0..255
    [] kind = "int" -> IF w.neg THEN MagLeq(w.limbs, Two31) ELSE MagLess(w.limbs, Two31)
    [] kind = "app" -> ~w.neg /\ MagLess(w.limbs, Two16)     \* 0..65535

(* the only outcomes an encoder may have *)
Outcome(kind, w) == IF InRange(kind, w) THEN "bytes" ELSE "reject"

(* small helpers to write wide constants *)
Nat2W(n) == [neg |-> FALSE,
             limbs |-> IF n = 0 THEN << >> ELSE IF n < B THEN <<n>>
                       ELSE IF n < B * B THEN <<n % B, n \div B>>
                       ELSE <<n % B, (n \div B) % B, n \div (B * B)>>]
Neg(w) == [neg |-> w.limbs # << >>, limbs |-> w.limbs]
(* w + small natural k (k < B), magnitude only, for non-negative w *)
RECURSIVE AddSmall(_, _)
AddSmall(l, k) == IF k = 0 THEN l
                  ELSE IF l = << >> THEN <<k>>
                  ELSE LET s == l[1] + k IN
                       IF s < B THEN <<s>> \o Tail(l) ELSE <<s - B>> \o AddSmall(Tail(l), 1)
Plus(w, k) == [neg |-> FALSE, limbs |-> AddSmall(w.limbs, k)]
Pow2W(e) == \* 2^e as a wide integer
  [neg |-> FALSE, limbs |-> [i \in 1..((e \div 15) + 1) |-> IF i = (e \div 15) + 1 THEN 2 ^ (e % 15) ELSE 0]]
=============================================================================
