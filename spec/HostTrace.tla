----------------------------- MODULE HostTrace -----------------------------
(***************************************************************************)
(* code -> spec for the SDK properties.  A case is a HISTORY of host API   *)
(* calls (statements, flushes, host reads, and for C06 compile /           *)
(* instantiate / commit) that the rig performed on the REAL SDK, real      *)
(* messages, real controller and (rig) executor.  The rig logged, per      *)
(* flush: whether the controller faulted, every controller array, the      *)
(* executed gate/measure log; per read: the value the real handle gave.    *)
(* TLC evaluates the same history with Host!Flush ("executing the program  *)
(* directly") and compares.                                                *)
(***************************************************************************)
EXTENDS Host, TLC, Json, IOUtils

Cases == ndJsonDeserialize(IOEnv.VERIF_TRACES)
VARIABLES id, k, st, pending, nobs, verdict, objs
vars == <<id, k, st, pending, nobs, verdict, objs>>
Case == Cases[id]
Items == Case.items
Obs == Case.obs

(* C06: a template operand of a rotation is written as the negative number -j and stands   *)
(* for the j-th value given at instantiation; Subst fills the values in, at any depth.   *)
RECURSIVE Subst(_, _)
Subst(ss, vals) ==
  [n \in DOMAIN ss |->
     LET s == ss[n] IN
     IF s.s = "gate" THEN [s EXCEPT !.imm = [j \in DOMAIN s.imm |-> IF s.imm[j] < 0 THEN vals[0 - s.imm[j]] ELSE s.imm[j]]]
     ELSE IF s.s \in {"if", "loop", "foreach"} THEN [s EXCEPT !.body = Subst(s.body, vals)]
     ELSE IF s.s = "until" THEN [s EXCEPT !.body = Subst(s.body, vals), !.cleanup = Subst(s.cleanup, vals)]
     ELSE s]

Init == /\ id \in DOMAIN Cases /\ k = 0 /\ pending = << >> /\ nobs = 0 /\ verdict = "running" /\ objs = << >>
        /\ st = [ arrs |-> [a \in { Cases[id].addrs[i] : i \in DOMAIN Cases[id].addrs } |-> NoArr],
                  regs |-> [h \in { Cases[id].handles[i] : i \in DOMAIN Cases[id].handles } |-> Undef],
                  alive |-> {}, glog |-> << >>, meas |-> Cases[id].meas, lv |-> << >>, fault |-> "" ]

ArrProj(s) == [i \in DOMAIN Case.addrs |-> s.arrs[Case.addrs[i]].v]
FlushDiff(s, pre, o) ==
  IF (s.fault # "") # o.fault THEN "controller-fault"
  ELSE IF s.fault # "" THEN ""
  ELSE IF Case.cmpglog /\ SubSeq(s.glog, Len(pre.glog) + 1, Len(s.glog)) # o.glog THEN "gate-or-measurement-log"
  ELSE IF ArrProj(s) # o.arrs THEN "array-contents"
  ELSE ""
ReadVal(s, loc) ==
  IF loc.k = "arr" THEN (IF s.arrs[loc.a].ex THEN s.arrs[loc.a].v ELSE << >>)
  ELSE LET r == Read(s, loc) IN r.v

Next ==
  /\ verdict = "running" /\ k < Len(Items)
  /\ k' = k + 1 /\ UNCHANGED id
  /\ LET it == Items[k + 1] IN
     CASE it.s = "flush" ->
            LET s1 == Flush(st, pending)
                d == FlushDiff(s1, st, Obs[nobs + 1])
            IN /\ st' = s1 /\ pending' = << >> /\ nobs' = nobs + 1 /\ UNCHANGED objs
               /\ verdict' = IF d # "" THEN d
                             ELSE IF s1.fault # "" \/ k + 1 = Len(Items) THEN "ok" ELSE "running"
       [] it.s = "compile" ->
            \* the pending operations become a compiled object; nothing is left pending (as after a flush)
            /\ objs' = Append(objs, pending) /\ pending' = << >> /\ UNCHANGED <<st, nobs>>
            /\ verdict' = IF k + 1 = Len(Items) THEN "ok" ELSE "running"
       [] it.s = "commit" ->
            \* committing an instantiated object = flushing the same operations written with the values
            LET s1 == Flush(st, Subst(objs[it.obj], it.vals))
                d == FlushDiff(s1, st, Obs[nobs + 1])
            IN /\ st' = s1 /\ nobs' = nobs + 1 /\ UNCHANGED <<pending, objs>>
               /\ verdict' = IF d # "" THEN "commit-" \o d
                             ELSE IF s1.fault # "" \/ k + 1 = Len(Items) THEN "ok" ELSE "running"
       [] it.s = "read" ->
            LET want == ReadVal(st, it.loc)
                got == Obs[nobs + 1].v
            IN /\ UNCHANGED <<st, pending, objs>> /\ nobs' = nobs + 1
               /\ verdict' = IF got # want THEN "host-read-" \o it.loc.k
                             ELSE IF k + 1 = Len(Items) THEN "ok" ELSE "running"
       [] OTHER ->
            /\ pending' = Append(pending, it) /\ UNCHANGED <<st, nobs, objs>>
            /\ verdict' = IF k + 1 = Len(Items) THEN "ok" ELSE "running"
Spec == Init /\ [][Next]_vars

Report == verdict \in {"running", "ok"} \/ PrintT(<<"VERDICT", Case.prop, verdict, id, k, st.fault>>)
Done == verdict # "ok" \/ PrintT(<<"OK", id>>)
=============================================================================
