------------------------------ MODULE EprFields ------------------------------
(***************************************************************************)
(* Property C11: EPR requests and results cross the SDK / controller       *)
(* boundary intact.                                                        *)
(*                                                                         *)
(* The path of a request:  application call -> EntRequestParams ->         *)
(* argument array (20 slots) -> executor reads the array -> LinkLayerCreate*)
(* (22 fields) -> network stack -> link-layer interface 1.0 request.       *)
(* The path of a result:  link-layer response i (10 fields) -> executor    *)
(* stores it in slice i of the result array -> the SDK's result objects    *)
(* read single slots of that slice -> application.                         *)
(* The specification says nothing about arrays and slots: it states what   *)
(* arrives at the other end.                                               *)
(*   Expected(p)     the LinkLayerCreate the stack must receive for the    *)
(*                   call parameters p                                     *)
(*   QExpected(p)    the link-layer 1.0 request it must convert to         *)
(*   Source(h)       which field of pair i's response handle h of pair i   *)
(*                   must show                                             *)
(* The trace specification takes one observation per step (one request     *)
(* received by the recording stack, or one result handle read by the       *)
(* application) and compares.                                              *)
(***************************************************************************)
EXTENDS Naturals, Integers, Sequences, FiniteSets, TLC, Json, IOUtils

Cases == ndJsonDeserialize(IOEnv.VERIF_TRACES)

(* pinned: netqasm.qlink_compat *)
TypeCode(tp) == CASE tp = "K" -> 0 [] tp = "M" -> 1 [] tp = "R" -> 2
CreateFields == <<"remote_node_id", "purpose_id", "type", "number", "random_basis_local", "random_basis_remote",
                  "minimum_fidelity", "time_unit", "max_time", "priority", "atomic", "consecutive",
                  "probability_dist_local1", "probability_dist_local2", "probability_dist_remote1", "probability_dist_remote2",
                  "rotation_X_local1", "rotation_Y_local", "rotation_X_local2",
                  "rotation_X_remote1", "rotation_Y_remote", "rotation_X_remote2">>
OKK == <<"type", "create_id", "logical_qubit_id", "directionality_flag", "sequence_number", "purpose_id",
         "remote_node_id", "goodness", "goodness_time", "bell_state">>
OKM == <<"type", "create_id", "measurement_outcome", "measurement_basis", "directionality_flag", "sequence_number",
         "purpose_id", "remote_node_id", "goodness", "bell_state">>
IndexOf(seq, x) == CHOOSE i \in DOMAIN seq : seq[i] = x

(* --- requests ---------------------------------------------------------- *)
(* p: tp number time_unit max_time rot_local rot_remote rb_local rb_remote (-1 = not given) remote_node socket *)
Measured(p) == p.tp \in {"M", "R"}
Given(x) == IF x < 0 THEN 0 ELSE x
(* the named bases as pre-measurement rotations X-Y-X in units of pi/16 (pinned) *)
BasisRot(b) == CASE b = "X" -> <<0, 24, 0>> [] b = "Y" -> <<8, 0, 0>> [] b = "Z" -> <<0, 0, 0>>
                 [] b = "MX" -> <<0, 8, 0>> [] b = "MY" -> <<24, 0, 0>> [] b = "MZ" -> <<16, 0, 0>>
RotL(p) == IF p.basis_local # "" THEN BasisRot(p.basis_local) ELSE p.rot_local
RotR(p) == IF p.basis_remote # "" THEN BasisRot(p.basis_remote) ELSE p.rot_remote
Expected(p) ==
  [f \in { CreateFields[i] : i \in DOMAIN CreateFields } |->
     CASE f = "remote_node_id" -> p.remote_node
       [] f = "purpose_id" -> p.purpose                \* what the network stack answers for (remote node, socket) - an input of the case
       [] f = "type" -> TypeCode(p.tp)
       [] f = "number" -> p.number
       [] f = "random_basis_local" -> IF Measured(p) THEN Given(p.rb_local) ELSE 0
       [] f = "random_basis_remote" -> IF Measured(p) THEN Given(p.rb_remote) ELSE 0
       [] f = "time_unit" -> p.time_unit
       [] f = "max_time" -> p.max_time
       [] f = "rotation_X_local1" -> IF Measured(p) THEN RotL(p)[1] ELSE 0
       [] f = "rotation_Y_local" -> IF Measured(p) THEN RotL(p)[2] ELSE 0
       [] f = "rotation_X_local2" -> IF Measured(p) THEN RotL(p)[3] ELSE 0
       [] f = "rotation_X_remote1" -> IF Measured(p) THEN RotR(p)[1] ELSE 0
       [] f = "rotation_Y_remote" -> IF Measured(p) THEN RotR(p)[2] ELSE 0
       [] f = "rotation_X_remote2" -> IF Measured(p) THEN RotR(p)[3] ELSE 0
       [] OTHER -> 0]
(* without a time limit the unit means nothing *)
Relevant(p, f) == ~(f = "time_unit" /\ p.max_time = 0)

(* link-layer interface 1.0: its field names and the LinkLayerCreate field each must carry *)
QBase == [remote_node_id |-> "remote_node_id", minimum_fidelity |-> "minimum_fidelity", time_unit |-> "time_unit",
          max_time |-> "max_time", purpose_id |-> "purpose_id", number |-> "number", priority |-> "priority",
          atomic |-> "atomic", consecutive |-> "consecutive"]
QLocal == [random_basis_local |-> "random_basis_local",
           x_rotation_angle_local_1 |-> "rotation_X_local1", y_rotation_angle_local |-> "rotation_Y_local",
           x_rotation_angle_local_2 |-> "rotation_X_local2",
           probability_distribution_parameter_local_1 |-> "probability_dist_local1",
           probability_distribution_parameter_local_2 |-> "probability_dist_local2"]
QRemote == [random_basis_remote |-> "random_basis_remote",
            x_rotation_angle_remote_1 |-> "rotation_X_remote1", y_rotation_angle_remote |-> "rotation_Y_remote",
            x_rotation_angle_remote_2 |-> "rotation_X_remote2",
            probability_distribution_parameter_remote_1 |-> "probability_dist_remote1",
            probability_distribution_parameter_remote_2 |-> "probability_dist_remote2"]
Merge(f, g) == [x \in DOMAIN f \cup DOMAIN g |-> IF x \in DOMAIN f THEN f[x] ELSE g[x]]
QMap(tp) == CASE tp = "K" -> QBase [] tp = "M" -> Merge(QBase, Merge(QLocal, QRemote)) [] tp = "R" -> Merge(QBase, QLocal)
QClass(tp) == CASE tp = "K" -> "ReqCreateAndKeep" [] tp = "M" -> "ReqMeasureDirectly" [] tp = "R" -> "ReqRemoteStatePrep"

ReqVerdict1(p, got, ql) ==
  LET e == Expected(p) IN
  IF \E i \in DOMAIN CreateFields : Relevant(p, CreateFields[i]) /\ got[CreateFields[i]] # e[CreateFields[i]]
       THEN "request-field-" \o (LET i == CHOOSE i \in DOMAIN CreateFields : Relevant(p, CreateFields[i]) /\ got[CreateFields[i]] # e[CreateFields[i]] IN CreateFields[i])
  ELSE IF ~ql.ok THEN "link-layer-interface-rejects-the-request"
  ELSE IF ql.cls # QClass(p.tp) THEN "link-layer-request-class"
  ELSE IF DOMAIN ql.fields # DOMAIN QMap(p.tp) THEN "link-layer-request-fields"
  ELSE IF \E q \in DOMAIN QMap(p.tp) : Relevant(p, QMap(p.tp)[q]) /\ ql.fields[q] # e[QMap(p.tp)[q]]
       THEN "link-layer-field-" \o (CHOOSE q \in DOMAIN QMap(p.tp) : Relevant(p, QMap(p.tp)[q]) /\ ql.fields[q] # e[QMap(p.tp)[q]])
  ELSE "ok"
(* one subroutine may put several requests; the stack must have received them in program order *)
ReqVerdict(c) ==
  IF c.err # "" THEN "sdk-raises"
  ELSE IF c.nreq # Len(c.ps) THEN "stack-did-not-receive-one-request-per-call"
  \* every (socket id, remote node) the application uses was opened at the stack when the connection was set up
  ELSE IF \E i \in DOMAIN c.ps : ~\E j \in DOMAIN c.opened : c.opened[j] = <<c.ps[i].socket, c.ps[i].remote_node>> THEN "socket-not-opened-at-the-stack"
  ELSE IF \E i \in DOMAIN c.ps : ReqVerdict1(c.ps[i], c.gots[i], c.qlinks[i]) # "ok"
       THEN LET i == CHOOSE i \in DOMAIN c.ps : ReqVerdict1(c.ps[i], c.gots[i], c.qlinks[i]) # "ok" /\ \A j \in 1..(i - 1) : ReqVerdict1(c.ps[j], c.gots[j], c.qlinks[j]) = "ok"
            IN ReqVerdict1(c.ps[i], c.gots[i], c.qlinks[i])
  ELSE "ok"

(* --- results ----------------------------------------------------------- *)
(* which response field a handle of the application shows *)
Source(h) ==
  CASE h = "keep.qubit_id" -> "logical_qubit_id"
    [] h = "keep.remote_node_id" -> "remote_node_id"
    [] h = "keep.generation_duration" -> "goodness"
    [] h = "keep.raw_bell_state" -> "bell_state"
    [] h = "keep.bell_state" -> "bell_state"
    [] h = "meas.raw_measurement_outcome" -> "measurement_outcome"
    [] h = "meas.remote_node_id" -> "remote_node_id"
    [] h = "meas.generation_duration" -> "goodness"
    [] h = "meas.raw_bell_state" -> "bell_state"
    [] h = "meas.bell_state" -> "bell_state"
    [] h = "qubit.physical" -> "logical_qubit_id"          \* qubit i IS the qubit pair i was delivered on
    [] h = "ent.type" -> "type"  [] h = "ent.create_id" -> "create_id" [] h = "ent.logical_qubit_id" -> "logical_qubit_id"
    [] h = "ent.directionality_flag" -> "directionality_flag" [] h = "ent.sequence_number" -> "sequence_number"
    [] h = "ent.purpose_id" -> "purpose_id" [] h = "ent.remote_node_id" -> "remote_node_id" [] h = "ent.goodness" -> "goodness"
    [] h = "ent.goodness_time" -> "goodness_time" [] h = "ent.bell_state" -> "bell_state"
    [] h = "raw.measurement_outcome" -> "measurement_outcome" [] h = "raw.measurement_basis" -> "measurement_basis"
Layout(kind) == IF kind = "K" THEN OKK ELSE OKM
Want(c, o) == c.responses[o.req + 1][o.pair + 1][IndexOf(Layout(c.kinds[o.req + 1]), Source(o.h))]

VARIABLES id, k, verdict
vars == <<id, k, verdict>>
Case == Cases[id]
Init == id \in DOMAIN Cases /\ k = 0 /\ verdict = "running"

ReqNext ==
  /\ Case.kind = "req" /\ verdict = "running" /\ k = 0
  /\ k' = 1 /\ verdict' = ReqVerdict(Case) /\ UNCHANGED id
(* one handle read per step *)
ResNext ==
  /\ Case.kind = "res" /\ verdict = "running" /\ k <= Len(Case.obs)
  /\ k' = k + 1 /\ UNCHANGED id
  /\ verdict' = IF Case.err # "" THEN "sdk-raises"
                ELSE IF Case.fault THEN "controller-fault"
                ELSE IF k = Len(Case.obs) THEN "ok"
                ELSE LET o == Case.obs[k + 1] IN
                     \* the subroutine ended although the link layer never got to deliver this pair's response
                     IF o.pair + 1 > Len(Case.responses[o.req + 1]) THEN "handle-of-a-pair-whose-response-was-never-taken"
                     ELSE IF o.v # Want(Case, o) THEN "handle-" \o o.h ELSE "running"
Next == ReqNext \/ ResNext
Spec == Init /\ [][Next]_vars
Report == verdict \in {"running", "ok"} \/ PrintT(<<"VERDICT", "C11", verdict, id, k, "">>)
Done == verdict # "ok" \/ PrintT(<<"OK", id>>)
=============================================================================
