SPECIFICATION Spec
INVARIANT LengthInv
INVARIANT BytesInv
INVARIANT StreamInv
INVARIANT FramingInv
INVARIANT CodecInv
INVARIANT RoundTripVerdict
CHECK_DEADLOCK FALSE
