INIT Init
NEXT Next
CONSTANT NQ = 2
