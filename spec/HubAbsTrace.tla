---------------------------- MODULE HubAbsTrace ----------------------------
(***************************************************************************)
(* code -> spec for C18 at the level of the property.  A trace is the      *)
(* API-level history of one schedule of the REAL threads: call and return  *)
(* events (with arguments and results) and callback invocations, in the    *)
(* total order of the deterministic scheduler, plus the final content of   *)
(* the real queues.  TLC looks for linearization points: between a call    *)
(* and its return the internal step Lin(t) may be taken; the history is    *)
(* accepted iff some placement explains every result.                      *)
(***************************************************************************)
EXTENDS HubAbs, TLC, Json, IOUtils

Traces == ndJsonDeserialize(IOEnv.VERIF_TRACES)
PeerDef == <<2, 1, 4, 3>>
Threads == 1..4

VARIABLES id, l, call, expect,
          got      \* [Keys -> Seq(msg)] what the receive callback of the key's owner has been handed so far (history)
vars == <<chan, open, ever, cbmode, id, l, call, expect, got>>
Tr == Traces[id].events
Eps == Traces[id].endpoints          \* thread -> [key, cb]
KeyOf(t) == Eps[t].key
Idle == [op |-> "", arg |-> "", st |-> "idle", res |-> "", conn |-> FALSE]

Init == AInit /\ id \in DOMAIN Traces /\ l = 1
        /\ call = [t \in Threads |-> Idle] /\ expect = [t \in Threads |-> << >>]
        /\ got = [k \in Keys |-> << >>]
RECURSIVE Joined(_)
Joined(s) == IF s = << >> THEN "" ELSE Head(s) \o "|" \o Joined(Tail(s))

Ev == Tr[l]
TCall == /\ l <= Len(Tr) /\ Ev.ev = "call" /\ call[Ev.t].st = "idle"
         /\ call' = [call EXCEPT ![Ev.t] = [op |-> Ev.op, arg |-> Ev.arg, st |-> "called", res |-> "",
                                              conn |-> Connected(KeyOf(Ev.t))]]
         /\ l' = l + 1 /\ UNCHANGED <<avars, id, expect, got>>
TRet == /\ l <= Len(Tr) /\ Ev.ev = "ret"
        /\ call[Ev.t].st = "lin" /\ call[Ev.t].res = Ev.res /\ expect[Ev.t] = << >>
        /\ call' = [call EXCEPT ![Ev.t] = Idle]
        /\ l' = l + 1 /\ UNCHANGED <<avars, id, expect, got>>
TCb == /\ l <= Len(Tr) /\ Ev.ev = "cb"
       /\ expect[Ev.t] = <<Ev.key, Ev.msg>>
       /\ expect' = [expect EXCEPT ![Ev.t] = << >>]
       /\ got' = [got EXCEPT ![Ev.key] = Append(@, Ev.msg)]
       /\ l' = l + 1 /\ UNCHANGED <<avars, id, call>>

Done(t, res) == call' = [call EXCEPT ![t].st = "lin", ![t].res = res]
Lin(t) ==
  LET c == call[t]  k == KeyOf(t) IN
  /\ c.st \in {"called", "announced", "b1", "b2", "b3"} /\ UNCHANGED <<id, l, got>>
  /\ CASE c.op = "connect" /\ c.st = "called" ->
            Announce(k, Eps[t].cb) /\ call' = [call EXCEPT ![t].st = "announced"] /\ UNCHANGED expect
       [] c.op = "connect" /\ c.st = "announced" ->
            CanSeePeer(k) /\ Done(t, "ok") /\ UNCHANGED <<avars, expect>>
       \* a second, plain socket with the same key (the endpoint closed its first one); the use_callbacks attribute of a
       \* connected socket is only a flag
       [] c.op = "connectp" /\ c.st = "called" ->
            Announce(k, FALSE) /\ call' = [call EXCEPT ![t].st = "announced"] /\ UNCHANGED expect
       [] c.op = "connectp" /\ c.st = "announced" ->
            CanSeePeer(k) /\ Done(t, "ok") /\ UNCHANGED <<avars, expect>>
       [] c.op = "cbflag" /\ c.st = "called" ->
            Done(t, "ok") /\ UNCHANGED <<avars, expect>>
       [] c.op = "send" /\ c.st = "called" /\ c.conn /\ ~Connected(k) /\ k \in open ->
            \* the peer left while this send was in progress: the message may still be accepted
            \* (it is queued for an endpoint that no longer reads) or refused
            \/ /\ chan' = [chan EXCEPT ![Peer[k]] = Append(@, c.arg)] /\ UNCHANGED <<open, ever, cbmode>>
               /\ Done(t, "ok") /\ UNCHANGED expect
            \/ UNCHANGED avars /\ Done(t, "<connerr>") /\ UNCHANGED expect
       [] c.op = "send" /\ c.st = "called" /\ ~(c.conn /\ ~Connected(k) /\ k \in open) ->
            /\ Send(k, c.arg)
            /\ Done(t, IF SendOutcome(k) = "connerr" THEN "<connerr>" ELSE "ok")
            /\ expect' = IF SendOutcome(k) = "callback" THEN [expect EXCEPT ![t] = <<Peer[k], c.arg>>] ELSE expect
       [] c.op = "recv" /\ c.st = "called" ->
            Recv(k) /\ Done(t, Head(chan[k])) /\ UNCHANGED expect
       [] c.op = "recvnb" /\ c.st = "called" ->
            \/ Recv(k) /\ Done(t, Head(chan[k])) /\ UNCHANGED expect
            \/ RecvNBEmpty(k) /\ Done(t, "<empty>") /\ UNCHANGED expect
       \* a broadcast channel owns one socket per listed remote (Eps[t].keys, two of them): its constructor connects
       \* them one after the other; its receive takes the head of ONE of its channels and says which
       [] c.op = "bconnect" /\ c.st = "called" ->
            Announce(Eps[t].keys[1], FALSE) /\ call' = [call EXCEPT ![t].st = "b1"] /\ UNCHANGED expect
       [] c.op = "bconnect" /\ c.st = "b1" ->
            CanSeePeer(Eps[t].keys[1]) /\ call' = [call EXCEPT ![t].st = "b2"] /\ UNCHANGED <<avars, expect>>
       [] c.op = "bconnect" /\ c.st = "b2" ->
            Announce(Eps[t].keys[2], FALSE) /\ call' = [call EXCEPT ![t].st = "b3"] /\ UNCHANGED expect
       [] c.op = "bconnect" /\ c.st = "b3" ->
            CanSeePeer(Eps[t].keys[2]) /\ Done(t, "ok") /\ UNCHANGED <<avars, expect>>
       [] c.op = "brecv" /\ c.st = "called" ->
            \E i \in 1..2 : Recv(Eps[t].keys[i]) /\ Done(t, ToString(i) \o ":" \o Head(chan[Eps[t].keys[i]])) /\ UNCHANGED expect
       \* a storing socket (the package's callback socket that keeps what it is handed): what it holds is what ITS callback
       \* was handed, in that order
       [] c.op = "stored" /\ c.st = "called" ->
            Done(t, Joined(got[k])) /\ UNCHANGED <<avars, expect>>
       [] c.op = "disconnect" /\ c.st = "called" ->
            Disconnect(k) /\ Done(t, "ok") /\ UNCHANGED expect
       [] OTHER -> FALSE
TReset == /\ l <= Len(Tr) /\ Ev.ev = "reset" /\ \A t \in Threads : call[t].st = "idle"
          /\ Reset /\ l' = l + 1 /\ UNCHANGED <<id, call, expect, got>>
Next == TCall \/ TRet \/ TCb \/ TReset \/ \E t \in Threads : Lin(t)
Spec == Init /\ [][Next]_vars

(* at the end of a COMPLETE run the real queues hold exactly what the abstract channels hold *)
EndOK == \/ ~Traces[id].complete
         \/ \A k \in Keys : chan[k] = Traces[id].queues[k]
Accepted == l > Len(Tr) /\ EndOK
Report == ~Accepted \/ PrintT(<<"ACCEPT", id>>)
(* how far could the history be explained (for diagnosis) *)
Progress == PrintT(<<"AT", id, l>>) \/ TRUE
=============================================================================
