SPECIFICATION Spec
INVARIANT Fifo
INVARIANT Conservation
INVARIANT NoStranding
INVARIANT LockSane
INVARIANT ExportOutcome
PROPERTY Terminates
CHECK_DEADLOCK FALSE
