------------------------------- MODULE EprOps -------------------------------
(***************************************************************************)
(* Property C14, entanglement operations.  A long sequence of COMPLETED    *)
(* EPR operations of one kind on one connection, with a flush every k-th   *)
(* operation.  The specification states what a completed operation leaves  *)
(* behind: nothing.  Per operation kind it knows how many requests go to   *)
(* the network stack and how many pairs are delivered to this node's       *)
(* qubits; after every flush the totals must be exactly those of the       *)
(* operations completed so far, no qubit handle may be left active, and    *)
(* neither the SDK nor the controller may have refused anything - in       *)
(* particular not for lack of registers.                                   *)
(***************************************************************************)
EXTENDS Naturals, Sequences, TLC, Json, IOUtils
Cases == ndJsonDeserialize(IOEnv.VERIF_TRACES)

(* <<requests put on the stack, pairs delivered onto qubits>> per completed operation *)
Effect(kind) ==
  CASE kind = "create_keep" -> <<1, 1>>      [] kind = "create_keep_with_info" -> <<1, 1>>
    [] kind = "recv_keep" -> <<0, 1>>        [] kind = "create_keep_sequential" -> <<1, 2>>
    [] kind = "recv_keep_sequential" -> <<0, 2>> [] kind = "create_context" -> <<1, 2>>
    [] kind = "recv_context" -> <<0, 2>>     [] kind = "create_measure" -> <<1, 0>>
    [] kind = "recv_measure" -> <<0, 0>>     [] kind = "create_rsp" -> <<1, 0>>
    [] kind = "recv_rsp" -> <<0, 1>>         [] kind = "post_keep_then_measure" -> <<1, 2>>
    [] kind = "sequential_in_loop" -> <<2, 2>>
    [] kind = "create_keep_min_fidelity" -> <<1, 1>>  [] kind = "recv_keep_min_fidelity" -> <<0, 1>>  [] kind = "array_undefine" -> <<0, 0>>
    [] kind = "create_context_refused_body" -> <<1, 2>>  [] kind = "recv_context_refused_body" -> <<0, 2>>

VARIABLES id, k, done, verdict
vars == <<id, k, done, verdict>>
Case == Cases[id]
Init == id \in DOMAIN Cases /\ k = 0 /\ done = 0 /\ verdict = "running"
Ev == Case.events[k + 1]

Op ==   \* one completed operation
  /\ Ev.a = "op" /\ done' = done + 1
  /\ verdict' = IF Ev.err = "" THEN "running"
                ELSE IF Ev.resource THEN "runs-out-of-registers" ELSE "sdk-raises-while-building"
Flush ==
  /\ Ev.a = "flush" /\ done' = done
  /\ verdict' = IF Ev.err # "" THEN (IF Ev.resource THEN "runs-out-of-registers" ELSE "sdk-raises-while-building")
                ELSE IF Ev.fault THEN "controller-fault"
                ELSE IF Ev.requests # done * Effect(Case.kind)[1] THEN "number-of-requests"
                ELSE IF Ev.pairs # done * Effect(Case.kind)[2] THEN "number-of-delivered-pairs"
                ELSE IF Ev.active # 0 THEN "qubit-handle-left-active"
                ELSE "running"
Next ==
  /\ verdict = "running" /\ k <= Len(Case.events) /\ UNCHANGED id /\ k' = k + 1
  /\ IF k = Len(Case.events) THEN verdict' = "ok" /\ done' = done ELSE (Op \/ Flush)
Spec == Init /\ [][Next]_vars
Report == verdict \in {"running", "ok"} \/ PrintT(<<"VERDICT", "C14", verdict, id, k, "">>)
Done == verdict # "ok" \/ PrintT(<<"OK", id>>)
=============================================================================
