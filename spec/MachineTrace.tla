---------------------------- MODULE MachineTrace ----------------------------
(***************************************************************************)
(* code -> spec for C04.  Each record of IOEnv.VERIF_TRACES is one CASE:   *)
(* an application (unit-module size, measurement script) and several       *)
(* subroutines executed one after the other by the REAL executor, which    *)
(* was stepped one instruction at a time; after every step the rig logged  *)
(* the projection of the real state.  TLC replays the case as a behaviour  *)
(* of Machine: step k must be a Machine step AND lead to the logged state. *)
(* The verdict is total: the first step at which the real state leaves the *)
(* specification is printed with the name of the differing component.      *)
(***************************************************************************)
EXTENDS Machine, TLC, Json, IOUtils

Cases == ndJsonDeserialize(IOEnv.VERIF_TRACES)

VARIABLES id, k, m, sub, verdict
vars == <<id, k, m, sub, verdict>>
Case == Cases[id]
Steps == Case.steps
AddrSet == { Case.addrs[i] : i \in DOMAIN Case.addrs }

Init == /\ id \in DOMAIN Cases /\ k = 0 /\ sub = 0 /\ verdict = "running"
        /\ m = NewMachine({ Cases[id].addrs[i] : i \in DOMAIN Cases[id].addrs }, Cases[id].umsize, Cases[id].meas)

(* projection of the spec state onto what the rig logs *)
Proj(mm) ==
  [ regs   |-> [i \in DOMAIN Case.regset |-> mm.regs[Case.regset[i]]],
    shregs |-> [i \in DOMAIN Case.regset |-> mm.shregs[Case.regset[i]]],
    arrs   |-> [i \in DOMAIN Case.addrs |-> [ex |-> mm.arrs[Case.addrs[i]].ex, v |-> mm.arrs[Case.addrs[i]].v]],
    sharrs |-> [i \in DOMAIN Case.addrs |-> [ex |-> mm.sharrs[Case.addrs[i]].ex, v |-> mm.sharrs[Case.addrs[i]].v]],
    um     |-> mm.um,
    used   |-> mm.used,
    pc     |-> mm.pc,
    status |-> mm.status,
    fline  |-> mm.fline ]
Logged(p) == [p EXCEPT !.used = { p.used[i] : i \in DOMAIN p.used }]

Diff(a, b) ==
  IF a.status # b.status THEN "status"
  ELSE IF a.pc # b.pc THEN "pc"
  ELSE IF a.fline # b.fline THEN "fault-line"
  ELSE IF a.regs # b.regs THEN "registers"
  ELSE IF a.arrs # b.arrs THEN "arrays"
  ELSE IF a.shregs # b.shregs THEN "shared-registers"
  ELSE IF a.sharrs # b.sharrs THEN "shared-arrays"
  ELSE IF a.um # b.um THEN "unit-module"
  ELSE IF a.used # b.used THEN "used-physical-qubits"
  ELSE ""

Next ==
  /\ verdict = "running" /\ k < Len(Steps)
  /\ LET st == Steps[k + 1]
         nm == IF st.kind = "start" THEN StartSub(m) ELSE StepSub(m, Case.progs[st.sub])
         d  == IF nm.status = "unspec" THEN "" ELSE Diff(Proj(nm), Logged(st.post))
     IN  /\ m' = nm /\ k' = k + 1 /\ sub' = st.sub /\ UNCHANGED id
         /\ verdict' = IF nm.status = "unspec" THEN "unspecified"
                       ELSE IF st.stray # "" THEN "stray:" \o st.stray
                       ELSE IF d # "" THEN d
                       ELSE IF k + 1 = Len(Steps) THEN "ok" ELSE "running"
Spec == Init /\ [][Next]_vars

(* the machine's own invariants hold along every validated behaviour *)
QubitInv == Injective(m) /\ UsedIsMapped(m)
Report == verdict \in {"running", "ok"} \/
          PrintT(<<"VERDICT", "C04", verdict, id, k, IF verdict = "unspecified" THEN m.fkind ELSE m.status>>)
Done == verdict # "ok" \/ PrintT(<<"OK", id>>)
=============================================================================
