------------------------------- MODULE MsgMC -------------------------------
(***************************************************************************)
(* C15 model: TLC enumerates the message universe (every type, boundary    *)
(* values per field, arrays of length 0..4 with every pattern of undefined *)
(* entries), exports it for replay on the real bytes()/deserialize_*, and  *)
(* explores the channel for every message (and every pair of messages in   *)
(* thorough mode, for framing).                                            *)
(***************************************************************************)
EXTENDS Msg, TLC, Json, IOUtils, SequencesExt

Mode == IOEnv.VERIF_MODE

U32B == {<<0,0>>, <<0,1>>, <<0,255>>, <<0,256>>, <<0,65535>>, <<1,0>>, <<1,1>>, <<255,65535>>, <<32767,65535>>, <<32768,0>>, <<65535,65535>>}
U8B == {0, 1, 2, 100, 127, 128, 254, 255}
I32B == {0, 1, -1, 2, 255, 256, 65535, 65536, MaxI, MinI, MaxI - 1, MinI + 1, 16909060, -16909060}
OptB == {Undef, Def(0), Def(1), Def(-1), Def(MaxI), Def(MinI)}
Regs == 0..63

Base == [ app_id |-> <<2, 3>>, max_qubits |-> 5, epr_socket_id |-> 7, remote_node_id |-> 11,
          remote_epr_socket_id |-> 13, min_fidelity |-> 17, signal |-> 0, msg_id |-> <<19, 23>>,
          err_code |-> 1, register |-> 29, value |-> 31, address |-> 37 ]

InitNewApps == { [t |-> "InitNewApp", app_id |-> a, max_qubits |-> Base.max_qubits] : a \in U32B } \cup
               { [t |-> "InitNewApp", app_id |-> Base.app_id, max_qubits |-> q] : q \in U8B }
OpenSockets ==
  LET B == [t |-> "OpenEPRSocket", app_id |-> Base.app_id, epr_socket_id |-> Base.epr_socket_id,
            remote_node_id |-> Base.remote_node_id, remote_epr_socket_id |-> Base.remote_epr_socket_id,
            min_fidelity |-> Base.min_fidelity] IN
  { [B EXCEPT !.app_id = a] : a \in U32B } \cup { [B EXCEPT !.epr_socket_id = x] : x \in I32B } \cup
  { [B EXCEPT !.remote_node_id = x] : x \in I32B } \cup { [B EXCEPT !.remote_epr_socket_id = x] : x \in I32B } \cup
  { [B EXCEPT !.min_fidelity = x] : x \in U8B }
Payloads == { << >>, <<0, 1, 0, 0>>, <<0, 0, 255, 255, 4, 0, 5, 0, 0, 0, 0>>, <<2, 2, 2, 2, 2, 2, 2>>, <<255>> }
Subroutines == { [t |-> "Subroutine", payload |-> p] : p \in Payloads }
StopApps == { [t |-> "StopApp", app_id |-> a] : a \in U32B }
Signals == { [t |-> "Signal", signal |-> 0] }
Dones == { [t |-> "Done", msg_id |-> a] : a \in U32B }
Errors == { [t |-> "Error", err_code |-> c] : c \in {0, 1, 2} }
RetRegs == { [t |-> "ReturnReg", register |-> r, value |-> Base.value] : r \in Regs } \cup
           { [t |-> "ReturnReg", register |-> Base.register, value |-> x] : x \in I32B }
ArrVals == UNION { [1..n -> OptB] : n \in 0..(IF Mode = "thorough" THEN 4 ELSE 3) }
RetArrs == { [t |-> "ReturnArray", address |-> Base.address, values |-> v] : v \in ArrVals } \cup
           { [t |-> "ReturnArray", address |-> x, values |-> <<Undef, Def(5), Undef, Def(0)>>] : x \in I32B }

Universe == SetToSeq(InitNewApps \cup OpenSockets \cup Subroutines \cup StopApps \cup Signals \cup
                     Dones \cup Errors \cup RetRegs \cup RetArrs)
ASSUME \A n \in DOMAIN Universe : WellFormed(Universe[n])
ASSUME PrintT(<<"EXPORT", "messages", Len(Universe)>>)
ASSUME ndJsonSerialize(IOEnv.VERIF_OUT, [n \in DOMAIN Universe |-> [id |-> n, m |-> Universe[n]]])

VARIABLE ids     \* which universe entries were sent (so the state names the replayed case)
vars == <<sent, inflight, received, ids>>
MaxSends == IF Mode = "thorough" THEN 2 ELSE 1
Init == ChanInit /\ ids = << >>
SendN == \E n \in DOMAIN Universe :
           /\ Len(sent) < MaxSends
           /\ (Len(sent) = 1 => (n % 37 = ids[1] % 37))      \* pairs: a slice of the square
           /\ Send(Universe[n]) /\ ids' = Append(ids, n)
Del == Deliver /\ UNCHANGED ids
Next == SendN \/ Del
Spec == Init /\ [][Next]_vars
IntactInv == Intact
FifoInv == Len(sent) = Len(received) + Len(inflight)
=============================================================================
