---------------------------- MODULE ParityCheck ----------------------------
(***************************************************************************)
(* C20, parity_meas: the executed gate/measure log of toolbox.parity_meas  *)
(* for a signed Pauli string +-P over data qubits 1..n (qubit NQ = the     *)
(* ancilla, prepared in |0>, when one is used).  With `pre` the gates      *)
(* before the measurement, `post` the gates after it and qubit m the       *)
(* measured one:                                                           *)
(*  (a) the measured observable, pulled back through `pre`, is exactly     *)
(*      +P on the data qubits (times Z on the |0> ancilla);                *)
(*  (b) pre followed by post leaves every data operator that commutes with *)
(*      P unchanged and gives the others at most an ancilla-X factor:      *)
(*      the post-measurement state is the projected state, nothing else;   *)
(*  (c) no residual (non-Clifford) rotation is applied;                    *)
(*  (d) the returned bit is outcome XOR [leading minus] (checked by rig);  *)
(*  (e) the only physical qubit the backend is asked to reset afterwards   *)
(*      (`cleared`) is the measured ancilla.                               *)
(***************************************************************************)
EXTENDS Gates, TLC, Json, IOUtils
Cases == ndJsonDeserialize(IOEnv.VERIF_TRACES)
VARIABLES id, stage
vars == <<id, stage>>
Init == id \in DOMAIN Cases /\ stage = "in"
Check == stage = "in" /\ stage' = "out" /\ UNCHANGED id
Spec == Init /\ [][Check]_vars
C == Cases[id]
Letter(k) == C.letters[k]                     \* "I" "X" "Y" "Z" for data qubit k
RECURSIVE Str(_)
Str(k) == IF k > Len(C.letters) THEN Id
          ELSE Mul(CASE Letter(k) = "X" -> PX(k) [] Letter(k) = "Y" -> PY(k) [] Letter(k) = "Z" -> PZ(k) [] OTHER -> Id, Str(k + 1))
P == Str(1)
Anc == NQ
UsesAnc == C.meas_qubit = Anc
Pre == NormalForm(C.pre)
Tot == NormalForm(C.pre \o C.post)
Measured == Image(Pre.D, PZ(C.meas_qubit))
Expected == IF UsesAnc THEN Mul(P, PZ(Anc)) ELSE P
DataGens == { PX(k) : k \in 1..Len(C.letters) } \cup { PZ(k) : k \in 1..Len(C.letters) }
GenImage(g) == Image(Tot.D, g)
PostOK == \A g \in DataGens :
            IF Commute(g, P) THEN GenImage(g) = g
            ELSE GenImage(g) = g \/ (UsesAnc /\ GenImage(g) = Mul(g, PX(Anc)))
Verdict == stage # "out" \/
  IF Pre.L # << >> \/ Tot.L # << >> THEN PrintT(<<"VERDICT", "C20", "non-clifford-rotation-in-parity-measurement", id>>)
  ELSE IF Measured # Expected THEN PrintT(<<"VERDICT", "C20", IF Abs(Measured) = Abs(Expected) THEN "measured-observable-has-wrong-sign" ELSE "measures-a-different-observable", id>>)
  ELSE IF ~PostOK THEN PrintT(<<"VERDICT", "C20", "post-measurement-state-disturbed", id>>)
  ELSE IF \E i \in DOMAIN C.cleared : C.cleared[i] # C.meas_qubit THEN PrintT(<<"VERDICT", "C20", "resets-a-qubit-that-was-not-measured", id>>)
  ELSE PrintT(<<"OK", id>>)
=============================================================================
