SPECIFICATION Spec
INVARIANT BytesVerdict
INVARIANT DecodedVerdict
CHECK_DEADLOCK FALSE
