----------------------------- MODULE Controller -----------------------------
(***************************************************************************)
(* The quantum node controller (property C13): application lifecycle       *)
(* (register / stop / register again), the global pool of physical qubits, *)
(* subroutines of several applications interleaved at instruction grain,   *)
(* keep responses of the link layer.                                       *)
(*                                                                         *)
(* Every application has its own Machine record (registers, arrays,        *)
(* shared memory, unit module); the set of physical qubits in use is       *)
(* global.  An application runs subroutines from a small library; at most  *)
(* one keep request (one pair, purpose id = app id) is outstanding per     *)
(* application, which is all the qubit-accounting property needs from the  *)
(* entanglement machinery (its queue discipline is Epr.tla's business).    *)
(***************************************************************************)
EXTENDS Machine, TLC

CONSTANTS AppIds,        \* e.g. {0, 1}
          UMSizes,       \* e.g. {1, 2}
          MaxDepth       \* bound on TLCGet("level") for exhaustive exploration

I(mn, ops) == [mn |-> mn, ops |-> ops]
R0 == 0  R1 == 1  R2 == 2  R3 == 3  R4 == 4  C0 == 16  C1 == 17  Q0 == 32  Q1 == 33
(* address plan of the library programs: @0 data, @1 qubit ids, @2 create args, @3 results *)
Lib(a) ==
  [ alloc0  |-> << I("qalloc", <<Q0>>) >>,
    alloc1  |-> << I("qalloc", <<Q1>>) >>,
    free0   |-> << I("qfree", <<Q0>>) >>,
    free1   |-> << I("qfree", <<Q1>>) >>,
    write   |-> << I("set", <<R0, 10 + a>>), I("set", <<R1, 1>>), I("array", <<R1, 0>>), I("set", <<R2, 0>>),
                   I("store", <<R0, 0, R2>>), I("ret_reg", <<R0>>), I("ret_arr", <<0>>) >>,
    bump    |-> << I("set", <<R3, 1>>), I("add", <<R0, R0, R3>>) >>,
    gates   |-> << I("h", <<Q0>>), I("h", <<Q1>>) >>,          \* (faults at the first virtual qubit that is not allocated)
    keep1   |-> << I("array", <<C1, 3>>), I("create_epr", <<5, 6, 7, 8, 9>>), I("wait_all", <<3, C0, C1>>) >>,
    keepfree|-> << I("array", <<C1, 3>>), I("create_epr", <<5, 6, 7, 8, 9>>), I("qfree", <<Q1>>), I("wait_all", <<3, C0, C1>>) >> ]
ProgNames == {"alloc0", "alloc1", "free0", "free1", "write", "bump", "gates", "keep1", "keepfree"}
Addrs == {0, 1, 2, 3}

NoApp == [NewMachine(Addrs, 0, << >>) EXCEPT !.status = "noapp"]
(* a freshly registered application, after the rig's set-up subroutine: registers and *)
(* arrays that the keep1 program needs (remote 1, socket a, @1 = <<1>>, @2 = create args) *)
FreshApp(a, n) ==
  LET m0 == NewMachine(Addrs, n, <<1, 0, 1, 0>>)
      args == [j \in 1..20 |-> IF j = 1 THEN Def(0) ELSE IF j = 2 THEN Def(1) ELSE Undef]
      pre == (5 :> 1) @@ (6 :> a) @@ (7 :> 1) @@ (8 :> 2) @@ (9 :> 3) @@ (C0 :> 0) @@ (C1 :> 10) @@ (Q0 :> 0) @@ (Q1 :> 1)
  IN [m0 EXCEPT !.regs = [r \in RegDom |-> IF r \in DOMAIN pre THEN Def(pre[r]) ELSE Undef],
                !.arrs = [x \in Addrs |-> IF x = 1 THEN [ex |-> TRUE, v |-> <<Def(1)>>]
                                         ELSE IF x = 2 THEN [ex |-> TRUE, v |-> args] ELSE NoArray]]
NoSub == [name |-> "", active |-> FALSE]
NoReq == [has |-> FALSE, virt |-> 0, res |-> 0]

VARIABLES apps,   \* registered application ids
          ms,     \* [AppIds -> Machine record]  (m.used is not used here; see `used`)
          used,   \* physical qubits in use, global
          subs,   \* [AppIds -> [name, active]] the subroutine an application is executing
          reqs,   \* [AppIds -> outstanding keep request]
          pend,   \* <<[app, phys]>> keep responses that arrived and wait for their virtual qubit
          last    \* [act, apps] the last action and the applications it is allowed to touch
vars == <<apps, ms, used, subs, reqs, pend, last>>

Init == /\ apps = {} /\ ms = [a \in AppIds |-> NoApp] /\ used = {}
        /\ subs = [a \in AppIds |-> NoSub] /\ reqs = [a \in AppIds |-> NoReq]
        /\ pend = << >> /\ last = [act |-> "init", apps |-> {}]

MappedOf(a) == Mapped(ms[a])
AllMapped == UNION { MappedOf(a) : a \in AppIds }
ReservedSet == { pend[i].phys : i \in DOMAIN pend }

InitApp(a, n) ==
  /\ a \notin apps
  /\ apps' = apps \cup {a}
  /\ ms' = [ms EXCEPT ![a] = FreshApp(a, n)]
  /\ subs' = [subs EXCEPT ![a] = NoSub] /\ reqs' = [reqs EXCEPT ![a] = NoReq]
  /\ last' = [act |-> "InitApp", apps |-> {a}]
  /\ UNCHANGED <<used, pend>>

(* Stopping is only requested between subroutines and with no entanglement request *)
(* outstanding (the host sends it after the last result).                          *)
StopApp(a) ==
  /\ a \in apps /\ ~subs[a].active /\ ~reqs[a].has /\ \A i \in DOMAIN pend : pend[i].app # a
  /\ apps' = apps \ {a}
  /\ used' = used \ MappedOf(a)
  /\ ms' = [ms EXCEPT ![a] = NoApp]
  /\ subs' = [subs EXCEPT ![a] = NoSub] /\ reqs' = [reqs EXCEPT ![a] = NoReq]
  /\ last' = [act |-> "StopApp", apps |-> {a}]
  /\ UNCHANGED pend

(* Stopping an application that still holds qubits takes time: the qubits are released one after the other, in the  *)
(* order of their virtual ids, and the reset of each physical qubit is a point where other applications run.  The  *)
(* application counts as registered until the last step (subs[a] = "stop" meanwhile: nothing else acts for it).   *)
Stopping(a) == subs[a].active /\ subs[a].name = "stop"
FirstMapped(um) == CHOOSE v \in DOMAIN um : um[v] # None /\ \A w \in DOMAIN um : w < v => um[w] = None
ReleaseNext(a) == LET v == FirstMapped(ms[a].um) IN
                  /\ used' = used \ {ms[a].um[v]}
                  /\ ms' = [ms EXCEPT ![a].um[v] = None]
StopBegin(a) ==
  /\ a \in apps /\ ~subs[a].active /\ ~reqs[a].has /\ \A i \in DOMAIN pend : pend[i].app # a
  /\ MappedOf(a) # {}
  /\ ReleaseNext(a)
  /\ subs' = [subs EXCEPT ![a] = [name |-> "stop", active |-> TRUE]]
  /\ last' = [act |-> "StopBegin", apps |-> {a}]
  /\ UNCHANGED <<apps, reqs, pend>>
StopStep(a) ==
  /\ a \in apps /\ Stopping(a)
  /\ IF MappedOf(a) = {}
     THEN /\ apps' = apps \ {a} /\ ms' = [ms EXCEPT ![a] = NoApp] /\ used' = used
          /\ subs' = [subs EXCEPT ![a] = NoSub] /\ reqs' = [reqs EXCEPT ![a] = NoReq]
          /\ last' = [act |-> "StopApp", apps |-> {a}]
     ELSE /\ ReleaseNext(a) /\ UNCHANGED <<apps, subs, reqs>>
          /\ last' = [act |-> "StopBegin", apps |-> {a}]
  /\ UNCHANGED pend

(* The host gives up on an application while its subroutine is suspended INSIDE an instruction (the reset of a  *)
(* freed physical qubit takes time).  Whatever part of that instruction already happened, the application and  *)
(* everything it holds are gone afterwards; what is left of the subroutine may not change anything any more.   *)
AbortApp(a) ==
  /\ a \in apps /\ subs[a].active /\ ~Stopping(a) /\ ~reqs[a].has /\ \A i \in DOMAIN pend : pend[i].app # a
  /\ apps' = apps \ {a}
  /\ used' = used \ MappedOf(a)
  /\ ms' = [ms EXCEPT ![a] = NoApp]
  /\ subs' = [subs EXCEPT ![a] = NoSub] /\ reqs' = [reqs EXCEPT ![a] = NoReq]
  /\ last' = [act |-> "StopApp", apps |-> {a}]
  /\ UNCHANGED pend

(* ... also while an entanglement request of the application is outstanding or a response for it is waiting (the   *)
(* subroutine is blocked in its wait): the request, the waiting responses and the physical qubits reserved for     *)
(* them go with the application.                                                                                   *)
PendOf(a) == { i \in DOMAIN pend : pend[i].app = a }
AbortOutstanding(a) ==
  /\ a \in apps /\ subs[a].active /\ ~Stopping(a) /\ (reqs[a].has \/ PendOf(a) # {})
  /\ apps' = apps \ {a}
  /\ used' = used \ (MappedOf(a) \cup { pend[i].phys : i \in PendOf(a) })
  /\ ms' = [ms EXCEPT ![a] = NoApp]
  /\ subs' = [subs EXCEPT ![a] = NoSub] /\ reqs' = [reqs EXCEPT ![a] = NoReq]
  /\ pend' = SelectSeq(pend, LAMBDA r : r.app # a)
  /\ last' = [act |-> "AbortOutstanding", apps |-> {a}]

BeginSub(a, p) ==
  /\ a \in apps /\ ~subs[a].active
  /\ (p \in {"keep1", "keepfree"} => ~reqs[a].has /\ Len(ms[a].um) >= 2 /\ \A i \in DOMAIN pend : pend[i].app # a)
  /\ subs' = [subs EXCEPT ![a] = [name |-> p, active |-> TRUE]]
  /\ ms' = [ms EXCEPT ![a] = StartSub(ms[a])]
  /\ last' = [act |-> "StartSub", apps |-> {a}]
  /\ UNCHANGED <<apps, used, reqs, pend>>

ProgOf(a) == Lib(a)[subs[a].name]
StepApp(a) ==
  /\ a \in apps /\ subs[a].active /\ ~Stopping(a)
  /\ LET prog == ProgOf(a)
         m0 == [ms[a] EXCEPT !.used = used]
     IN IF m0.pc >= Len(prog)
        THEN /\ subs' = [subs EXCEPT ![a].active = FALSE]
             /\ ms' = [ms EXCEPT ![a].status = "done"]
             /\ UNCHANGED <<used, reqs>>
        ELSE IF prog[m0.pc + 1].mn = "create_epr"
        THEN /\ reqs' = [reqs EXCEPT ![a] = [has |-> TRUE, virt |-> Val(m0.arrs[1].v[1]), res |-> 3]]
             /\ ms' = [ms EXCEPT ![a] = [Adv(m0) EXCEPT !.used = {}]]
             /\ UNCHANGED <<used, subs>>
        ELSE LET m1 == Exec(m0, prog[m0.pc + 1]) IN
             /\ m1.status # "wait"
             /\ ms' = [ms EXCEPT ![a] = [m1 EXCEPT !.used = {}]]
             /\ used' = m1.used
             /\ subs' = [subs EXCEPT ![a].active = m1.status = "run"]     \* a fault ends the subroutine
             /\ UNCHANGED reqs
  /\ last' = [act |-> "StepApp", apps |-> {a}]
  /\ UNCHANGED <<apps, pend>>

(* the handler: every pending response whose virtual qubit is free is consumed *)
EntInfoK(a, phys) == <<0, 0, phys, 0, 0, a, 1, 0, 0, 0>>
Handle(m, rq, pd) ==          \* returns [ms, reqs, pend, touched]
  LET H == { i \in DOMAIN pd : rq[pd[i].app].has /\ ~Allocated(m[pd[i].app], rq[pd[i].app].virt) }
      T == { pd[i].app : i \in H }
      physOf(a) == pd[CHOOSE i \in H : pd[i].app = a].phys
  IN [ ms |-> [a \in AppIds |-> IF a \in T
                                THEN PutArr([m[a] EXCEPT !.um[rq[a].virt + 1] = physOf(a)], rq[a].res,
                                            [j \in 1..10 |-> Def(EntInfoK(a, physOf(a))[j])])
                                ELSE m[a]],
       reqs |-> [a \in AppIds |-> IF a \in T THEN NoReq ELSE rq[a]],
       pend |-> SelectSeq(pd, LAMBDA r : r.app \notin T),
       touched |-> T ]
(* The link layer picks ANY physical qubit that is not in use for the new pair. *)
DeliverK(a, phys) ==
  /\ a \in apps /\ reqs[a].has /\ \A i \in DOMAIN pend : pend[i].app # a
  /\ phys \notin used
  /\ LET h == Handle(ms, reqs, Append(pend, [app |-> a, phys |-> phys]))
     IN /\ used' = used \cup {phys}
        /\ ms' = h.ms /\ reqs' = h.reqs /\ pend' = h.pend
        /\ last' = [act |-> "DeliverK", apps |-> h.touched]
  /\ UNCHANGED <<apps, subs>>
Retry ==
  /\ pend # << >>
  /\ LET h == Handle(ms, reqs, pend) IN
     /\ h.touched # {}
     /\ ms' = h.ms /\ reqs' = h.reqs /\ pend' = h.pend
     /\ last' = [act |-> "Retry", apps |-> h.touched]
  /\ UNCHANGED <<apps, used, subs>>

Next == \/ \E a \in AppIds, n \in UMSizes : InitApp(a, n)
        \/ \E a \in AppIds : StopApp(a) \/ StepApp(a) \/ AbortApp(a) \/ AbortOutstanding(a) \/ StopBegin(a) \/ StopStep(a)
        \/ \E a \in AppIds : \E phys \in {MinUnused(used), MinUnused(used \cup {MinUnused(used)})} : DeliverK(a, phys)
        \/ \E a \in AppIds, p \in ProgNames : BeginSub(a, p)
        \/ Retry
Spec == Init /\ [][Next]_vars
Bound == TLCGet("level") <= MaxDepth

(* ---------------- C13 ---------------- *)
Slots == { <<a, i>> : a \in AppIds, i \in 1..4 }
Live(s) == s[1] \in apps /\ s[2] \in DOMAIN ms[s[1]].um /\ ms[s[1]].um[s[2]] # None
Inj == \A s, t \in Slots : (Live(s) /\ Live(t) /\ s # t) => ms[s[1]].um[s[2]] # ms[t[1]].um[t[2]]
Acc == used = AllMapped \cup ReservedSet
(* "exactly the set currently mapped" whenever no keep response is waiting *)
AccQuiet == pend = << >> => used = AllMapped
NoAppClean == \A a \in AppIds : a \notin apps => (ms[a] = NoApp /\ ~subs[a].active /\ ~reqs[a].has)
(* an action changes only the applications it acts for *)
Isolation == [][ \A b \in AppIds : b \notin last'.apps => (ms'[b] = ms[b] /\ subs'[b] = subs[b] /\ reqs'[b] = reqs[b]) ]_vars
(* stopping gives back exactly the application's qubits *)
StopReleases == [][ last'.act = "StopApp" => (used' = used \ UNION { MappedOf(a) : a \in last'.apps }) ]_vars
(* an id that is not registered can always be registered (again) *)
ReRegister == \A a \in AppIds : a \notin apps => \A n \in UMSizes : ENABLED InitApp(a, n)
=============================================================================
