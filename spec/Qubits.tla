------------------------------- MODULE Qubits -------------------------------
(***************************************************************************)
(* Property C09: the SDK and the controller agree on which virtual qubits  *)
(* exist.  The specification keeps only what must be true: the set of LIVE *)
(* qubit handles of the host program and the qubit budget.                 *)
(*   New(h)          enabled iff |live| < Limit                            *)
(*   Gate(h)         h live                                                *)
(*   Measure(h, inplace)   a destructive measurement ends the handle       *)
(*   Free(h)         ends the handle                                       *)
(*   Keep(hs)        create_keep / recv_keep of |hs| pairs: enabled iff    *)
(*                   |live| + |hs| <= Limit; the handles become live       *)
(*   Seq(n, form)    a form whose body measures each pair: the sequential  *)
(*                   form needs one free slot (pairs are generated one by  *)
(*                   one; so does a context asked to be sequential), the   *)
(*                   context form n (generated concurrently);              *)
(*                   `live` is unchanged afterwards                        *)
(*   Flush           the pending operations run on the controller          *)
(* Limit = budget, or budget - 1 on single-communication-qubit hardware    *)
(* (relocating a qubit needs a free slot).                                 *)
(* At every flush of a legal history: no controller fault; the             *)
(* connection's active qubits are exactly the controller's allocated       *)
(* virtual qubits; there are |live| of them; every live handle owns one.   *)
(***************************************************************************)
EXTENDS Naturals, Sequences, FiniteSets, TLC, Json, IOUtils

Cases == ndJsonDeserialize(IOEnv.VERIF_TRACES)
VARIABLES id, k, live, verdict
vars == <<id, k, live, verdict>>
Case == Cases[id]
Limit == IF Case.nv THEN Case.budget - 1 ELSE Case.budget
Ev == Case.events[k + 1]
AsSet(s) == { s[i] : i \in DOMAIN s }

Init == id \in DOMAIN Cases /\ k = 0 /\ live = {} /\ verdict = "running"

Legal(e) == CASE e.a = "new"  -> Cardinality(live) < Limit
              [] e.a \in {"gate", "measI", "measD", "free"} -> e.h \in live
              [] e.a = "gate2" -> e.h \in live /\ e.h2 \in live /\ e.h # e.h2
              [] e.a = "keep" -> Cardinality(live) + Len(e.hs) <= Limit
              [] e.a = "seq"  -> Cardinality(live) + (IF e.form = "context" THEN e.n ELSE 1) <= Limit
              [] e.a = "flush" -> TRUE
Effect(e) == CASE e.a = "new"  -> live \cup {e.h}
               [] e.a \in {"measD", "free"} -> live \ {e.h}
               [] e.a = "keep" -> live \cup AsSet(e.hs)
               [] OTHER -> live
FlushCheck(e, l) ==
  IF e.err # "" THEN "sdk-raises"
  ELSE IF e.fault THEN "controller-fault"
  ELSE IF AsSet(e.active) # AsSet(e.alloc) THEN "active-qubits-differ-from-allocated"
  ELSE IF Len(e.active) # Cardinality(AsSet(e.active)) THEN "two-handles-share-an-id"
  ELSE IF Cardinality(AsSet(e.alloc)) # Cardinality(l) THEN "number-of-allocated-qubits"
  ELSE IF \E i \in DOMAIN e.liveids : e.liveids[i] \notin AsSet(e.alloc) THEN "live-handle-without-qubit"
  ELSE ""
Next ==
  /\ verdict = "running" /\ k < Len(Case.events)
  /\ k' = k + 1 /\ UNCHANGED id
  /\ IF ~Legal(Ev) THEN live' = live /\ verdict' = "history-exceeds-budget"     \* a rig error, not a finding
     ELSE /\ live' = Effect(Ev)
          /\ verdict' = IF Ev.a # "flush" THEN (IF Ev.err # "" THEN "sdk-raises" ELSE IF k + 1 = Len(Case.events) THEN "ok" ELSE "running")
                        ELSE LET d == FlushCheck(Ev, live) IN IF d # "" THEN d ELSE IF k + 1 = Len(Case.events) THEN "ok" ELSE "running"
Spec == Init /\ [][Next]_vars
Report == verdict \in {"running", "ok"} \/ PrintT(<<"VERDICT", "C09", verdict, id, k, "">>)
Done == verdict # "ok" \/ PrintT(<<"OK", id>>)
=============================================================================
