------------------------------- MODULE Wire -------------------------------
(***************************************************************************)
(* The NetQASM binary format as property C02 states it:                    *)
(*   command = opcode byte, operands in declared order, zero padding to 7  *)
(*   register  = one byte: 2-bit bank in the low bits, then 4-bit index    *)
(*   immediate = one unsigned byte                                         *)
(*   integer / address = four little-endian two's-complement bytes         *)
(*   subroutine = two version bytes, 16-bit little-endian app id, commands *)
(* TLC integers are 32-bit, so two's complement is computed without ever   *)
(* leaving -2^31 .. 2^31-1.                                                *)
(***************************************************************************)
EXTENDS Isa

CommandBytes == 7
MetaBytes == 4

RegByte(r) == (r \div 16) + 4 * (r % 16)
ByteReg(b) == (b % 4) * 16 + ((b \div 4) % 16)

IntBytes(v) ==
  LET w == IF v >= 0 THEN v ELSE (v + MaxInt) + 1       \* the low 31 bits
  IN  << w % 256, (w \div 256) % 256, (w \div 65536) % 256,
         (w \div 16777216) + (IF v < 0 THEN 128 ELSE 0) >>
BytesInt(b) ==
  LET lo == b[1] + 256 * b[2] + 65536 * b[3] + 16777216 * (b[4] % 128)
  IN  IF b[4] >= 128 THEN (lo - MaxInt) - 1 ELSE lo

EncOperand(k, v) == CASE k = "reg" -> <<RegByte(v)>>
                      [] k = "imm" -> <<v>>
                      [] k = "int" -> IntBytes(v)
Width(k) == IF k = "int" THEN 4 ELSE 1

RECURSIVE EncOps(_, _)
EncOps(ks, vs) == IF ks = << >> THEN << >>
                  ELSE EncOperand(Head(ks), Head(vs)) \o EncOps(Tail(ks), Tail(vs))

Zeros(n) == [i \in 1..n |-> 0]
Pad(bs) == bs \o Zeros(CommandBytes - Len(bs))

Enc(T, i) == LET e == ByName(T, i.mn)
             IN  Pad(<<e.op>> \o EncOps(Shapes[e.shape], i.ops))

RECURSIVE DecOps(_, _, _)
DecOps(ks, bs, pos) ==
  IF ks = << >> THEN << >>
  ELSE LET k == Head(ks)
           v == CASE k = "reg" -> ByteReg(bs[pos])
                  [] k = "imm" -> bs[pos]
                  [] k = "int" -> BytesInt(<<bs[pos], bs[pos+1], bs[pos+2], bs[pos+3]>>)
       IN  <<v>> \o DecOps(Tail(ks), bs, pos + Width(k))

(* Decoding dispatches on the opcode byte through the flavour's id map. *)
Dec(T, bs) == LET e == ById(T, bs[1])
              IN  [mn |-> e.mn, ops |-> DecOps(Shapes[e.shape], bs, 2)]
Decodable(T, bs) == Len(bs) = CommandBytes /\ HasOp(T, bs[1])

(* Subroutines: [ver |-> <<a, b>>, app |-> 0..65535, instrs |-> Seq(instr)] *)
RECURSIVE EncSeq(_, _)
EncSeq(T, is) == IF is = << >> THEN << >> ELSE Enc(T, Head(is)) \o EncSeq(T, Tail(is))
EncSub(T, s) == << s.ver[1], s.ver[2], s.app % 256, s.app \div 256 >> \o EncSeq(T, s.instrs)

Slice(bs, a, b) == [i \in 1..(b - a + 1) |-> bs[a + i - 1]]
DecSubOK(T, bs) == /\ Len(bs) >= MetaBytes
                   /\ (Len(bs) - MetaBytes) % CommandBytes = 0
                   /\ \A n \in 0..(((Len(bs) - MetaBytes) \div CommandBytes) - 1) :
                        HasOp(T, bs[MetaBytes + n * CommandBytes + 1])
DecSub(T, bs) ==
  [ ver    |-> <<bs[1], bs[2]>>,
    app    |-> bs[3] + 256 * bs[4],
    instrs |-> [n \in 1..((Len(bs) - MetaBytes) \div CommandBytes) |->
                  Dec(T, Slice(bs, MetaBytes + (n-1) * CommandBytes + 1, MetaBytes + n * CommandBytes))] ]

SubWellFormed(T, s) == /\ s.ver[1] \in 0..255 /\ s.ver[2] \in 0..255
                       /\ s.app \in 0..65535
                       /\ \A n \in DOMAIN s.instrs : WellFormed(T, s.instrs[n])

(***************************************************************************)
(* C01: decoding the encoding gives the instruction back.                  *)
(* It holds for instruction i of table T iff the decoder's id map sends    *)
(* i's opcode to i's own entry.                                            *)
(***************************************************************************)
RoundTrip(T, i) == Dec(T, Enc(T, i)) = i
=============================================================================
