------------------------------- MODULE Gates -------------------------------
(***************************************************************************)
(* What each vanilla / NV gate instruction DENOTES, as a sequence of Pauli *)
(* rotations [p |-> Hermitian Pauli, th |-> angle in units of pi/2^20]     *)
(* (first element applied first).  A gate instruction is                   *)
(*    [mn |-> mnemonic, qs |-> <<qubit, ...>>, imm |-> <<n, d>> or << >>]  *)
(* with qubits numbered 1..NQ.                                             *)
(*   x y z      rotation by pi about the axis                              *)
(*   s, t       Rz(pi/2), Rz(pi/4)                                         *)
(*   h          Z then Ry(pi/2)         (X <-> Z, Y -> -Y)                 *)
(*   k          Z then Rx(-pi/2)        (Y <-> Z, X -> -X)                 *)
(*   rot_a n d  rotation about a by n pi / 2^d                             *)
(*   crot_a     exp(-i theta/2 Z_c A_t), theta = n pi / 2^d                *)
(*   cnot       (Z_c X_t, -pi/2) (Z_c, pi/2) (X_t, pi/2)                   *)
(*   cphase     (Z_c Z_t, -pi/2) (Z_c, pi/2) (Z_t, pi/2)                   *)
(***************************************************************************)
EXTENDS Pauli

Rot(p, th) == [p |-> p, th |-> th]
Pow2(e) == 2 ^ e
(* n pi / 2^d in units of pi/2^20 (d <= 20) *)
Ang(n, d) == IF d <= A THEN n * Pow2(A - d) ELSE 0     \* tiny angles are handled literally by the caller
Representable(i) == i.imm = << >> \/ i.imm[2] <= A

Denote(i) ==
  LET mn == i.mn  q == i.qs IN
  CASE mn = "x" -> <<Rot(PX(q[1]), UnitPi)>>
    [] mn = "y" -> <<Rot(PY(q[1]), UnitPi)>>
    [] mn = "z" -> <<Rot(PZ(q[1]), UnitPi)>>
    [] mn = "s" -> <<Rot(PZ(q[1]), HalfPi)>>
    [] mn = "t" -> <<Rot(PZ(q[1]), HalfPi \div 2)>>
    [] mn = "h" -> <<Rot(PZ(q[1]), UnitPi), Rot(PY(q[1]), HalfPi)>>
    [] mn = "k" -> <<Rot(PZ(q[1]), UnitPi), Rot(PX(q[1]), 0 - HalfPi)>>
    [] mn = "rot_x" -> <<Rot(PX(q[1]), Ang(i.imm[1], i.imm[2]))>>
    [] mn = "rot_y" -> <<Rot(PY(q[1]), Ang(i.imm[1], i.imm[2]))>>
    [] mn = "rot_z" -> <<Rot(PZ(q[1]), Ang(i.imm[1], i.imm[2]))>>
    [] mn = "crot_x" -> <<Rot(Mul(PZ(q[1]), PX(q[2])), Ang(i.imm[1], i.imm[2]))>>
    [] mn = "crot_y" -> <<Rot(Mul(PZ(q[1]), PY(q[2])), Ang(i.imm[1], i.imm[2]))>>
    [] mn = "cnot" -> <<Rot(Mul(PZ(q[1]), PX(q[2])), 0 - HalfPi), Rot(PZ(q[1]), HalfPi), Rot(PX(q[2]), HalfPi)>>
    [] mn = "cphase" -> <<Rot(Mul(PZ(q[1]), PZ(q[2])), 0 - HalfPi), Rot(PZ(q[1]), HalfPi), Rot(PZ(q[2]), HalfPi)>>
    [] mn = "pauli_rot" -> <<Rot([x |-> i.p.x, z |-> i.p.z, ph |-> i.p.ph], i.th)>>     \* reference circuits (Toolbox)
    [] OTHER -> << >>

RECURSIVE DenoteAll(_)
DenoteAll(is) == IF is = << >> THEN << >> ELSE Denote(Head(is)) \o DenoteAll(Tail(is))
NormalForm(is) == ApplyAll(NF0, DenoteAll(is))
=============================================================================
