-------------------------------- MODULE Host --------------------------------
(***************************************************************************)
(* The meaning of a HOST PROGRAM written with the SDK's constructs         *)
(* (properties C05, C06, C09, C14): what executing it "directly" does.     *)
(*                                                                         *)
(* A program is a sequence of statements (records, field s = kind):        *)
(*   array    a len init          a new array (declared when the next      *)
(*                                flush starts, before everything else)    *)
(*   qubit    vid                 allocate + initialise virtual qubit vid  *)
(*   gate     g vids imm          apply a gate                             *)
(*   free     vid                                                          *)
(*   meas     vid inplace into    measure; outcome to location `into`      *)
(*   add      t o mod             t := t + o  (mod m if mod > 0)           *)
(*   if       cmp a b body        cmp in eq ne lt ge ez nz                 *)
(*   loop     start stop step body     index = loop variable               *)
(*   foreach  a len body          loop over the indices of array a         *)
(*   until    max body t v cleanup     exit after the first iteration with *)
(*                                value(t) <= v, else cleanup and go on    *)
(* Locations:  [k |-> "fut", a, i]  array entry, i an index expression     *)
(*             [k |-> "reg", h]     the value a RegFuture handle denotes   *)
(* Index / value expressions: [k |-> "c", v] constant, [k |-> "lv", n]     *)
(* the loop variable of the n-th enclosing loop, or a location.            *)
(*                                                                         *)
(* Evaluation is a recursive big-step function on a state record           *)
(*   [arrs, regs, alive, glog, meas, lv, fault]                            *)
(* and is deterministic given the measurement-outcome script.              *)
(***************************************************************************)
EXTENDS Naturals, Integers, Sequences, FiniteSets

Undef == <<0, 0>>
Def(v) == <<1, v>>
IsDef(x) == x[1] = 1
Val(x) == x[2]
MaxIter == 64

NoArr == [ex |-> FALSE, v |-> << >>]
(* arrs : [Addr -> [ex, v]], regs : [Handle -> Opt], alive : set of virtual qubit ids *)
Fault(st, kind) == IF st.fault = "" THEN [st EXCEPT !.fault = kind] ELSE st
OK(st) == st.fault = ""

Idx(st, e) ==            \* index expression -> Opt integer
  CASE e.k = "c" -> Def(e.v)
    [] e.k = "lv" -> IF e.n <= Len(st.lv) THEN Def(st.lv[e.n]) ELSE Undef
    [] e.k = "reg" -> st.regs[e.h]
    [] e.k = "fut" -> IF e.a \in DOMAIN st.arrs /\ st.arrs[e.a].ex /\ e.j >= 0 /\ e.j < Len(st.arrs[e.a].v)      \* the value of another array entry
                      THEN st.arrs[e.a].v[e.j + 1] ELSE Undef
    [] OTHER -> Undef
InRange(st, a, i) == a \in DOMAIN st.arrs /\ st.arrs[a].ex /\ i >= 0 /\ i < Len(st.arrs[a].v)

(* read a value expression: [ok, v (Opt), why] *)
Read(st, e) ==
  CASE e.k = "c" -> [ok |-> TRUE, v |-> Def(e.v), why |-> ""]
    [] e.k = "lv" -> [ok |-> e.n <= Len(st.lv), v |-> IF e.n <= Len(st.lv) THEN Def(st.lv[e.n]) ELSE Undef, why |-> "loop-variable"]
    [] e.k = "reg" -> [ok |-> IsDef(st.regs[e.h]), v |-> st.regs[e.h], why |-> "register-undefined"]
    [] e.k = "fut" ->
         LET i == Idx(st, e.i) IN
         IF ~IsDef(i) THEN [ok |-> FALSE, v |-> Undef, why |-> "index-undefined"]
         ELSE IF ~InRange(st, e.a, Val(i)) THEN [ok |-> FALSE, v |-> Undef, why |-> "index-out-of-range"]
         ELSE LET x == st.arrs[e.a].v[Val(i) + 1] IN [ok |-> IsDef(x), v |-> x, why |-> "load-undefined"]
Write(st, loc, val) ==      \* val : integer
  IF loc.k = "reg" THEN [st EXCEPT !.regs[loc.h] = Def(val)]
  ELSE LET i == Idx(st, loc.i) IN
       IF ~IsDef(i) THEN Fault(st, "index-undefined")
       ELSE IF ~InRange(st, loc.a, Val(i)) THEN Fault(st, "index-out-of-range")
       ELSE [st EXCEPT !.arrs[loc.a].v[Val(i) + 1] = Def(val)]

Cmp(c, a, b) == CASE c = "eq" -> a = b [] c = "ne" -> a # b [] c = "lt" -> a < b [] c = "ge" -> a >= b
                  [] c = "ez" -> a = 0 [] c = "nz" -> a # 0

RECURSIVE EvalSeq(_, _), EvalStmt(_, _), Iterate(_, _, _, _, _), Until(_, _, _)

EvalSeq(st, ss) == IF ss = << >> \/ ~OK(st) THEN st ELSE EvalSeq(EvalStmt(st, Head(ss)), Tail(ss))

(* counted loop: i from `i` while i # stop, step `step`; the loop variable is pushed on st.lv *)
Iterate(st, i, stop, step, body) ==
  IF ~OK(st) \/ i = stop THEN st
  ELSE IF (IF step > 0 THEN (stop - i) \div step ELSE (i - stop) \div (0 - step)) > MaxIter THEN Fault(st, "diverges")
  ELSE LET s1 == EvalSeq([st EXCEPT !.lv = Append(@, i)], body)
       IN  Iterate([s1 EXCEPT !.lv = st.lv], i + step, stop, step, body)

Until(st, i, s) ==
  IF ~OK(st) \/ i = s.max THEN st
  ELSE LET s1 == EvalSeq([st EXCEPT !.lv = Append(@, i)], s.body)
           r == Read(s1, s.t)
       IN  IF ~OK(s1) THEN [s1 EXCEPT !.lv = st.lv]
           ELSE IF ~r.ok THEN [Fault(s1, r.why) EXCEPT !.lv = st.lv]
           ELSE IF Val(r.v) <= s.v THEN [s1 EXCEPT !.lv = st.lv]
           ELSE Until([EvalSeq(s1, s.cleanup) EXCEPT !.lv = st.lv], i + 1, s)

EvalStmt(st, s) ==
  CASE s.s = "array" -> st                                   \* declared when the flush starts (see Declare)
    \* a classical register the application asks for and keeps (it holds its value across flushes until the application
    \* changes it; other operations' temporaries and counters may not touch it)
    [] s.s = "hold" -> [st EXCEPT !.regs[s.h] = Def(s.v)]
    [] s.s = "qubit" ->
         IF s.vid \in st.alive THEN Fault(st, "already-allocated")
         ELSE [st EXCEPT !.alive = @ \cup {s.vid}, !.glog = Append(@, <<"init", <<s.vid>>, << >>>>)]
    [] s.s = "free" ->
         IF s.vid \notin st.alive THEN Fault(st, "not-allocated") ELSE [st EXCEPT !.alive = @ \ {s.vid}]
    [] s.s = "gate" ->
         IF \E i \in DOMAIN s.vids : s.vids[i] \notin st.alive THEN Fault(st, "not-allocated")
         ELSE [st EXCEPT !.glog = Append(@, <<s.g, s.vids, s.imm>>)]
    [] s.s = "meas" ->
         IF s.vid \notin st.alive THEN Fault(st, "not-allocated")
         ELSE IF st.meas = << >> THEN Fault(st, "script-exhausted")
         ELSE LET o == Head(st.meas)
                  s1 == [st EXCEPT !.meas = Tail(@), !.glog = Append(@, <<"meas", <<s.vid>>, <<o>>>>),
                                   !.alive = IF s.inplace THEN @ ELSE @ \ {s.vid}]
              IN  Write(s1, s.into, o)
    [] s.s = "add" ->
         LET t == Read(st, s.t)  o == Read(st, s.o) IN
         IF ~t.ok THEN Fault(st, t.why) ELSE IF ~o.ok THEN Fault(st, o.why)
         ELSE IF s.mod > 0 THEN Write(st, s.t, (Val(t.v) + Val(o.v)) % s.mod)
         ELSE IF s.mod = 0 THEN Fault(st, "modulus")
         ELSE Write(st, s.t, Val(t.v) + Val(o.v))
    [] s.s = "if" ->
         IF s.body = << >> THEN st                            \* an empty body compiles to nothing
         ELSE LET a == Read(st, s.a)
                  b == IF s.cmp \in {"ez", "nz"} THEN [ok |-> TRUE, v |-> Def(0), why |-> ""] ELSE Read(st, s.b) IN
              IF ~a.ok THEN Fault(st, a.why) ELSE IF ~b.ok THEN Fault(st, b.why)
              ELSE IF Cmp(s.cmp, Val(a.v), Val(b.v)) THEN EvalSeq(st, s.body) ELSE st
    [] s.s = "loop" ->
         IF s.body = << >> THEN st
         \* counting up or down: the compiled loop ends when the counter EQUALS stop
         ELSE IF s.step = 0 \/ (s.step > 0 /\ (s.start > s.stop \/ (s.stop - s.start) % s.step # 0))
                            \/ (s.step < 0 /\ (s.start < s.stop \/ (s.start - s.stop) % (0 - s.step) # 0)) THEN Fault(st, "loop-precondition")
         ELSE Iterate(st, s.start, s.stop, s.step, s.body)
    [] s.s = "foreach" ->
         IF s.body = << >> THEN st ELSE Iterate(st, 0, s.len, 1, s.body)
    [] s.s = "until" ->
         IF s.body = << >> THEN st ELSE Until(st, 0, s)
    [] OTHER -> st

(* every array created since the last flush is declared (and initialised) first, at any nesting depth *)
RECURSIVE Arrays(_)
Arrays(ss) ==
  IF ss = << >> THEN << >>
  ELSE LET s == Head(ss)
           here == IF s.s = "array" THEN <<s>>
                   ELSE IF s.s \in {"if", "loop", "foreach"} THEN Arrays(s.body)
                   ELSE IF s.s = "until" THEN Arrays(s.body) \o Arrays(s.cleanup) ELSE << >>
       IN here \o Arrays(Tail(ss))
RECURSIVE Declare(_, _)
Declare(st, as) == IF as = << >> THEN st
                   ELSE Declare([st EXCEPT !.arrs[Head(as).a] = [ex |-> TRUE, v |-> Head(as).init]], Tail(as))

(* one flush: declare, then run *)
Flush(st, prog) == EvalSeq(Declare(st, Arrays(prog)), prog)
=============================================================================
