--------------------------- MODULE ControllerPool ---------------------------
(***************************************************************************)
(* Controller.tla refines QubitPool.tla: every step of the controller      *)
(* specification is, under the mapping below, a step of the abstract qubit *)
(* pool (or leaves the pool unchanged).  Checked by TLC over the same      *)
(* bounded state space as Controller.cfg.  Together with the inductive     *)
(* invariant of QubitPool (Apalache, any history length) and the trace     *)
(* validation of the real controller against Controller.tla this is the    *)
(* chain  real controller  ->  Controller  ->  QubitPool |= IndInv.        *)
(***************************************************************************)
EXTENDS Controller
VirtP == 0..3
PhysP == 0..15
UmMap == [a \in AppIds |-> [v \in VirtP |-> IF a \in apps /\ v < Len(ms[a].um) THEN ms[a].um[v + 1] ELSE -1]]
SizeMap == [a \in AppIds |-> IF a \in apps THEN Len(ms[a].um) ELSE 0]
P == INSTANCE QubitPool WITH Apps <- AppIds, VIds <- VirtP, Phys <- PhysP,
                             apps <- apps, size <- SizeMap, um <- UmMap, used <- used, resv <- ReservedSet
Refines == [][P!Next]_<<apps, SizeMap, UmMap, used, ReservedSet>>
PoolInv == P!IndInv /\ P!UsedIsMapped
=============================================================================
