SPECIFICATION Spec
CONSTANTS
  Keys = {1, 2, 3, 4}
  Peer <- PeerDef
INVARIANT Report
CHECK_DEADLOCK FALSE
