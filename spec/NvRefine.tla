------------------------------ MODULE NvRefine ------------------------------
(***************************************************************************)
(* Property C08: NV transpilation preserves program behaviour.             *)
(*                                                                         *)
(* The SOURCE program (vanilla flavour) is given its meaning by the        *)
(* machine specification itself: TLC executes it with Machine!StepSub,     *)
(* one instruction per step, under the measurement script of the case.     *)
(* The TRANSPILED program (what the real NVSubroutineTranspiler made of    *)
(* it, serialised, deserialised in the NV flavour and run on the real      *)
(* executor under the same script) is an observation: final registers,     *)
(* arrays, returned values, unit module, and the log of quantum            *)
(* operations.  The transpiled run REFINES the source run iff              *)
(*   - it ends normally whenever the source does,                          *)
(*   - every register and array the source mentions, the values returned   *)
(*     to the host and the unit module are equal at the end,               *)
(*   - the non-unitary quantum events (init, meas with its outcome, qfree) *)
(*     are the same sequence, and                                          *)
(*   - between two consecutive events the gates of both runs multiply to   *)
(*     the same unitary up to a global phase (Pauli-rotation normal form   *)
(*     of module Pauli over NQ qubits; a borrowed electron therefore has   *)
(*     to be given back unchanged).  A source segment that is one `mov`    *)
(*     (the SDK brackets it by init of the target and qfree of the source) *)
(*     is matched by the state-transfer condition instead.                 *)
(*   - every two-qubit operation of the transpiled run is native: a        *)
(*     rotation of a carbon controlled by the electron (this is what makes *)
(*     "the decomposition reflects the qubit the register actually holds"  *)
(*     observable).                                                        *)
(***************************************************************************)
EXTENDS Gates, TLC, Json, IOUtils
M == INSTANCE Machine

Cases == ndJsonDeserialize(IOEnv.VERIF_TRACES)
VARIABLES id, k, m, slog, verdict, sub
vars == <<id, k, m, slog, verdict, sub>>
Case == Cases[id]
AsSet(s) == { s[i] : i \in DOMAIN s }
MaxSteps == 600

(* a case is a SEQUENCE of subroutines of one application (registers, arrays and qubits persist from one to the   *)
(* next); each is transpiled on its own                                                                        *)
Init == /\ id \in DOMAIN Cases /\ k = 0 /\ verdict = "running" /\ slog = << >> /\ sub = 1
        /\ m = M!NewMachine(AsSet(Cases[id].addrs), Cases[id].umsize, Cases[id].meas)

(* quantum log entries as gate records of module Gates (qubits 1..NQ) *)
GateRec(mn, virts, imm) == [mn |-> mn, qs |-> [i \in DOMAIN virts |-> virts[i] + 1], imm |-> imm]
FromSpec(e) == GateRec(e[1], e[2], e[3])
FromReal(e) == GateRec(e[1], e[2], e[3])
RECURSIVE MapSpec(_)
MapSpec(s) == IF s = << >> THEN << >> ELSE <<FromSpec(Head(s))>> \o MapSpec(Tail(s))
RECURSIVE MapReal(_)
MapReal(s) == IF s = << >> THEN << >> ELSE <<FromReal(Head(s))>> \o MapReal(Tail(s))

IsEvent(g) == g.mn \in {"init", "meas", "qfree"}
RECURSIVE Events(_)
Events(s) == IF s = << >> THEN << >> ELSE (IF IsEvent(Head(s)) THEN <<Head(s)>> ELSE << >>) \o Events(Tail(s))
(* the gates between event number j-1 and event number j (j = 1 .. #events + 1) *)
RECURSIVE SegFrom(_, _)
SegFrom(s, j) ==           \* segments as a sequence of gate sequences
  IF s = << >> THEN << << >> >>
  ELSE LET rest == SegFrom(Tail(s), j) IN
       IF IsEvent(Head(s)) THEN << << >> >> \o rest
       ELSE <<(<<Head(s)>> \o rest[1])>> \o Tail(rest)
Segments(s) == SegFrom(s, 1)

MovOKFor(nf, s, t) ==
  LET D == nf.D
      OnlyZt(p, base) == \E e \in {0, 1} : p = Mul(base, IF e = 1 THEN PZ(t) ELSE Id)
  IN nf.L = << >> /\ OnlyZt(D[t], PX(s)) /\ OnlyZt(D[NQ + t], PZ(s))

SegVerdict(src, tgt) ==
  IF \E i \in DOMAIN src : src[i].mn = "mov"
  THEN IF Len(src) # 1 THEN "rig-error-mov-not-bracketed"
       ELSE IF MovOKFor(NormalForm(tgt), src[1].qs[1], src[1].qs[2]) THEN "" ELSE "mov-does-not-transfer-the-state"
  ELSE LET a == NormalForm(src)  b == NormalForm(tgt) IN
       IF a = b THEN ""
       ELSE IF ~(Conclusive(a) /\ Conclusive(b)) THEN "INCONCLUSIVE"
       ELSE "quantum-state-differs"

Opt(x) == x          \* the rig logs optional integers as <<0,0>> / <<1,v>> exactly like Machine
(* NV hardware: the only two-qubit interaction is a rotation of a carbon controlled by the electron (virtual qubit 0) *)
Native(g) == g.mn \notin {"crot_x", "crot_y"} \/ (g.qs[1] = 1 /\ g.qs[2] # 1)
QuantumVerdict(sl, rl) ==
  IF \E i \in DOMAIN rl : ~Native(rl[i]) THEN "controlled-rotation-not-from-the-electron"
  ELSE IF \E i \in DOMAIN rl : rl[i].mn \in {"cnot", "cphase", "mov", "x", "y", "z", "h", "k", "s", "t"} THEN "vanilla-gate-left-in-the-output"
  ELSE IF Events(sl) # Events(rl) THEN "quantum-events-differ"
  ELSE LET ss == Segments(sl)  rs == Segments(rl) IN
       IF Len(ss) # Len(rs) THEN "quantum-events-differ"
       ELSE IF \E j \in DOMAIN ss : SegVerdict(ss[j], rs[j]) # ""
            THEN SegVerdict(ss[CHOOSE j \in DOMAIN ss : SegVerdict(ss[j], rs[j]) # "" /\ \A i \in 1..(j - 1) : SegVerdict(ss[i], rs[i]) = ""],
                            rs[CHOOSE j \in DOMAIN ss : SegVerdict(ss[j], rs[j]) # "" /\ \A i \in 1..(j - 1) : SegVerdict(ss[i], rs[i]) = ""])
            ELSE ""

Compare(mm, sl) ==
  LET r == Case.real IN
  IF r.status = "transpile-error" THEN "transpiler-raises"
  ELSE IF r.status = "not-serialisable" THEN "transpiled-program-cannot-be-encoded"
  ELSE IF r.status = "fault" THEN "transpiled-program-faults"
  ELSE IF r.status = "loops" THEN "transpiled-program-does-not-terminate"
  ELSE IF \E i \in DOMAIN Case.regset : mm.regs[Case.regset[i]] # r.regs[i] THEN "registers"
  ELSE IF \E i \in DOMAIN Case.addrs : [ex |-> mm.arrs[Case.addrs[i]].ex, v |-> mm.arrs[Case.addrs[i]].v] # r.arrs[i] THEN "arrays"
  ELSE IF \E i \in DOMAIN Case.regset : mm.shregs[Case.regset[i]] # r.shregs[i] THEN "returned-registers"
  ELSE IF \E i \in DOMAIN Case.addrs : [ex |-> mm.sharrs[Case.addrs[i]].ex, v |-> mm.sharrs[Case.addrs[i]].v] # r.sharrs[i] THEN "returned-arrays"
  ELSE IF [i \in DOMAIN mm.um |-> mm.um[i] # M!None] # [i \in DOMAIN r.um |-> r.um[i] # -1] THEN "allocated-qubits"
  ELSE QuantumVerdict(sl, MapReal(r.qlog))

(* one instruction of the source program per step *)
Step ==
  /\ verdict = "running" /\ m.status = "run" /\ k < MaxSteps
  /\ LET prog == Case.progs[sub]
         nm == M!StepSub(m, prog)
         ins == IF m.pc < Len(prog) THEN prog[m.pc + 1] ELSE [mn |-> "", ops |-> << >>]
         new == SubSeq(nm.qlog, Len(m.qlog) + 1, Len(nm.qlog))
         freed == ins.mn = "qfree" /\ nm.status = "run" /\ nm.pc = m.pc + 1
     IN  /\ m' = nm /\ k' = k + 1 /\ UNCHANGED <<id, verdict, sub>>
         /\ slog' = IF freed THEN Append(slog, GateRec("qfree", <<M!Val(m.regs[ins.ops[1]])>>, << >>)) ELSE slog \o MapSpec(new)
NextSub ==     \* the subroutine is over: the next one starts on the state it left
  /\ verdict = "running" /\ m.status = "done" /\ sub < Len(Case.progs) /\ k < MaxSteps
  /\ m' = M!StartSub(m) /\ sub' = sub + 1 /\ k' = k + 1 /\ UNCHANGED <<id, slog, verdict>>
Finish ==
  /\ verdict = "running" /\ ((m.status # "run" /\ ~(m.status = "done" /\ sub < Len(Case.progs))) \/ k >= MaxSteps)
  /\ UNCHANGED <<id, k, m, slog, sub>>
  /\ verdict' = IF m.status = "run" THEN "rig-error-source-does-not-terminate"
                ELSE IF m.status # "done" THEN "rig-error-source-" \o m.status \o "-" \o m.fkind
                ELSE LET d == Compare(m, slog) IN IF d = "" THEN "ok" ELSE d
Next == Step \/ NextSub \/ Finish
Spec == Init /\ [][Next]_vars

Report == verdict \in {"running", "ok"} \/ PrintT(<<"VERDICT", "C08", verdict, id, k, "">>)
Done == verdict # "ok" \/ PrintT(<<"OK", id>>)
=============================================================================
