#!/bin/sh
# Offline setup: nothing to build; verify the tools the checks need are present.
set -e
command -v java >/dev/null
test -f /opt/veriftools/tla/tla2tools.jar
/venv/bin/python -c "import netqasm, hypothesis" 
mkdir -p /verif/evidence /verif/replays
echo setup ok
