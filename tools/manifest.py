#!/usr/bin/env python3
"""Regenerates /verif/MANIFEST.json from the table below (single source of truth)."""
import json, os
V = os.path.dirname(os.path.dirname(os.path.abspath(__file__)))
props = [json.loads(l) for l in open(f"{V}/properties.jsonl")]

CHECKS = {
 "C01": dict(
    engine="wire", category="model_checking", design="5 C01",
    technique="TLA+ spec of the codec (Isa/Wire), TLC enumeration of field-wise vectors and streams replayed on the real encoder/decoder; random real subroutines validated by TLC (WireTrace)",
    text="TLC explores the three-step machine ir->wire->back (plus mutate-and-re-encode) of spec/WireMC.tla over every class of every flavour with field-wise operand domains and short streams, and checks opcode/mnemonic injectivity of the table extracted from the working tree; every vector is replayed on the real Subroutine.__bytes__/deserialize with long-lived and fresh flavour objects; random real subroutines (<=40 instrs) are recorded and validated against the spec decoder by TLC. Bounded (field-wise, not the full cross product), hence model checking within bounds rather than proof.",
    note="Trusted: TLC, the pinned table in spec/Isa.tla, the rig's reflection (harness/isa.py). Known finding: vanilla opcode 41 clash (meas_basis/mov)."),
 "C02": dict(
    engine="wire", category="model_checking", design="5 C02",
    technique="TLA+ reference encoder (Wire.tla) with the pinned opcode table; TLC-generated walking-value vectors compared byte for byte with the real encoder; recorded real encodings validated by TLC",
    text="The specification is an independent encoder for the 7-byte layout; TLC emits, for every class x field-wise valuation (all 64 registers, all 256 immediates, 32-bit walking ones and boundaries) and for streams x app ids x versions, the bytes the format demands, and the rig compares the real bytes; the extracted instruction table must contain every published entry; random real encodings are validated against Wire!EncSub and Wire!DecSub by TLC.",
    note="Trusted: TLC, the pinned table (\"published\" = table at the base commit), harness/isa.py."),
 "C15": dict(
    engine="msg", category="model_checking", design="5 C15",
    technique="TLA+ channel spec (Msg.tla); TLC-enumerated message universe replayed on the real bytes()/deserialize_*; recorded real round trips validated by TLC (MsgTrace)",
    text="TLC enumerates every message type with field-wise boundary values (u32 as limbs, i32 sign boundaries, all 64 registers) and every undefined-pattern of arrays of length 0..3 (quick) / 0..4 (thorough) and explores the Send/Deliver channel with the invariant delivered = sent; each universe entry is replayed on the real code and the projection of the deserialised message must equal the abstract message that was sent (not the ctypes-truncated object); random messages with wide values and arrays to length 64 are recorded and validated by TLC.",
    note="Trusted: TLC, harness/eng_msg.py projection. A defect found by this check (undefined entries -> 0) was repaired in /repo commit f486e13."),
 "C16": dict(
    engine="range", category="model_checking", design="5 C16",
    technique="TLA+ range predicate over wide (limb) integers (Range.tla); TLC-enumerated out-of-range vectors with the outcome the spec allows, replayed on the real encoder via direct construction and via the text assembler",
    text="TLC explores the machine ir -> bytes|rejected of spec/RangeMC.tla: for every class of every flavour and every operand position one value just outside or far outside the representable range (register index, 8-bit immediate, 32-bit integer/address, app id; values up to 2^64 as base-2^15 limbs) plus in-range boundary controls; the invariant is that bytes are only produced for in-range operands. Every vector is replayed on the real code through direct construction and through the text assembler up to bytes(Subroutine); an out-of-range vector that yields bytes is a violation and the report shows the different program those bytes decode to.",
    note="Trusted: TLC, harness/eng_range.py. The universal truncation found by this check was repaired in /repo (fix: commit 5ea1787). SDK entry points are exercised by the SDK-level checks."),
 "C17": dict(
    engine="text", category="model_checking", design="5 C17",
    technique="TLA+ canonical text form (Text.tla) with print-injectivity checked by TLC; TLC-enumerated vectors printed by the real printer and parsed by the real parser; text->binary->text on grouped subroutines",
    text="TLC explores ir -> text -> back over field-wise vectors of every class of every flavour (negative integers, entries, slices) and checks that the canonical text determines the instruction; for each vector the real str(instr) and the canonical text are parsed by the real parser with a long-lived and a fresh flavour object (another flavour being constructed in between) and must give an equal instruction of the same class; groups of 16 instructions go through text -> binary -> text.",
    note="Trusted: TLC, harness/eng_text.py; the real printer is judged only by the real parser."),
 "C04": dict(
    engine="machine", category="model_checking", design="5 C04",
    technique="TLA+ machine semantics (Machine.tla); TLC explores all programs <=N instrs (MachineMC) whose runs are replayed on the real executor; real step-by-step executions validated by TLC trace checking (MachineTrace)",
    text="spec->code: TLC builds every program of <=3 (quick) / <=4 (thorough) instructions over an alphabet with unstructured jump targets, runs it on Machine with a step bound, checks the machine invariants (used = mapped, injective unit module, fault leaves state untouched, shared registers only written by ret_reg) and prints each finished run, which the rig replays on the real Executor comparing the pc sequence and the final state. code->spec: systematic suffixes after a setup prefix, two-subroutine histories and random programs (<=40 instrs) are executed on the real Executor one instruction at a time; the projected state after every step (registers, arrays, shared memory, unit module, used set, pc, status, fault line) is validated by TLC as a behaviour of Machine, with a total verdict per case.",
    note="Trusted: TLC, harness/rig.py projection. Unspecified situations (arithmetic/branch on undefined registers, negative indices) are accepted and not counted. Gate/measure hooks are the rig's (scripted outcomes)."),
 "C03": dict(
    engine="asm", category="translation_validation", design="5 C03",
    technique="TLA+ source-level semantics + product with Machine (AsmRefine.tla); the real assembler's output for each generated source program is validated by TLC in lock-step over all small register valuations",
    text="Source programs (labels anywhere incl. consecutive and trailing, literals in every operand position incl. array indices and slice bounds, forward/backward jumps, register pressure up to 15 named R registers, macros with prefix-related keys, bracketed arguments, comments) are assembled by the REAL assembler through the IR path and the text paths; TLC runs the source semantics and the assembled program block by block for every valuation of the named registers and checks agreement on named registers, arrays, shared memory, qubits, quantum events, branch targets, instruction order and length. The repository's executor is not involved.",
    note="Trusted: TLC, Machine.tla as instruction semantics, the rig's rendering of source programs (harness/eng_asm.py). Two defects found by this check were repaired in /repo (dcd0b1e, 0ec57d5)."),
 "C12": dict(
    engine="epr", category="model_checking", design="5 C12",
    technique="TLA+ spec of request queues / pending responses / handler (Epr.tla): TLC checks invariants + liveness over all interleavings per scenario; ALL schedules of the real Executor (stateless DFS) are trace-validated by TLC (EprTrace) with the property invariants evaluated in every state",
    text="Per scenario (13 quick / 16 thorough: both roles, keep and measure, same and different sockets and remotes, responses before recv_epr, deferred keep responses followed by keep or measure requests, per-pair waits) TLC explores every interleaving of instruction steps, deliveries and retries of the specification that mirrors the handler and checks: no handler error, consumed at most once, consumed by the owner request as pair k (owner computed from issue and arrival order, independently of the mechanism), retirement after exactly tot pairs, used = mapped + reserved, no overwrite of an allocated virtual qubit, waits only pass when defined, termination and draining under fairness. The rig then forces EVERY schedule on the real Executor (exhaustive stateless DFS pruned by projected state) and TLC validates each as a behaviour of Epr, comparing queues, pending list, result arrays, unit module, used set and pc after every action.",
    note="Trusted: TLC, harness/rig.py (EprRun). Environment assumption: per (role, remote, purpose) responses arrive in generation order. The overtaking defect TLC found in the base handler was repaired in /repo (4376902); the spec mirrors the repaired handler (Scn.fix = no-overtake) and still contains the base variant."),
 "C13": dict(
    engine="ctrl", category="model_checking", design="5 C13",
    technique="TLA+ spec of the controller (Controller.tla: application lifecycle, global physical-qubit pool, interleaved subroutines, keep responses) model-checked by TLC to a depth bound; histories of the real QNodeController/Executor (bounded exhaustive DFS + long random walks) trace-validated by TLC (ControllerTrace) with the property invariants evaluated in every state",
    text="TLC explores all histories of register/stop/re-register, library subroutines of 2 applications interleaved at instruction grain, keep deliveries onto any unused physical qubit and retries, to depth 14 (quick) / 17 (thorough), checking: no two allocated virtual qubits share a physical qubit, in-use = mapped + reserved (= mapped when nothing is pending), an action only changes the applications it acts for, stop releases exactly the application's qubits and all its state, an unregistered id can always be registered. The same operations are performed on the real controller through real message bytes; an exhaustive DFS to depth 7/9 and 200/1500 random walks of 120/300 operations over up to 3 applications and unit modules 1..4 are validated by TLC against the specification, projecting every application's registers, arrays, shared memory, unit module, the used set, pending responses and the shared-memory registry.",
    note="Trusted: TLC, harness/rig.py (ControllerRun). Depth-bounded exploration; no unbounded (inductive) proof was built. The re-registration defect found by this check was repaired in /repo (8d4c1be)."),
 "C18": dict(
    engine="hub", category="model_checking", design="5 C18",
    technique="statement-level TLA+ spec of the socket hub (Hub.tla) model-checked by TLC incl. liveness; ALL schedules of REAL threads under a deterministic statement-level scheduler (stateless DFS); API histories validated by TLC against the atomic-API spec HubAbs with TLC choosing linearization points; outcome-set conformance Hub.tla <-> real threads",
    text="Per scenario (6 quick / 9 thorough: FIFO, both directions, callback endpoints, early disconnect, send after the peer left, non-blocking polls, two socket ids, 2 and 4 threads) (a) TLC explores every interleaving of the statement-level model (one action per shared-state statement of socket_hub.py, in the statement order of the working tree) and checks FIFO-prefix, conservation, no stranding at callback endpoints and termination under strong fairness; (b) the rig runs the real ThreadSocket code on real threads, preempting at every source line that touches shared hub state, and enumerates all schedules by stateless DFS pruned by state; states from which no schedule lets the endpoints finish are reported (rendezvous, lost wake-ups); (c) each distinct API history (calls, returns, callback invocations, final queues) is validated by TLC against HubAbs - the property itself - as a linearizability check; (d) the set of outcomes of the real threads must be a subset of the outcomes Hub.tla allows.",
    note="Trusted: TLC, harness/sched.py (sys.settrace scheduler, cooperative lock). Assumes Python statements are atomic (GIL). The callback race found by TLC and by the real-thread exploration was repaired in /repo (f40b165)."),
 "C07": dict(
    engine="nv", category="translation_validation", design="5 C07",
    technique="exact Clifford-frame + Pauli-rotation normal form in TLA+ (Pauli.tla, Gates.tla); every expansion emitted by the REAL NV transpiler is validated by TLC (NvEquiv) against the vanilla gate's denotation; published matrices compared numerically with the denotation exported by TLC",
    text="For every vanilla gate the transpiler accepts x every placement over electron (id 0) and carbons (ids 1, 2) the real NVSubroutineTranspiler output is handed to TLC, which computes the normal form of the gate and of the expansion on three qubits (so a borrowed electron must be restored) and compares them - equality up to global phase, valid for every input state; MOV is checked by the state-transfer condition in both directions; rotations over (n, d) boundaries, all d <= 8, random pairs, literal pass-through for d > 20, and the hardware-mode angle normalisation for d in 0..4. The published matrix of every instruction class of both flavours is compared numerically (1e-9, up to phase) with the symbolic denotation exported by TLC.",
    note="Trusted: TLC, the normal-form calculus (Pauli.tla; exact when residual rotations commute, otherwise the check stops with exit 2), numpy for the matrix clause. Defects found and repaired in /repo: S/T adjoints (8beb0e2), crot_y matrix axis (9845c94)."),
 "C19": dict(
    engine="angle", category="exploration", design="5 C19",
    technique="exact fixed-point acceptance predicate in TLA+ (Angle.tla, 4 limbs base 2^15) evaluated by TLC on the recorded outputs of the real float function",
    text="The property (every step has 0<=n<=255 and 0<=d<=255 and the steps add up to the angle modulo 2 pi within the tolerance) is a TLC-evaluated predicate in fixed-point arithmetic of resolution 2^-45 half turns; the real get_angle_spec_from_float is sampled on negative angles, angles beyond 2 pi, dyadic multiples of pi down to pi/2^32, values within tolerance of 0 and 2 pi and random angles, for tolerances 1e-1..1e-9 called in ascending and descending order on the same angle, and every returned step list is validated. This is sampling of a numeric function with an exact oracle, not model checking of IEEE-754 code.",
    note="Trusted: TLC, the rig's exact rational conversion of floats (fractions.Fraction, 60-digit pi). Two defects found and repaired in /repo (364376d): tolerance compared in units of pi; steps with d>=32 dropped."),
 "C20": dict(
    engine="toolbox", category="translation_validation", design="5 C20",
    technique="executed gate/measure logs of the real SDK->controller pipeline validated by TLC: operator identities by the Pauli-rotation normal form (NvEquiv with reference circuits from Toolbox), parity measurements by Heisenberg pull-back (ParityCheck), state preparation by the fixed-point angle predicate (AngleTrace)",
    text="toffoli_gate (all 6 role assignments) and t_inverse are run through the real SDK, real message bytes and the real controller; TLC proves the executed gate sequence equal, up to global phase and for every input state, to the reference H CCZ H (CCZ as its 7 commuting Z-string rotations) and to Rz(-pi/4). parity_meas is run for every signed Pauli string over I,X,Y,Z of length 1..3 and both outcomes: TLC checks that the measured observable pulled back to the initial frame is exactly +P (ancilla in |0>), that no data operator commuting with P is disturbed, and the rig checks the returned bit = outcome xor sign. set_qubit_state on a (theta, phi) grid incl. negative angles: structure exactly, angles by the C19 predicate.",
    note="Trusted: TLC, Pauli.tla, the rig's gate log (scripted outcomes instead of a state-vector backend - the operator identity is stronger than sampled states). The Toffoli reference is sanity-checked numerically against the 8x8 matrix."),
 "C05": dict(
    engine="host", category="model_checking", design="5 C05",
    technique="TLA+ big-step semantics of SDK host programs (Host.tla); histories of SDK calls executed on the real SDK -> real message bytes -> real controller are validated by TLC (HostTrace) against the direct evaluation; failing histories are shrunk by delta debugging (real SDK + TLC in the loop)",
    text="Host programs built from if_eq/ne/lt/ge/ez/nz (context and callback forms), loop, loop_body, foreach, enumerate, loop_until with an at-most exit condition and cleanup, add with and without modulus and with future operands, arrays with initial values (all-equal, mixed, undefined), measurement into new arrays, array entries (constant and loop-variable indices) and registers, nested to depth 3 and split over 1-3 flushes with host reads early and late, are executed through the real pipeline; per flush the controller arrays and the executed gate/measurement log, per read the value the real handle returns, are compared by TLC with Host!Flush. Directed cases cover every comparison x form x truth value, nested loops reusing indices, every placement of an extra flush.",
    note="Trusted: TLC, Host.tla (my reading of 'executing the program directly'), harness/sdkrun.py (annotates programs with the SDK's address/qubit-id choices). Register futures are only exercised inside the subroutine that creates them; their cross-flush defects are listed as known findings. Three defects found and repaired in /repo (e3c4e1a, 774427d, 416ed1e)."),
 "C06": dict(
    engine="c06", category="model_checking", design="5 C06",
    technique="Host.tla extended with Compile / Commit(obj, valuation) (HostTrace): histories mixing compile, instantiate+commit and flushes on one connection are executed on the real SDK/controller and validated by TLC; the pre-compiled and the direct flow are also compared with each other, with and without the NV transpiler",
    text="Commit of an instantiated object is specified as Host!Flush of the same operations with the template values filled in, and compile leaves nothing pending (as a flush). Random histories (1-4 blocks of rotations with template numerators from {0,1,3,16,255}, gates, adds, conditionals, measurements; objects committed at once or after later flushes; a closing flush and array reads) run through the real pipeline in the pre-compiled flow and, where possible, in the direct flow; TLC compares controller arrays, gate log and host reads per flush/commit with the specification; with the NV transpiler the two real flows are compared with each other (gate log, arrays, reads).",
    note="Trusted: as C05. The missing builder reset in compile() was found by this check and repaired in /repo (622f2fb)."),
 "C14": dict(
    engine="c14", category="model_checking", design="5 C14",
    technique="Host.tla has no register pool, so the property is a conformance statement: long histories (hundreds of completed SDK operations on one connection) must compile on the real SDK and be accepted by TLC trace validation (HostTrace)",
    text="15 directed kinds (if with each of the six comparisons on futures, if on two futures, loop, foreach/enumerate, loop_until, add with a future operand, measure into array / register, three-deep nesting that uses the outer indices, operations with empty bodies) are repeated 40 times each with a flush after every 1st / 3rd / 10th operation, plus random mixed histories of 100-400 operations nested to depth 4; any resource error of the builder ('could not find an available loop register', 'Ran out of M-registers', ...) is a violation, and every history is validated against Host.tla so that a temporary overwriting a live loop index shows as a wrong result.",
    note="Trusted: as C05. The register leaks of if_ez/if_nz and loop_until were found by this check and repaired in /repo (8c1ccff)."),
 "C09": dict(
    engine="c09", category="model_checking", design="5 C09",
    technique="TLA+ spec of live qubit handles and the qubit budget (Qubits.tla); legal histories are executed on the real SDK -> controller (with the rig's link answering EPR requests) and validated by TLC; failing histories are shrunk by event deletion",
    text="The specification keeps the set of live handles and the guards (allocation and keep need free slots; budget - 1 on NV hardware; sequential forms need one slot, context forms n). Random legal histories of qubit creation, gates, in-place and destructive measurement, free, create/recv keep, sequential post routines, contexts and flushes for budgets 1..5 on generic hardware (full grammar) and NV hardware with and without the NV transpiler (single-pair requests, sequential form), plus the directed patterns of the property text, run through the real pipeline; at every flush TLC checks: no controller fault, active_qubits = the controller's allocated virtual qubits, their number = |live|, every live handle owns a distinct allocated id.",
    note="Trusted: TLC, harness/eng_c09.py (mirrors the spec's guards when generating). NV multi-pair requests, NV contexts and carbon-carbon gates under the NV transpiler are exercised only by directed cases that are listed as known findings. Four defects found and repaired in /repo (free, context, sequential ID release; NV relocation peephole)."),
    "C10": dict(
        engine="c10", category="model_checking", design="5 C10",
        technique="TLA+ Pauli-frame specification (BellFrame.tla: Deliver / Pauli / Mov / Use / End per physical qubit, stabiliser statistics for measure-directly); every keep-type API variant is executed on the real SDK -> controller -> executor against a scripted link for all Bell-state tuples and the executor's gate log is validated as a trace by TLC",
        text="For each variant (recv/create keep, with info, post routine keeping or measuring the qubit, sequential, sequential with classical feed-forward, recv_rsp, recv_rsp_with_info) x generic / single-communication-qubit hardware x role x expect_phi_plus x 1..3 (thorough: 4) pairs x ALL Bell-state tuples x 0..2 other live qubits the real subroutine runs; TLC replays deliveries, X/Z corrections, moves and the application's first own operation per physical qubit and checks that pair i's accumulated Pauli equals the one its Bell state demands when the application first sees it (or at the end), that no correction touches another qubit, and that nothing is corrected for creators or with the expectation off. Measure-directly: create_measure and recv_measure run end to end for 4 Bell states x 6 named bases x expectation on/off x 4 raw outcome pairs; TLC judges the post-processed pairs against the Phi+ stabiliser statistics (parity and uniformity on the support of the delivered state), both for recv_measure as it is and for the result object when it is given the bases.",
        note="Trusted: TLC, the rig's link (harness/rig.py AutoLink), the mapping of rot_x/rot_z 16 4 to X/Z. recv_context has no expectation switch and is out of scope. Traces that the SDK refuses or that fault for qubit-management reasons (NV relocation with several pairs; property C09's known findings) are not judged and counted in the evidence notes. One defect repaired in /repo (corrections before a post routine); two recorded as known findings (keep corrections aimed at virtual qubit 0: pinned by the test-suite text; recv_measure post-processes as if the basis were Z: needs an API change)."),
    "C11": dict(
        engine="c11", category="model_checking", design="5 C11",
        technique="TLA+ specification of what must arrive at the other end of the request and result paths (EprFields.tla: Expected / QExpected / Source); requests built by every create-type API on the real SDK run on the real controller and the LinkLayerCreate received by a recording stack plus its real link-layer 1.0 conversion are validated by TLC; scripted responses with distinct values in every field are read back through every result handle and validated by TLC",
        text="Requests: create_keep (plain, with info, post routine, sequential, context), create_measure, create_rsp and the generic create() for K/M/R x 1..3 pairs x six time unit/limit combinations x all named bases on both sides x rotation triples (boundaries, every single-slot value 0..31 in the thorough tier, random triples) x every random-basis set on both sides x two remote nodes / socket ids: TLC compares all 22 LinkLayerCreate fields with Expected(p), requires the real request_to_qlink_1_0 to accept the request, and compares every field of the converted request. Results: 13 create/recv APIs x 1..3 pairs, alone and two per subroutine on different sockets and nodes (recv streams offered before the matching instruction runs), with responses whose create id, physical qubit, sequence number, goodness, time, Bell state, outcome and basis all differ per pair: every field of every qubit's entanglement info, the physical qubit behind qubit i, and every attribute of EprKeepResult / EprMeasureResult are read after the flush and TLC checks each equals the field of pair i's response that Source names.",
        note="Trusted: TLC, the recording stack and scripted link of harness/rig.py, the installed qlink_interface package. Receive calls send nothing to the stack in this code base; their socket and node ids are covered through routing of the responses. min_fidelity_all_at_end / max_tries wrap the request in a retry loop and are not varied. Two defects repaired in /repo (random-basis enums, R-type conversion)."),
}

REASON_TODO = "check not built yet (work in progress; see DESIGN.md section 9)"

def main():
    checks, na = [], []
    for p in props:
        i = p["id"]
        c = CHECKS.get(i)
        if not c:
            na.append({"property_id": i, "reason": REASON_TODO})
            continue
        checks.append({
            "property_id": i,
            "quick_cmd": f"./check {i} --tier quick",
            "thorough_cmd": f"./check {i} --tier thorough",
            "evidence_file": f"/verif/evidence/{i}.json",
            "replay_cmd_template": f"./check {i} --replay {{path}}",
            "engine": c["engine"],
            "level_claimed": {"category": c["category"], "text": c["text"], "design_ref": c["design"]},
            "level_note": c["note"],
            "technique": c["technique"],
        })
    engines = {}
    for i, c in CHECKS.items():
        engines.setdefault(c["engine"], []).append(i)
    m = {
        "version": 1,
        "setup_cmd": "cd /verif && ./setup.sh",
        "hooks": {"guard": "QUTECH_DELFT_NETQASM_VERIF",
                  "enable": "no source hooks: the rig binds by subclassing public extension points and by tracing; the variable is reserved",
                  "baseline_off_cmd": "cd /repo && /venv/bin/python -m pytest -ra -q -p no:cacheprovider --timeout=900 --continue-on-collection-errors",
                  "source_commits": [], "add_only": True},
        "engines": [{"name": n, "path": f"/verif/harness/eng_{n}.py", "serves_properties": sorted(ps),
                     "kind_free_text": "TLA+ spec under /verif/spec checked with TLC + Python conformance rig"} for n, ps in sorted(engines.items())],
        "checks": checks,
        "notes": "All checks: exit 0 held / 1 VIOLATION / 2 machinery failure. Known findings in /verif/known_findings.json. See DESIGN.md.",
        "not_applicable": na,
    }
    json.dump(m, open(f"{V}/MANIFEST.json", "w"), indent=1)
    print(f"{len(checks)} checks, {len(na)} not claimed")

if __name__ == "__main__":
    main()
