#!/bin/sh
# usage: tools/seedtest.sh <dir containing patch.diff> <prop> [prop...]   (env TIER=quick|thorough)
# applies the seeded change to /repo, runs the named checks, and ALWAYS reverts.
D="$1"; shift
cd /repo || exit 2
if [ -n "$(git status --porcelain --untracked-files=no)" ]; then echo "/repo not clean"; exit 2; fi
git apply "$D/patch.diff" || { echo "patch does not apply"; exit 2; }
trap 'git -C /repo checkout -- . ' EXIT INT TERM
cd /verif
for p in "$@"; do
  ./check "$p" --tier "${TIER:-quick}" > /tmp/seedtest.$$.out 2>&1; rc=$?
  echo "== $D $p rc=$rc"; grep -E "^(VIOLATION|KNOWN-FINDING|MACHINERY)" /tmp/seedtest.$$.out | head -8
  grep -A2 "^VIOLATION" /tmp/seedtest.$$.out | grep -v "^VIOLATION\|^--" | head -6
done
rm -f /tmp/seedtest.$$.out
