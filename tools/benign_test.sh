#!/bin/sh
# usage: tools/benign_test.sh [name ...]
# Negative controls: correct refactorings under seeded/_benign. For each: scratch worktree of /repo HEAD, apply, the
# repository's suite must pass, and the check of the property (from meta.json) must exit 0. Never touches /repo.
cd /verif
[ $# -eq 0 ] && set -- $(ls seeded/_benign)
for n in "$@"; do
  D=/verif/seeded/_benign/$n
  P=$(python3 -c "import json;print(json.load(open('$D/meta.json'))['property'])")
  W=/tmp/wtb_$$_$n
  git -C /repo worktree add --detach "$W" >/dev/null 2>&1 || { echo "$n: cannot create worktree"; continue; }
  if ( cd "$W" && git apply "$D/patch.diff" ); then
    S=$(cd "$W" && PYTHONPATH="$W" /venv/bin/python -m pytest -q -p no:cacheprovider --timeout=900 --continue-on-collection-errors 2>&1 | tail -1)
    VERIF_REPO="$W" VERIF_OUT_SUFFIX=.benign$$ ./check "$P" --tier "${TIER:-quick}" > /tmp/benign.$$.out 2>&1; rc=$?
    echo "$n: suite=[$S] $P rc=$rc $(grep -c '^VIOLATION' /tmp/benign.$$.out) violation line(s)"
    [ $rc -ne 0 ] && grep -A2 -E "^(VIOLATION|MACHINERY)" /tmp/benign.$$.out | cut -c1-300 | head -8
  else
    echo "$n: patch does not apply"
  fi
  git -C /repo worktree remove --force "$W" >/dev/null 2>&1
done
rm -rf /tmp/benign.$$.out /tmp/verif_out.benign$$
