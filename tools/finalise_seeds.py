#!/usr/bin/env python3
"""Confirm seeded changes and record which checks catch them.

usage: tools/finalise_seeds.py <inbox dir> <first seed number> [Cxx ...]
  <inbox dir>/Cxx/{1,2}/{patch.diff,demo.py[,meta.json]}  ->  /verif/seeded/Cxx-<n>/

For every seed: (1) in a scratch worktree of /repo HEAD: the patch applies, the
repository's test suite still passes (171), the demo fails with the patch and
passes without; (2) with the patch applied to /repo's working tree (always
reverted afterwards) the property's own check and the extra checks listed in
EXTRA are run in the quick tier.  Only confirmed seeds are kept.  Nothing is
ever committed to /repo.
"""
import json
import os
import re
import shutil
import subprocess
import sys

EXTRA = {"C11": ["C12"], "C07": ["C08"], "C12": ["C11"], "C08": ["C07"], "C05": ["C14"], "C14": ["C05"], "C01": ["C02"], "C02": ["C01"],
         "C10": ["C11"], "C16": ["C03"], "C03": ["C17"], "C17": ["C03"], "C09": ["C05"], "C06": ["C05"]}
FALLBACK_META = {
    "C05/1": dict(summary="Builder._get_condition_operand inlines the value of a Future that the Host already knows (from an earlier flush) as an immediate instead of loading the array entry at run time",
                  needs="a conditional on an array entry that an EARLIER subroutine wrote and the CURRENT subroutine modifies before the conditional (or a later flush changes): the branch then uses the stale host-side value"),
    "C05/2": dict(summary="the executor's ret_arr hands the Host a copy (list(array)) of the array instead of the shared object",
                  needs="a subroutine that returns an array and keeps writing to it afterwards / a later subroutine writing to an already returned array without returning it again: the Host no longer sees the writes"),
    "C09/1": dict(summary="MemoryManager caches the set of used virtual qubit IDs next to the list of active qubits and the builder's relocation reassigns IDs in that cache",
                  needs="a history in which a qubit's ID changes or a qubit is deactivated by a path that bypasses the cache (measurement / free after relocation): SDK and controller then disagree on which IDs exist"),
    "C09/2": dict(summary="Qubit.measure() marks the qubit inactive BEFORE building the measurement commands instead of after",
                  needs="a destructive measurement on hardware/paths where building the measurement looks at the active qubits (NV relocation to free the communication qubit): the freed ID is handed out while the controller still holds the qubit"),
    "C11/1": dict(summary="the executor caches the purpose id per EPR socket id and no longer asks the network stack for (remote node, socket id)",
                  needs="two EPR sockets with the same socket id towards different remote nodes on a stack whose purpose ids depend on the node: the second request carries the first one's purpose id"),
    "C11/2": dict(summary="pending EPR responses are kept in a deque and the handled one is removed with popleft() instead of pop(i)",
                  needs="a response that has to be parked (its recv_epr has not run yet) ahead of a response that can be handled: the parked one is dropped and the handled one is delivered twice / the subroutine waits forever"),
}


def sh(cmd, **kw):
    return subprocess.run(cmd, shell=True, capture_output=True, text=True, **kw)


def confirm(d):
    w = f"/tmp/wtc_{os.getpid()}"
    sh(f"git -C /repo worktree remove --force {w}")
    if sh(f"git -C /repo worktree add --detach {w}").returncode:
        return dict(status="machinery: cannot create a scratch worktree")
    try:
        if sh(f"git apply {d}/patch.diff", cwd=w).returncode:
            return dict(status="patch does not apply to the current tree")
        suite = sh(f"PYTHONPATH={w} /venv/bin/python -m pytest -q -p no:cacheprovider --timeout=900 --continue-on-collection-errors 2>&1 | tail -1", cwd=w).stdout.strip()
        p = sh(f"PYTHONPATH={w} timeout 120 /venv/bin/python {d}/demo.py", cwd=w).returncode
        sh("git checkout -q -- .", cwd=w)
        q = sh(f"PYTHONPATH={w} timeout 120 /venv/bin/python {d}/demo.py", cwd=w).returncode
        ok = "171 passed" in suite and "failed" not in suite and p != 0 and q == 0
        return dict(status="confirmed" if ok else "not confirmed", suite=suite, demo_rc_with_patch=p, demo_rc_without_patch=q,
                    commands=["git apply patch.diff", "PYTHONPATH=<worktree> /venv/bin/python -m pytest -q -p no:cacheprovider --timeout=900 --continue-on-collection-errors",
                              "PYTHONPATH=<worktree> /venv/bin/python demo.py   (with the patch, then after git checkout -- .)"])
    finally:
        sh(f"git -C /repo worktree remove --force {w}")


def run_checks(d, props):
    out = {}
    if sh("git status --porcelain --untracked-files=no", cwd="/repo").stdout.strip():
        raise SystemExit("/repo is not clean")
    if sh(f"git apply {d}/patch.diff", cwd="/repo").returncode:
        return {p: dict(rc=None, note="patch does not apply") for p in props}
    try:
        for p in props:
            r = sh(f"./check {p} --tier quick", cwd="/verif")
            lines = r.stdout.splitlines()
            viol = [l for l in lines if l.startswith("VIOLATION")]
            clauses = sorted({m.group(1) for l in lines for m in [re.search(r"clause=(\S+)", l)] if m})
            out[p] = dict(tier="quick", rc=r.returncode, violations=len(viol), clauses=clauses[:6],
                          machinery=[l[:200] for l in lines if l.startswith("MACHINERY")][:2])
    finally:
        sh("git checkout -- .", cwd="/repo")
    return out


def main():
    inbox, first = sys.argv[1], int(sys.argv[2])
    only = set(sys.argv[3:])
    summary = []
    for prop in sorted(os.listdir(inbox)):
        if not re.fullmatch(r"C\d\d", prop) or (only and prop not in only):
            continue
        for n in (1, 2):
            d = os.path.join(inbox, prop, str(n))
            if not os.path.exists(os.path.join(d, "patch.diff")):
                continue
            sid = f"{prop}-{first + n - 1}"
            meta = {}
            mp = os.path.join(d, "meta.json")
            if os.path.exists(mp):
                try:
                    meta = json.load(open(mp))
                except Exception:
                    meta = {}
            if not meta:
                meta = dict(FALLBACK_META.get(f"{prop}/{n}", {}))
                meta["note"] = "summary written from the patch (the seeding helper's own meta.json was lost)"
            meta["property"] = prop
            meta["files_changed"] = sorted({l.split(" b/")[1].strip() for l in open(os.path.join(d, "patch.diff")) if l.startswith("diff --git")})
            conf = confirm(d)
            meta["confirmation"] = conf
            meta["head"] = sh("git -C /repo rev-parse --short HEAD").stdout.strip()
            if conf.get("status") == "confirmed":
                checks = run_checks(d, [prop] + EXTRA.get(prop, []))
                meta["checks_run"] = checks
                meta["caught_by"] = sorted(p for p, r in checks.items() if r.get("rc") == 1)
                dest = f"/verif/seeded/{sid}"
                shutil.rmtree(dest, ignore_errors=True)
                shutil.copytree(d, dest)
                # helper modules of the demo that live next to the numbered directories
                for f in os.listdir(os.path.join(inbox, prop)):
                    fp = os.path.join(inbox, prop, f)
                    if os.path.isfile(fp) and f.endswith(".py"):
                        shutil.copy(fp, dest)
                json.dump(meta, open(os.path.join(dest, "meta.json"), "w"), indent=1)
                summary.append((sid, "confirmed", ",".join(meta["caught_by"]) or "NOT CAUGHT"))
            else:
                dest = f"/verif/seeded/_not_confirmed/{sid}"
                shutil.rmtree(dest, ignore_errors=True)
                shutil.copytree(d, dest)
                json.dump(meta, open(os.path.join(dest, "meta.json"), "w"), indent=1)
                summary.append((sid, conf.get("status"), f"suite={conf.get('suite')} demo {conf.get('demo_rc_with_patch')}/{conf.get('demo_rc_without_patch')}"))
            print(*summary[-1], flush=True)
    return 0


if __name__ == "__main__":
    sys.exit(main())
