#!/usr/bin/env python3
"""Confirm seeded changes and record which checks catch them.

usage: tools/finalise_seeds.py <inbox dir> <first seed number> [Cxx ...]
  <inbox dir>/Cxx/{1,2}/{patch.diff,demo.py[,meta.json]}  ->  /verif/seeded/Cxx-<n>/

For every seed: (1) in a scratch worktree of /repo HEAD: the patch applies, the
repository's test suite still passes (171), the demo fails with the patch and
passes without; (2) with the patch applied to /repo's working tree (always
reverted afterwards) the property's own check and the extra checks listed in
EXTRA are run in the quick tier.  Only confirmed seeds are kept.  Nothing is
ever committed to /repo.
"""
import json
import os
import re
import shutil
import subprocess
import sys

EXTRA = {"C01": ["C02"], "C02": ["C01", "C16", "C08"], "C03": ["C17"], "C05": ["C14"], "C06": ["C05"], "C07": ["C08", "C01"], "C08": ["C07"],
         "C09": ["C05", "C08", "C10"], "C10": ["C11", "C12", "C09"], "C11": ["C12"], "C12": ["C11", "C13"], "C13": ["C04", "C12", "C15"], "C14": ["C05"], "C16": ["C02", "C03"],
         "C17": ["C03", "C01"], "C19": ["C20"], "C20": ["C09", "C05", "C07", "C08", "C13", "C11"], "C04": ["C13"]}
FALLBACK_META = {
    "C05/1": dict(summary="Builder._get_condition_operand inlines the value of a Future that the Host already knows (from an earlier flush) as an immediate instead of loading the array entry at run time",
                  needs="a conditional on an array entry that an EARLIER subroutine wrote and the CURRENT subroutine modifies before the conditional (or a later flush changes): the branch then uses the stale host-side value"),
    "C05/2": dict(summary="the executor's ret_arr hands the Host a copy (list(array)) of the array instead of the shared object",
                  needs="a subroutine that returns an array and keeps writing to it afterwards / a later subroutine writing to an already returned array without returning it again: the Host no longer sees the writes"),
    "C09/1": dict(summary="MemoryManager caches the set of used virtual qubit IDs next to the list of active qubits and the builder's relocation reassigns IDs in that cache",
                  needs="a history in which a qubit's ID changes or a qubit is deactivated by a path that bypasses the cache (measurement / free after relocation): SDK and controller then disagree on which IDs exist"),
    "C09/2": dict(summary="Qubit.measure() marks the qubit inactive BEFORE building the measurement commands instead of after",
                  needs="a destructive measurement on hardware/paths where building the measurement looks at the active qubits (NV relocation to free the communication qubit): the freed ID is handed out while the controller still holds the qubit"),
    "C11/1": dict(summary="the executor caches the purpose id per EPR socket id and no longer asks the network stack for (remote node, socket id)",
                  needs="two EPR sockets with the same socket id towards different remote nodes on a stack whose purpose ids depend on the node: the second request carries the first one's purpose id"),
    "C11/2": dict(summary="pending EPR responses are kept in a deque and the handled one is removed with popleft() instead of pop(i)",
                  needs="a response that has to be parked (its recv_epr has not run yet) ahead of a response that can be handled: the parked one is dropped and the handled one is delivered twice / the subroutine waits forever"),
}


def sh(cmd, **kw):
    return subprocess.run(cmd, shell=True, capture_output=True, text=True, **kw)


def process(args):
    """one seed, entirely inside its own scratch worktree of /repo HEAD (never /repo itself):
    confirm, then run the checks against the patched worktree through VERIF_REPO"""
    d, prop, sid = args
    w = f"/tmp/wtc_{sid}"
    sh(f"git -C /repo worktree remove --force {w}")
    shutil.rmtree(w, ignore_errors=True)
    if sh(f"git -C /repo worktree add --detach {w}").returncode:
        return sid, dict(status="machinery: cannot create a scratch worktree"), {}
    try:
        if sh(f"git apply {d}/patch.diff", cwd=w).returncode:
            return sid, dict(status="patch does not apply to the current tree"), {}
        suite = sh(f"PYTHONPATH={w} /venv/bin/python -m pytest -q -p no:cacheprovider --timeout=900 --continue-on-collection-errors 2>&1 | tail -1", cwd=w).stdout.strip()
        p = sh(f"PYTHONPATH={w} timeout 180 /venv/bin/python {d}/demo.py", cwd=w).returncode
        # (no git stash: the stash stack is shared by all worktrees of a repository)
        if sh(f"git apply -R {d}/patch.diff", cwd=w).returncode:
            return sid, dict(status="machinery: cannot revert the patch"), {}
        q = sh(f"PYTHONPATH={w} timeout 180 /venv/bin/python {d}/demo.py", cwd=w).returncode
        if sh(f"git apply {d}/patch.diff", cwd=w).returncode or not sh("git diff --stat", cwd=w).stdout.strip():
            return sid, dict(status="machinery: cannot re-apply the patch"), {}
        ok = "171 passed" in suite and "failed" not in suite and p != 0 and q == 0
        conf = dict(status="confirmed" if ok else "not confirmed", suite=suite, demo_rc_with_patch=p, demo_rc_without_patch=q,
                    commands=["git apply patch.diff   (scratch worktree of /repo HEAD)",
                              "PYTHONPATH=<worktree> /venv/bin/python -m pytest -q -p no:cacheprovider --timeout=900 --continue-on-collection-errors",
                              "PYTHONPATH=<worktree> /venv/bin/python demo.py   (with the patch, then without)"])
        checks = {}
        if ok:
            for pr in [prop] + EXTRA.get(prop, []):
                r = sh(f"VERIF_REPO={w} VERIF_OUT_SUFFIX=.seed-{sid} ./check {pr} --tier quick", cwd="/verif")
                lines = r.stdout.splitlines()
                viol = [l for l in lines if l.startswith("VIOLATION")]
                clauses = sorted({m.group(1) for l in lines for m in [re.search(r"clause=(\S+)", l)] if m})
                checks[pr] = dict(tier="quick", cmd=f"VERIF_REPO=<patched worktree> ./check {pr} --tier quick", rc=r.returncode, violations=len(viol), clauses=clauses[:6],
                                  machinery=[l[:200] for l in (lines + r.stderr.splitlines()) if l.startswith("MACHINERY")][:2])
        return sid, conf, checks
    finally:
        sh(f"git -C /repo worktree remove --force {w}")
        shutil.rmtree(w, ignore_errors=True)


def main():
    from concurrent.futures import ThreadPoolExecutor
    inbox, first = sys.argv[1], int(sys.argv[2])
    only = set(sys.argv[3:])
    jobs = []
    for prop in sorted(os.listdir(inbox)):
        if not re.fullmatch(r"C\d\d", prop) or (only and prop not in only):
            continue
        for n in (1, 2):
            d = os.path.join(inbox, prop, str(n))
            if os.path.exists(os.path.join(d, "patch.diff")) and os.path.exists(os.path.join(d, "demo.py")):
                jobs.append((d, prop, f"{prop}-{first + n - 1}"))
    head = sh("git -C /repo rev-parse --short HEAD").stdout.strip()
    with ThreadPoolExecutor(max_workers=int(os.environ.get("SEED_JOBS", "3"))) as pool:
        for (d, prop, sid), (sid2, conf, checks) in zip(jobs, pool.map(process, jobs)):
            n = d.rstrip("/").split("/")[-1]
            meta = {}
            mp = os.path.join(d, "meta.json")
            if os.path.exists(mp):
                try:
                    meta = json.load(open(mp))
                except Exception:
                    meta = {}
            if not meta:
                meta = dict(FALLBACK_META.get(f"{prop}/{n}", {})) if "_inbox2" not in d else {}
                meta["note"] = "summary written from the patch (the seeding helper's own meta.json was lost)"
            meta["property"] = prop
            meta["files_changed"] = sorted({l.split(" b/")[1].strip() for l in open(os.path.join(d, "patch.diff")) if l.startswith("diff --git")})
            meta["confirmation"] = conf
            meta["head"] = head
            if conf.get("status") == "confirmed":
                meta["checks_run"] = checks
                meta["caught_by"] = sorted(p for p, r in checks.items() if r.get("rc") == 1)
                dest = f"/verif/seeded/{sid}"
            else:
                dest = f"/verif/seeded/_not_confirmed/{sid}"
            shutil.rmtree(dest, ignore_errors=True)
            shutil.copytree(d, dest)
            for f in os.listdir(os.path.join(inbox, prop)):
                fp = os.path.join(inbox, prop, f)
                if os.path.isfile(fp) and f.endswith(".py"):
                    shutil.copy(fp, dest)
            json.dump(meta, open(os.path.join(dest, "meta.json"), "w"), indent=1)
            if conf.get("status") == "confirmed":
                print(sid, "confirmed", "caught by " + ",".join(meta["caught_by"]) if meta["caught_by"] else "NOT CAUGHT", {k: v["rc"] for k, v in checks.items()}, flush=True)
            else:
                print(sid, conf.get("status"), f"suite={conf.get('suite')} demo {conf.get('demo_rc_with_patch')}/{conf.get('demo_rc_without_patch')}", flush=True)
    return 0


if __name__ == "__main__":
    sys.exit(main())
