#!/bin/sh
# usage: tools/confirm_seed.sh <dir with patch.diff, demo.py>
# Confirms, in a scratch worktree of /repo HEAD: patch applies, suite passes (171), demo fails with and passes without.
D="$1"; W=/tmp/wtc_$$
git -C /repo worktree add --detach "$W" >/dev/null 2>&1 || exit 2
trap 'git -C /repo worktree remove --force "$W" >/dev/null 2>&1' EXIT
cd "$W"
git apply "$D/patch.diff" 2>/dev/null || { echo "$D: PATCH-DOES-NOT-APPLY"; exit 3; }
S=$(PYTHONPATH="$W" /venv/bin/python -m pytest -q -p no:cacheprovider --timeout=900 --continue-on-collection-errors 2>&1 | tail -1)
PYTHONPATH="$W" timeout 120 /venv/bin/python "$D/demo.py" >/dev/null 2>&1; P=$?
git checkout -q -- .
PYTHONPATH="$W" timeout 120 /venv/bin/python "$D/demo.py" >/dev/null 2>&1; Q=$?
echo "$D: suite=[$S] demo_patched_rc=$P demo_clean_rc=$Q"
