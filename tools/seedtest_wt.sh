#!/bin/sh
# usage: tools/seedtest_wt.sh <dir containing patch.diff> <prop> [prop...]   (env TIER=quick|thorough)
# like seedtest.sh, but never touches /repo: the change is applied in a scratch worktree of /repo HEAD and the
# checks run against it through VERIF_REPO; evidence/replays of these runs go to /tmp/verif_out.wt<pid>.
D="$1"; shift
W=/tmp/wts_$$
git -C /repo worktree add --detach "$W" >/dev/null 2>&1 || exit 2
trap 'git -C /repo worktree remove --force "$W" >/dev/null 2>&1; rm -rf "$W" /tmp/verif_out.wt'$$ EXIT INT TERM
( cd "$W" && git apply "$D/patch.diff" ) || { echo "patch does not apply"; exit 2; }
cd /verif
for p in "$@"; do
  VERIF_REPO="$W" VERIF_OUT_SUFFIX=.wt$$ ./check "$p" --tier "${TIER:-quick}" > /tmp/seedtest.$$.out 2>&1; rc=$?
  echo "== $D $p rc=$rc"; grep -E "^(VIOLATION|MACHINERY)" /tmp/seedtest.$$.out | head -4
  grep -A2 "^VIOLATION" /tmp/seedtest.$$.out | grep -v "^VIOLATION\|^--" | cut -c1-${COLS:-400} | head -6
done
rm -f /tmp/seedtest.$$.out
